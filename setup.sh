#!/bin/sh
# Offline build of the framework: the Lean library (models, lemmas, property theorems), the audit table and the
# model driver executable. No network; Mathlib comes from the toolchain's own search path.
cd "$(dirname "$0")" || exit 2
/venv/bin/python - <<'PY'
import sys
sys.path.insert(0, ".")
from harness import core
ok, tail = core.lean_build()
print(tail[-2000:])
sys.exit(0 if ok else 1)
PY
