#!/usr/bin/env python3
"""Regenerates MANIFEST.json from the table below (run from /verif)."""
import json, os
HERE = os.path.dirname(os.path.dirname(os.path.abspath(__file__)))
props = [json.loads(l)["id"] for l in open(os.path.join(HERE, "properties.jsonl"))]
TB = ("Lean 4.33 kernel (axioms: propext, Classical.choice, Quot.sound only; audited each run); the statements in "
      "lean/ZI/Props; the hand model is validated against /repo by the correspondence of this check in both the C and "
      "PURE_PYTHON twins; generators/executors in harness/; CPython semantics modelled.")
CHECKS = {}
def add(pid, text, note, technique, design_ref, engine="lean4+correspondence"):
    assert pid in props, "unknown property id %r" % pid[:40]
    CHECKS[pid] = dict(
        property_id=pid, quick_cmd="./check %s --tier quick" % pid, thorough_cmd="./check %s --tier thorough" % pid,
        evidence_file="evidence/%s.json" % pid, replay_cmd_template="./check %s --replay {path}" % pid, engine=engine,
        level_claimed=dict(category="proof", text=text, design_ref=design_ref), level_note=note + " " + TB,
        technique=technique)

exec(open(os.path.join(HERE, "tools", "manifest_table.py")).read())

m = dict(
    version=1,
    setup_cmd="./setup.sh",
    hooks=dict(guard="ZOPE_INTERFACE_VERIF", enable="no hooks are needed: all instrumentation is external (overlay copy of /repo/src built per run, subclassing, gc introspection)",
               baseline_off_cmd="cd /repo && /venv/bin/python -m pytest -ra -q -p no:cacheprovider --timeout=900 --continue-on-collection-errors",
               source_commits=[], add_only=True),
    engines=[dict(name="lean4+correspondence", path="lean/ + harness/", serves_properties=sorted(p for p in CHECKS if CHECKS[p]["engine"] == "lean4+correspondence"),
                  kind_free_text="Lean 4 theorems about a hand-written executable model; model tied to /repo on every run by a line-protocol correspondence against the real implementation (C and PURE_PYTHON) plus an independent oracle used to search for failing inputs"),
             dict(name="lean4+translation", path="lean/ZI/Own*.lean, lean/ZI/Detach.lean, tools/cextract.py, harness/layers/reentry.py", serves_properties=sorted(p for p in CHECKS if CHECKS[p]["engine"] == "lean4+translation"),
                  kind_free_text="Lean 4 soundness theorems about two static checks over small IRs; the IR terms are regenerated from /repo's C and Python sources on every run by a fail-closed translator and the obligations `check prog = true` are decided by Lean; a re-entrancy injection harness on the real code searches for failing schedules")],
    checks=[CHECKS[p] for p in props if p in CHECKS],
    notes="See DESIGN.md. Exit codes: 0 held, 1 violation (VIOLATION line), 2 infrastructure failure.",
    not_applicable=[dict(property_id=p, reason=NOT_YET.get(p, "check not built yet in this tree; design in DESIGN.md section 6")) for p in props if p not in CHECKS],
)
json.dump(m, open(os.path.join(HERE, "MANIFEST.json"), "w"), indent=1)
print("checks:", sorted(CHECKS), "not claimed:", [p for p in props if p not in CHECKS])
