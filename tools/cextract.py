#!/usr/bin/env python3
"""Scratch C11 translator: C lookup functions -> ownership IR (Lean term).  Fails closed on unknown statements."""
import re, sys

def strip(src):
    src = re.sub(r'/\*.*?\*/', '', src, flags=re.S)
    src = re.sub(r'//[^\n]*', '', src)
    return src

def func_body(src, name):
    m = re.search(r'\n(?:static\s+)?[\w\*\s]+?\n%s\(([^)]*)\)\s*\{' % re.escape(name), src)
    if not m: raise SystemExit("no function " + name)
    i = m.end(); d = 1; j = i
    while d:
        d += (src[j] == '{') - (src[j] == '}'); j += 1
    return m.group(1), src[i:j-1]

# ---------------- statement parser
class P:
    def __init__(s, text): s.t = text; s.i = 0
    def ws(s):
        while s.i < len(s.t) and s.t[s.i].isspace(): s.i += 1
    def peek(s, k): s.ws(); return s.t.startswith(k, s.i)
    def paren(s):
        s.ws(); assert s.t[s.i] == '(', s.t[s.i:s.i+30]
        d = 0; j = s.i
        while True:
            d += (s.t[j] == '(') - (s.t[j] == ')'); j += 1
            if d == 0: break
        r = s.t[s.i+1:j-1]; s.i = j; return ' '.join(r.split())
    def stmt(s):
        s.ws()
        if s.i >= len(s.t): return None
        if s.t[s.i] == '{':
            s.i += 1; out = []
            while not s.peek('}'):
                out.append(s.stmt())
            s.i += 1; return ('block', out)
        m = re.match(r'(if|for|while)\b', s.t[s.i:])
        if m:
            kw = m.group(1); s.i += len(kw); cond = s.paren(); body = s.stmt()
            if kw == 'if':
                els = None
                if re.match(r'\s*else\b', s.t[s.i:]):
                    s.ws(); s.i += 4; els = s.stmt()
                return ('if', cond, body, els)
            return ('loop', cond, body)
        j = s.t.index(';', s.i); txt = ' '.join(s.t[s.i:j].split()); s.i = j + 1
        return ('simple', txt)
    def all(s):
        out = []
        while True:
            st = s.stmt()
            if st is None: break
            out.append(st)
        return ('block', out)

FIELDS = {'_cache': 0, '_mcache': 1, '_scache': 2, '_verify_ro': 3, '_verify_generations': 4}
CALLBACK_NEW = r'(PySequence_Tuple|PyObject_CallMethodObjArgs|PyObject_CallFunctionObjArgs|PyObject_GetAttr|providedBy|_lookup1?|_getcache|implementedBy)'

class Tr:
    """C lookup functions -> ownership IR (ZI.Own.Prog) with `ret`.  Call summaries used for the helpers that are translated and
    checked themselves (`_subcache`, `_getcache`, `_lookup`): a call may run Python code and returns a NEW reference."""
    def __init__(s): s.vars = {}; s.unknown = []; s.n = 0
    def v(s, name):
        if name not in s.vars:
            s.vars[name] = s.n; s.n += 1
        return s.vars[name]
    def simple(s, txt, cond=None):
        """-> list of IR ops (strings), or ('RET', var or None)"""
        t = txt
        if re.match(r'^(PyObject|int|PyTypeObject)\s*\*?[\w\s,\*]*$', t) and '=' not in t: return []           # declaration
        if re.match(r'^\w+( = \w+)+ = NULL$', t): return []
        m = re.match(r'^return\b\s*(.*)$', t)
        if m:
            x = m.group(1).strip()
            if x in s.vars: return ('RET', s.vars[x])
            if re.match(r'^(NULL|-?\d+|)$', x): return ('RET', None)
            s.unknown.append(t); return ('RET', None)
        if t.startswith('PyErr_SetString') or t.startswith('ASSURE_DICT'): return []
        m = re.match(r'^(?:PyObject\s*\*\s*)?(\w+) = _subcache\((\w+), .*\)$', t)
        if m and m.group(2) in s.vars:      # a sub-cache of a dictionary we hold: the key is hashed (Python code may run), a new reference comes back
            return ['.use %d' % s.v(m.group(2)), '.callback', '.new %d' % s.v(m.group(1))]
        m = re.match(r'^(?:PyObject\s*\*\s*)?(\w+) = _subcache\(self->(\w+), .*\)$', t)
        if m:
            tmp = s.v('__field_' + m.group(2))
            return ['.borrowField %d %d' % (tmp, FIELDS[m.group(2)]), '.use %d' % tmp, '.callback', '.new %d' % s.v(m.group(1))]
        m = re.match(r'^(?:PyObject\s*\*\s*)?(\w+) = %s\s*\((.*)\)$' % CALLBACK_NEW, t)
        if m: return ['.callback', '.new %d' % s.v(m.group(1))]
        m = re.match(r'^(\w+) = (PyDict_New|PyTuple_New)\(.*\)$', t)
        if m: return ['.new %d' % s.v(m.group(1))]
        m = re.match(r'^PyTuple_SET_ITEM\((\w+), \w+, (\w+)\)$', t)
        if m: return ['.use %d' % s.v(m.group(1)), '.decref %d' % s.v(m.group(2))]      # steals our reference to the item
        m = re.match(r'^(\w+) = PyTuple_GET_ITEM\((\w+), \w+\)$', t)
        if m: return ['.borrowInside %d %d true' % (s.v(m.group(1)), s.v(m.group(2)))]
        m = re.match(r'^(\w+) = PyDict_GetItem\((\w+), (\w+)\)$', t)
        if m:   # the key is hashed and compared first: Python code (a __hash__ / __eq__ of the key) may run before the dictionary is searched
            return ['.use %d' % s.v(m.group(2)), '.callback', '.getItem %d %d' % (s.v(m.group(1)), s.v(m.group(2)))]
        m = re.match(r'^\w+ = PyDict_SetItem\((\w+), (\w+), (\w+)\)$', t)
        if m: return ['.use %d' % s.v(m.group(1)), '.callback', '.use %d' % s.v(m.group(1))]
        m = re.match(r'^Py_X?INCREF\((\w+)\)$', t)
        if m: return [] if m.group(1) == 'Py_None' else ['.incref %d' % s.v(m.group(1))]
        m = re.match(r'^Py_X?DECREF\((\w+)\)$', t)
        if m:
            if m.group(1) == 'Py_None':
                # `if (result == Py_None ...) { Py_DECREF(Py_None); ...`: the reference released is the one held in `result`
                mc = re.search(r'(\w+) == Py_None', cond or '')
                if mc and mc.group(1) in s.vars: return ['.decref %d' % s.vars[mc.group(1)]]
                s.unknown.append(t); return []
            return ['.decref %d' % s.v(m.group(1))]
        m = re.match(r'^(\w+) = self->(\w+)$', t)
        if m and m.group(2) in FIELDS: return ['.borrowField %d %d' % (s.v(m.group(1)), FIELDS[m.group(2)])]
        m = re.match(r'^(\w+) = _generations_tuple\((\w+)\)$', t)
        if m:   # loops over the tuple calling PyObject_GetAttr on each registry (Python code may run between two reads of the tuple)
            return ['.use %d' % s.v(m.group(2)), '.callback', '.use %d' % s.v(m.group(2)), '.new %d' % s.v(m.group(1))]
        m = re.match(r'^(\w+) = PyObject_RichCompareBool\( ?self->(\w+), (\w+), Py_NE\)$', t)
        if m and m.group(2) in FIELDS:
            tmp = s.v('__tmp_' + m.group(2))
            # (the comparison goes on reading both operands after an element's __eq__ has run Python code)
            return ['.borrowField %d %d' % (tmp, FIELDS[m.group(2)]), '.use %d' % tmp, '.use %d' % s.v(m.group(3)), '.callback',
                    '.use %d' % tmp, '.use %d' % s.v(m.group(3))]
        m = re.match(r'^(\w+) = PyObject_RichCompareBool\((\w+), (\w+), Py_NE\)$', t)
        if m and m.group(2) in s.vars and m.group(3) in s.vars:
            # two local references compared: both are read, Python code (an __eq__) may run, both are read again
            a, b = s.v(m.group(2)), s.v(m.group(3))
            return ['.use %d' % a, '.use %d' % b, '.callback', '.use %d' % a, '.use %d' % b]
        m = re.match(r'^(\w+) = (\w+)$', t)
        if m and m.group(2) in s.vars and m.group(1) in ('key', 'result'): return ['ALIAS %s %s' % (m.group(1), m.group(2))]
        if re.match(r'^int \w+$', t): return []
        s.unknown.append(t); return []
    def prog(s, stmts, cont, cond=None, pending=()):
        """translate a list of statements followed by continuation `cont` (a Lean Prog string).  `pending`: variables just
        assigned the result of a call that returns a new reference OR NULL: the `.new` is placed on the non-NULL arm of the
        `if (v == NULL)` that follows (on the NULL arm there is no reference), or before the first other mention of the variable"""
        def flush(names, tail):
            for n in reversed(names): tail = '(.seq (.new %d) %s)' % (s.vars[n], tail)
            return tail
        if not stmts: return flush(pending, cont)
        st, rest = stmts[0], stmts[1:]
        if st[0] == 'block': return s.prog(st[1] + rest, cont, cond, pending)
        if st[0] == 'simple':
            hit = [n for n in pending if re.search(r'\b%s\b' % re.escape(n), st[1])]
            keep = tuple(n for n in pending if n not in hit)
            r = s.simple(st[1], cond)
            if isinstance(r, tuple): return flush(pending, '(.ret %s)' % ('none' if r[1] is None else '(some %d)' % r[1]))
            r = list(r)
            m = re.match(r'^(?:PyObject\s*\*\s*)?(\w+) = ', st[1])
            if r and r[-1].startswith('.new ') and m and s.vars.get(m.group(1)) == int(r[-1].split()[1]) and m.group(1) not in keep:
                r.pop(); keep = keep + (m.group(1),)
                hit = [n for n in hit if n != m.group(1)]
            saved = dict(s.vars)
            for op in r:
                if op.startswith('ALIAS'):
                    _, a, b = op.split(); s.vars[a] = s.v(b)      # `key = required` : same pointer from here on (on this path)
            tail = s.prog(rest, cont, cond, keep)
            s.vars = dict(saved, **{k: v for k, v in s.vars.items() if k not in saved})
            for op in reversed(r):
                if not op.startswith('ALIAS'): tail = '(.seq (%s) %s)' % (op, tail)
            return flush(hit, tail)
        if st[0] == 'if':
            # a condition that calls back into Python (truth value of a str subclass, a rich comparison) is a callback point
            pre = '.callback' if re.search(r'PyObject_IsTrue|PyObject_RichCompare', st[1]) else None
            mnull = re.match(r'^(\w+) == NULL$', st[1])
            saved = dict(s.vars)
            if mnull and mnull.group(1) in pending:
                x = mnull.group(1)
                others = tuple(n for n in pending if n != x)
                a = s.prog([st[2]] + rest, cont, st[1], others)                                   # NULL: no reference was obtained
                s.vars = dict(saved, **{k: v for k, v in s.vars.items() if k not in saved})
                b = '(.seq (.new %d) %s)' % (s.vars[x], s.prog(([st[3]] if st[3] else []) + rest, cont, cond, others))
                s.vars = dict(saved, **{k: v for k, v in s.vars.items() if k not in saved})
                return '(.branch %s %s)' % (a, b)
            a = s.prog([st[2]] + rest, cont, st[1])
            s.vars = dict(saved, **{k: v for k, v in s.vars.items() if k not in saved})
            b = s.prog(([st[3]] if st[3] else []) + rest, cont, cond)
            s.vars = dict(saved, **{k: v for k, v in s.vars.items() if k not in saved})
            br = '(.branch %s %s)' % (a, b)
            return flush(pending, '(.seq (%s) %s)' % (pre, br) if pre else br)
        if st[0] == 'loop':
            s.unknown.append('loop ' + st[1]); return s.prog(rest, cont, cond, pending)
        raise SystemExit('?')

class TrD:
    """second IR (ZI.Detach): fetch / callback+compute / store"""
    def __init__(s): s.vars = {}
    def v(s, name):
        if name not in s.vars: s.vars[name] = len(s.vars)
        return s.vars[name]
    def simple(s, t):
        m = re.match(r'^return\b', t)
        if m: return 'RET'
        m = re.match(r'^(\w+) = (?:_getcache\(self, .*\)|_subcache\(self->\w+, .*\))$', t)
        if m: return ['.fetch %d' % s.v(m.group(1)), '.callback']      # the container is read off the lookup object, then its key is hashed (Python code may run)
        m = re.match(r'^(?:PyObject\s*\*\s*)?(\w+) = %s\s*\((.*)\)$' % CALLBACK_NEW, t)
        if m: return ['.callback', '.compute %d' % s.v(m.group(1))]
        m = re.match(r'^\w+ = PyDict_SetItem\((\w+), (\w+), (\w+)\)$', t)
        if m: return ['.store %d %d' % (s.v(m.group(1)), s.v(m.group(3)))]
        return []
    def prog(s, stmts, cont):
        if not stmts: return cont
        st, rest = stmts[0], stmts[1:]
        if st[0] == 'block': return s.prog(st[1] + rest, cont)
        if st[0] == 'simple':
            r = s.simple(st[1])
            if r == 'RET': return '.done'
            tail = s.prog(rest, cont)
            for op in reversed(r): tail = '(.seq (%s) %s)' % (op, tail)
            return tail
        if st[0] == 'if':
            return '(.branch %s %s)' % (s.prog([st[2]] + rest, cont), s.prog(([st[3]] if st[3] else []) + rest, cont))
        return s.prog(rest, cont)


def extract_detach(path, name):
    src = strip(open(path).read())
    args, body = func_body(src, name)
    tr = TrD()
    return tr.prog([P(body).all()], '.done')


def python_loops(pkgdir):
    """iteration mode of the loops that run inside changed(): True = over a snapshot (tuple(...)/list(...)), False = over a live view"""
    import ast, os
    out = []
    for fn, cls, meth in [("adapter.py", "AdapterLookupBase", "changed"), ("adapter.py", "AdapterRegistry", "changed"),
                          ("adapter.py", "AdapterRegistry", "_setBases"), ("interface.py", "Specification", "changed")]:
        tree = ast.parse(open(os.path.join(pkgdir, fn)).read())
        for node in ast.walk(tree):
            if isinstance(node, ast.ClassDef) and node.name == cls:
                for f in node.body:
                    if isinstance(f, ast.FunctionDef) and f.name == meth:
                        for loop in ast.walk(f):
                            if isinstance(loop, ast.For):
                                it = loop.iter
                                snap = isinstance(it, ast.Call) and isinstance(it.func, ast.Name) and it.func.id in ("tuple", "list", "sorted")
                                # iterating a local / argument tuple is fine too; a .keys()/.values()/.items() view or a bare attribute dict is live
                                live = (isinstance(it, ast.Call) and isinstance(it.func, ast.Attribute) and it.func.attr in ("keys", "values", "items")) or \
                                    (isinstance(it, ast.Attribute) and it.attr.startswith("_") and it.attr not in ("__bases__",))
                                out.append(("%s.%s:%d" % (cls, meth, loop.lineno), bool(snap or not live)))
    return out


# ---------------- the registry mutators (adapter.py) -> step IR of ZI.Mutator
MUTATOR_CLASSES = ("AdapterRegistry", "VerifyingAdapterRegistry")
MUTATOR_METHODS = ("register", "unregister", "subscribe", "unsubscribe", "rebuild", "_setBases")
CONTAINER_MUTATORS = ("append", "extend", "insert", "pop", "popitem", "remove", "clear", "update", "setdefault", "add", "discard",
                      "add_extendor", "remove_extendor")       # + the lookup object's extendors table: lookups compute from it


class TrM:
    """Statement-level reader of the mutators of the adapter registries.  Every statement becomes a (possibly empty) sequence of
      hook      the statement calls something / subscripts something: other Python code may run there
      write     it stores into / deletes from an attribute or an item (of anything but a plain local name), or calls a container
                mutator (not on a list / dict literal the method made itself).  NOT a write (it changes no answer): putting a
                mapping fresh from `self._mappingType()` into the tree
      changed   `self.changed(…)`;   shadow / unshadow: `self.changed = …` (also through `self.__dict__`) / `del self.changed`
    and calls of the object's own methods (`self.m(…)`, `super().m(…)`, `self.__bases__ = …` -> `_setBases`) are followed into the
    method's body (resolved along the class's bases as written in the module).  `return` / `raise` end the path, `break` /
    `continue` end the iteration; a `return` inside a loop ends the iteration too and the loop is followed by a choice between
    returning and going on (a superset of the real runs); recursion and unknown statement kinds FAIL CLOSED."""

    def __init__(s, pkgdir):
        import ast, os
        s.ast = ast
        tree = ast.parse(open(os.path.join(pkgdir, "adapter.py")).read())
        s.classes = {n.name: n for n in tree.body if isinstance(n, ast.ClassDef)}
        s.defs = []          # (lean name, term) in dependency order
        s.done = {}
        s.busy = set()
        s.unknown = []
        s.naux = 0
        s.byterm = {}        # term -> name of the definition that already has it (the two classes share most methods)

    def define(s, name, term):
        if term in s.byterm:
            return s.byterm[term]
        s.byterm[term] = name
        s.defs.append((name, term))
        return name

    def mro(s, cls):
        out = []
        while cls in s.classes:
            out.append(cls)
            bases = [b.id for b in s.classes[cls].bases if isinstance(b, s.ast.Name) and b.id in s.classes]
            cls = bases[0] if bases else None
        return out

    def resolve(s, start, meth, after=None):
        """the class (along start's bases, after class `after` for super()) that defines `meth`"""
        m = s.mro(start)
        if after is not None:
            m = m[m.index(after) + 1:] if after in m else []
        for c in m:
            for f in s.classes[c].body:
                if isinstance(f, s.ast.FunctionDef) and f.name == meth:
                    return c, f
        return None, None

    def method(s, start, meth, after=None):
        """Lean name of the translated method, None if it is not a method of these classes"""
        owner, f = s.resolve(start, meth, after)
        if f is None:
            return None
        key = (start, owner, meth)
        name = "mp_%s_%s_%s" % (start, owner, meth.strip("_") or meth)
        if key in s.done:
            return s.done[key]
        if key in s.busy:
            s.unknown.append("recursion through %s.%s" % (owner, meth))
            return name
        s.busy.add(key)
        ctx = dict(start=start, owner=owner, fresh=set(), scratch=set(), name=name, delegated=s.delegated(start))
        term = s.block(f.body, ".done", ctx, False)
        s.busy.discard(key)
        s.done[key] = s.define(name, term)
        return s.done[key]

    def delegated(s, start):
        """names copied into the instance dictionary by _createLookup (`for name in self._delegated: self.__dict__[name] = …`)"""
        ast = s.ast
        for c in s.mro(start):
            for n in s.classes[c].body:
                if isinstance(n, ast.Assign) and any(isinstance(t, ast.Name) and t.id == "_delegated" for t in n.targets):
                    try:
                        return tuple(ast.literal_eval(n.value))
                    except Exception:  # noqa
                        return None
        return ()

    # -- helpers
    def is_self_attr(s, n, attr=None):
        ast = s.ast
        return isinstance(n, ast.Attribute) and isinstance(n.value, ast.Name) and n.value.id == "self" and (attr is None or n.attr == attr)

    def is_self_dict_item(s, n):
        ast = s.ast
        return isinstance(n, ast.Subscript) and s.is_self_attr(n.value, "__dict__")

    def is_fresh_mapping(s, n, ctx):
        ast = s.ast
        if isinstance(n, ast.Name) and n.id in ctx["fresh"]:
            return True
        return isinstance(n, ast.Call) and s.is_self_attr(n.func, "_mappingType") and not n.args and not n.keywords

    def own_calls(s, node, ctx):
        """the object's own methods called inside an expression / statement, in source order -> Lean names"""
        ast = s.ast
        out = []
        for n in sorted((n for n in s.walk_own(node) if isinstance(n, ast.Call)), key=lambda n: (n.lineno, n.col_offset)):
            if isinstance(n.func, ast.Attribute):
                f = n.func
                name = None
                if s.is_self_attr(f) and f.attr != "changed":
                    name = s.method(ctx["start"], f.attr)
                elif isinstance(f.value, ast.Call) and isinstance(f.value.func, ast.Name) and f.value.func.id == "super":
                    name = s.method(ctx["start"], f.attr, after=ctx["owner"])
                if name:
                    out.append(name)
        return out

    def walk_own(s, node):
        """ast.walk without the bodies of nested functions / classes"""
        ast = s.ast
        todo = [node]
        while todo:
            n = todo.pop()
            yield n
            todo.extend(c for c in ast.iter_child_nodes(n) if not isinstance(c, (ast.FunctionDef, ast.Lambda, ast.ClassDef)))

    def has_call(s, node):
        ast = s.ast
        return any(isinstance(n, (ast.Call, ast.Subscript, ast.Yield, ast.YieldFrom)) for n in s.walk_own(node))

    def escapes(s, stmts, in_loop_ok=True):
        """does control leave the statement list other than by falling through?"""
        ast = s.ast
        for st in stmts:
            if isinstance(st, (ast.Return, ast.Raise)):
                return True
            if isinstance(st, (ast.Break, ast.Continue)) and in_loop_ok:
                return True
            if isinstance(st, (ast.If, ast.Try, ast.With)):
                subs = [st.body, getattr(st, "orelse", []), getattr(st, "finalbody", [])] + [h.body for h in getattr(st, "handlers", [])]
                if any(s.escapes(b, in_loop_ok) for b in subs):
                    return True
            if isinstance(st, (ast.For, ast.While)):
                if s.escapes(st.body, False) or s.escapes(st.orelse, in_loop_ok):
                    return True
        return False

    def share(s, term, ctx):
        """a continuation used twice is emitted once, as a definition of its own"""
        if len(term) < 60:
            return term
        s.naux += 1
        return s.define("%s_k%d" % (ctx["name"], s.naux), term)

    def ops(s, ops, tail):
        for o in reversed(ops):
            if o.startswith("CALL "):
                tail = "(.andThen %s %s)" % (o[5:], tail)
            elif not (o == ".hook" and tail.startswith("(.seq .hook ")):        # consecutive hooks are one hook
                tail = "(.seq %s %s)" % (o, tail)
        return tail

    def simple(s, st, ctx):
        """-> list of ops for a simple statement"""
        ast = s.ast
        out = []
        if s.has_call(st):
            out.append(".hook")
        # self.changed(...)
        if isinstance(st, ast.Expr) and isinstance(st.value, ast.Call) and s.is_self_attr(st.value.func, "changed"):
            return out + [".changed"]
        if any(isinstance(n, ast.Call) and s.is_self_attr(n.func, "changed") for n in s.walk_own(st)):
            s.unknown.append("self.changed(...) inside a larger statement at line %d" % st.lineno)
        out += ["CALL " + n for n in s.own_calls(st, ctx)]
        targets = []
        if isinstance(st, ast.Assign):
            targets = list(st.targets)
        elif isinstance(st, (ast.AugAssign, ast.AnnAssign)):
            targets = [st.target]
        elif isinstance(st, ast.Delete):
            targets = list(st.targets)
        flat = []
        for t in targets:
            flat.extend(t.elts if isinstance(t, (ast.Tuple, ast.List)) else [t])
        for t in flat:
            if isinstance(t, ast.Name):
                ctx["fresh"].discard(t.id)
                ctx["scratch"].discard(t.id)
                if isinstance(st, ast.Assign) and s.is_fresh_mapping(st.value, ctx):
                    ctx["fresh"].add(t.id)
                elif isinstance(st, ast.Assign) and isinstance(st.value, (ast.List, ast.Dict, ast.Set, ast.ListComp, ast.DictComp, ast.SetComp)):
                    ctx["scratch"].add(t.id)           # a container made here: the method's own scratch data
                continue
            if s.is_self_attr(t, "changed"):
                out.append(".unshadow" if isinstance(st, ast.Delete) else ".shadow")
                continue
            if s.is_self_dict_item(t):
                k = t.slice
                if isinstance(k, ast.Constant):
                    names = (k.value,)
                elif ctx["delegated"] is not None and isinstance(k, ast.Name):
                    names = ctx["delegated"]           # `for name in self._delegated: self.__dict__[name] = …`
                else:
                    names = ("changed",)               # unknown key: assume the worst
                if "changed" in names:
                    out.append(".unshadow" if isinstance(st, ast.Delete) else ".shadow")
                out += [".write", ".hook"]
                continue
            if s.is_self_attr(t, "__bases__") and not isinstance(st, ast.Delete):
                n = s.method(ctx["start"], "_setBases")
                out.append("CALL " + n if n else ".write")
                continue
            if isinstance(t, (ast.Subscript, ast.Attribute)):
                if isinstance(st, ast.Assign) and isinstance(t, ast.Subscript) and s.is_fresh_mapping(st.value, ctx):
                    out.append(".hook")                # an empty mapping goes into the tree: no answer changes
                else:
                    out += [".write", ".hook"]
                continue
            s.unknown.append("assignment target at line %d" % st.lineno)
        if isinstance(st, ast.Expr) and isinstance(st.value, ast.Call) and isinstance(st.value.func, ast.Attribute):
            f = st.value.func
            if f.attr in CONTAINER_MUTATORS and not s.is_self_attr(f) and not (isinstance(f.value, ast.Name) and f.value.id in ctx["scratch"]):
                if not (f.attr == "append" and len(st.value.args) == 1 and s.is_fresh_mapping(st.value.args[0], ctx)):
                    out += [".write", ".hook"]
        return out

    def block(s, stmts, cont, ctx, in_loop):
        """translate statements followed by the continuation `cont` (a Lean term)"""
        ast = s.ast
        if not stmts:
            return cont
        st, rest = stmts[0], stmts[1:]
        if isinstance(st, (ast.FunctionDef, ast.ClassDef, ast.Pass, ast.Import, ast.ImportFrom, ast.Global, ast.Nonlocal)):
            return s.block(rest, cont, ctx, in_loop)
        if isinstance(st, ast.Return):
            return s.ops(s.simple(ast.Expr(value=st.value, lineno=st.lineno), ctx) if st.value is not None else [], ".done")
        if isinstance(st, ast.Raise):
            return ".done"
        if isinstance(st, (ast.Break, ast.Continue)):
            if not in_loop:
                s.unknown.append("break outside a loop at line %d" % st.lineno)
            return ".done"
        if isinstance(st, ast.If):
            head = [".hook"] if s.has_call(st.test) else []
            if s.escapes(st.body) or s.escapes(st.orelse):
                k = s.share(s.block(rest, cont, ctx, in_loop), ctx)
                return s.ops(head, "(.branch %s %s)" % (s.block(st.body, k, ctx, in_loop), s.block(st.orelse, k, ctx, in_loop)))
            both = "(.branch %s %s)" % (s.block(st.body, ".done", ctx, False), s.block(st.orelse, ".done", ctx, False))
            return s.ops(head, "(.andThen %s %s)" % (both, s.block(rest, cont, ctx, in_loop)))
        if isinstance(st, (ast.For, ast.While)):
            head = [".hook"] if s.has_call(st.iter if isinstance(st, ast.For) else st.test) else []
            after = s.block(rest, cont, ctx, in_loop)
            if st.orelse:
                after = s.share(after, ctx)
                after = "(.branch %s %s)" % (s.block(st.orelse, after, ctx, in_loop), after)
            if any(isinstance(n, ast.Return) for n in s.walk_own(st)):
                after = "(.branch .done %s)" % after                                # the loop was left by `return`
            body = s.ops([".hook"], s.block(st.body, ".done", ctx, True))           # fetching the next item may run code
            return s.ops(head, "(.loop %s %s)" % (body, after))
        if isinstance(st, ast.Try):
            tail = list(st.finalbody) + rest
            main = s.block(list(st.body) + list(st.orelse) + tail, cont, ctx, in_loop)
            for h in st.handlers:
                main = "(.branch %s %s)" % (main, s.block(list(h.body) + tail, cont, ctx, in_loop))
            return main
        if isinstance(st, ast.With):
            return s.ops([".hook"], s.block(list(st.body) + rest, cont, ctx, in_loop))
        if isinstance(st, (ast.Expr, ast.Assign, ast.AugAssign, ast.AnnAssign, ast.Delete, ast.Assert)):
            return s.ops(s.simple(st, ctx), s.block(rest, cont, ctx, in_loop))
        s.unknown.append("%s at line %d" % (type(st).__name__, st.lineno))
        return s.block(rest, cont, ctx, in_loop)


def python_mutators(pkgdir):
    """-> Lean text: the step IR of every mutator of both registry classes and the obligation `mutators_wipe`"""
    tr = TrM(pkgdir)
    tops = []
    for cls in MUTATOR_CLASSES:
        for m in MUTATOR_METHODS:
            n = tr.method(cls, m)
            if n is None:
                tr.unknown.append("no method %s.%s" % (cls, m))
            else:
                tops.append(("%s_%s" % (cls, m.strip("_")), n))
    out = ["def %s : ZI.Mutator.Prog := %s" % d for d in tr.defs]
    out.append("def mutatorProgs : List (String × ZI.Mutator.Prog) := [%s]" % ", ".join('("mp_%s", %s)' % t for t in tops))
    out.append("#eval mutatorProgs.map (fun x => (x.1, ZI.Mutator.wipes x.2))")
    if tr.unknown:
        out.append("-- FAIL-CLOSED: unclassified statements in the mutators: %r" % (tr.unknown,))
        out.append("theorem mutators_wipe : False := by decide")
    else:
        out.append("theorem mutators_wipe : mutatorProgs.all (fun x => ZI.Mutator.wipes x.2) = true ∧ mutatorProgs.length = %d := by decide"
                   % (len(MUTATOR_CLASSES) * len(MUTATOR_METHODS)))
    return "\n".join(out)


def python_changed(pkgdir):
    """-> Lean text: the step sequence of AdapterLookupBase.changed (IR of ZI.Resub) and the obligation `changed_resubscribes`.
    Fails closed: a statement that is none of the four kinds of step makes the obligation `False`."""
    import ast, os
    tree = ast.parse(open(os.path.join(pkgdir, "adapter.py")).read())
    fn = None
    for node in tree.body:
        if isinstance(node, ast.ClassDef) and node.name == "AdapterLookupBase":
            for m in node.body:
                if isinstance(m, ast.FunctionDef) and m.name == "changed":
                    fn = m
    ops, unknown = [], []

    def is_keys_snapshot(e):
        return ast.unparse(e).replace(" ", "") in ("tuple(self._required.keys())", "tuple(self._required)", "list(self._required.keys())", "list(self._required)")
    snapvars = set()
    for st in (fn.body if fn else []):
        src = ast.unparse(st).replace(" ", "")
        if isinstance(st, ast.Expr) and isinstance(st.value, ast.Constant):
            continue                                                        # docstring
        if isinstance(st, ast.Assign) and len(st.targets) == 1 and isinstance(st.targets[0], ast.Name) and is_keys_snapshot(st.value):
            snapvars.add(st.targets[0].id)
            ops.append(".snapshot")
        elif src == "self._required.clear()":
            ops.append(".clearMarks")
        elif src in ("super().changed(None)", "super().changed(ignored)", "super(AdapterLookupBase,self).changed(None)"):
            ops.append(".drop")
        elif isinstance(st, ast.For) and not st.orelse and ".unsubscribe(self)" in src and \
                ((isinstance(st.iter, ast.Name) and st.iter.id in snapvars) or is_keys_snapshot(st.iter)):
            body = "".join(ast.unparse(b).replace(" ", "") for b in st.body)
            tgt = ast.unparse(st.target)
            if body not in ("%s=%s()" % (tgt, tgt) + "if%sisnotNone:\n%s.unsubscribe(self)" % (tgt, tgt),):
                unknown.append("loop body at line %d: %s" % (st.lineno, body[:80]))
            if not isinstance(st.iter, ast.Name):
                ops.append(".snapshot")                                    # iterating a copy made on the spot
            ops.append(".unsubSnap")
        else:
            unknown.append("%s at line %d" % (type(st).__name__, st.lineno))
    if fn is None:
        unknown.append("no method AdapterLookupBase.changed")
    out = ["def changedProg : List ZI.Resub.Op := [%s]" % ", ".join(ops)]
    if unknown:
        out.append("-- FAIL-CLOSED: unclassified statements in AdapterLookupBase.changed: %r" % (unknown,))
        out.append("theorem changed_resubscribes : False := by decide")
    else:
        out.append("theorem changed_resubscribes : ZI.Resub.check changedProg = true ∧ changedProg.contains .drop = true := by decide")
    return "\n".join(out)


def extract(path, name):
    src = strip(open(path).read())
    args, body = func_body(src, name)
    tr = Tr()
    tr.args = re.findall(r'(\w+)\s*(?:,|$)', args)
    for a in tr.args: tr.v(a)
    ast = P(body).all()
    term = tr.prog([ast], '.done')
    return term, tr

if __name__ == '__main__':
    path = sys.argv[1]
    import os
    print("import ZI.Own\nimport ZI.OwnLeak\nimport ZI.Detach\nimport ZI.Mutator\nimport ZI.Resub\nopen ZI.Own\nopen ZI.Own.Prog\nopen ZI.Own.Op")
    for fn in ['_lookup', '_lookupAll', '_subscriptions']:
        print("def dprog_%s : ZI.Detach.Prog := %s" % (fn.strip('_'), extract_detach(path, fn)))
        print("theorem detach_%s : ZI.Detach.check dprog_%s {} = true := by decide" % (fn.strip('_'), fn.strip('_')))
    loops = python_loops(os.path.dirname(path))
    print("def loopModes : List (String × Bool) := [%s]" % ", ".join('("%s", %s)' % (a, "true" if b else "false") for a, b in loops))
    print("theorem loops_snapshot : loopModes.all (·.2) = true ∧ loopModes.length ≥ 3 := by decide")
    print(python_mutators(os.path.dirname(path)))
    print(python_changed(os.path.dirname(path)))
    fns = sys.argv[2:] or ['_subcache', '_getcache', '_lookup', '_lookup1', '_lookupAll', '_subscriptions', '_verify']
    print("open ZI.Own in")
    print("def ownProgs : List String := [%s]" % ", ".join('"%s"' % f for f in fns))
    for fn in fns:
        term, tr = extract(path, fn)
        lean = fn.strip('_')
        print("/- %s: vars %s; unknown statements: %s -/" % (fn, tr.vars, tr.unknown))
        print("def prog_%s : Prog := %s" % (lean, term))
        # the parameters: references that belong to the caller (alive for the whole call, not ours to release)
        owned_args = sorted(i for n, i in tr.vars.items() if n in ('self', 'required', 'provided', 'name', 'default_', 'cache', 'key') and n in tr.args)
        print("def init_%s : AState := fun v => if v ∈ %s then .owned else .unk" % (lean, owned_args))
        print("def vars_%s : List Var := %s" % (lean, list(range(tr.n))))
        if tr.unknown:
            print("-- FAIL-CLOSED: unclassified statements in %s: %r" % (fn, tr.unknown))
            print("theorem own_%s : False := by decide" % lean)
        else:
            print("#eval (\"%s\", checkL vars_%s prog_%s ⟨init_%s, %s⟩)" % (fn, lean, lean, lean, owned_args))
            # memory safety (ZI.Own.check_sound applies through checkL_imp_check) AND balance of the reference ledger (ZI.Own.C11_balanced)
            print("theorem own_%s : checkL vars_%s prog_%s ⟨init_%s, %s⟩ = true ∧ vars_%s.Nodup := by decide" % (lean, lean, lean, lean, owned_args, lean))
