#!/usr/bin/env python3
"""Scratch C11 translator: C lookup functions -> ownership IR (Lean term).  Fails closed on unknown statements."""
import re, sys

def strip(src):
    src = re.sub(r'/\*.*?\*/', '', src, flags=re.S)
    src = re.sub(r'//[^\n]*', '', src)
    return src

def func_body(src, name):
    m = re.search(r'\n(?:static\s+)?[\w\*\s]+?\n%s\(([^)]*)\)\s*\{' % re.escape(name), src)
    if not m: raise SystemExit("no function " + name)
    i = m.end(); d = 1; j = i
    while d:
        d += (src[j] == '{') - (src[j] == '}'); j += 1
    return m.group(1), src[i:j-1]

# ---------------- statement parser
class P:
    def __init__(s, text): s.t = text; s.i = 0
    def ws(s):
        while s.i < len(s.t) and s.t[s.i].isspace(): s.i += 1
    def peek(s, k): s.ws(); return s.t.startswith(k, s.i)
    def paren(s):
        s.ws(); assert s.t[s.i] == '(', s.t[s.i:s.i+30]
        d = 0; j = s.i
        while True:
            d += (s.t[j] == '(') - (s.t[j] == ')'); j += 1
            if d == 0: break
        r = s.t[s.i+1:j-1]; s.i = j; return ' '.join(r.split())
    def stmt(s):
        s.ws()
        if s.i >= len(s.t): return None
        if s.t[s.i] == '{':
            s.i += 1; out = []
            while not s.peek('}'):
                out.append(s.stmt())
            s.i += 1; return ('block', out)
        m = re.match(r'(if|for|while)\b', s.t[s.i:])
        if m:
            kw = m.group(1); s.i += len(kw); cond = s.paren(); body = s.stmt()
            if kw == 'if':
                els = None
                if re.match(r'\s*else\b', s.t[s.i:]):
                    s.ws(); s.i += 4; els = s.stmt()
                return ('if', cond, body, els)
            return ('loop', cond, body)
        j = s.t.index(';', s.i); txt = ' '.join(s.t[s.i:j].split()); s.i = j + 1
        return ('simple', txt)
    def all(s):
        out = []
        while True:
            st = s.stmt()
            if st is None: break
            out.append(st)
        return ('block', out)

FIELDS = {'_cache': 0, '_mcache': 1, '_scache': 2, '_verify_ro': 3, '_verify_generations': 4}
CALLBACK_NEW = r'(PySequence_Tuple|PyObject_CallMethodObjArgs|PyObject_CallFunctionObjArgs|PyObject_GetAttr|providedBy|_lookup1?|implementedBy)'

class Tr:
    def __init__(s): s.vars = {}; s.unknown = []
    def v(s, name):
        if name not in s.vars: s.vars[name] = len(s.vars)
        return s.vars[name]
    def simple(s, txt):
        """-> list of IR ops (strings), or 'RET'"""
        t = txt
        if re.match(r'^(PyObject|int|PyTypeObject)\s*\*?[\w\s,\*]*$', t) and '=' not in t: return []           # declaration
        if re.match(r'^\w+( = \w+)+ = NULL$', t): return []
        m = re.match(r'^return\b\s*(.*)$', t)
        if m: return 'RET'
        if t.startswith('PyErr_SetString') or t.startswith('ASSURE_DICT'): return []
        m = re.match(r'^(?:PyObject\s*\*\s*)?(\w+) = %s\s*\((.*)\)$' % CALLBACK_NEW, t)
        if m: return ['.callback', '.new %d' % s.v(m.group(1))]
        m = re.match(r'^(\w+) = _getcache\(self, .*\)$', t)
        if m: return ['.borrowField %d 0' % s.v(m.group(1))]
        m = re.match(r'^(\w+) = _subcache\(self->(\w+), .*\)$', t)
        if m: return ['.borrowField %d %d' % (s.v(m.group(1)), FIELDS[m.group(2)])]
        m = re.match(r'^(\w+) = PyTuple_GET_ITEM\((\w+), \w+\)$', t)
        if m: return ['.borrowInside %d %d true' % (s.v(m.group(1)), s.v(m.group(2)))]
        m = re.match(r'^(\w+) = PyDict_GetItem\((\w+), (\w+)\)$', t)
        if m: return ['.use %d' % s.v(m.group(2)), '.getItem %d %d' % (s.v(m.group(1)), s.v(m.group(2)))]
        m = re.match(r'^\w+ = PyDict_SetItem\((\w+), (\w+), (\w+)\)$', t)
        if m: return ['.use %d' % s.v(m.group(1))]
        m = re.match(r'^Py_X?INCREF\((\w+)\)$', t)
        if m: return [] if m.group(1) in ('Py_None', 'default_') else ['.incref %d' % s.v(m.group(1))]
        m = re.match(r'^Py_X?DECREF\((\w+)\)$', t)
        if m: return [] if m.group(1) == 'Py_None' else ['.decref %d' % s.v(m.group(1))]
        m = re.match(r'^(\w+) = self->(\w+)$', t)
        if m and m.group(2) in FIELDS: return ['.borrowField %d %d' % (s.v(m.group(1)), FIELDS[m.group(2)])]
        m = re.match(r'^(\w+) = _generations_tuple\((\w+)\)$', t)
        if m:   # loops over the tuple calling PyObject_GetAttr on each registry (Python code may run between two reads of the tuple)
            return ['.use %d' % s.v(m.group(2)), '.callback', '.use %d' % s.v(m.group(2)), '.new %d' % s.v(m.group(1))]
        m = re.match(r'^(\w+) = PyObject_RichCompareBool\( ?self->(\w+), (\w+), Py_NE\)$', t)
        if m and m.group(2) in FIELDS:
            tmp = s.v('__tmp_' + m.group(2))
            return ['.borrowField %d %d' % (tmp, FIELDS[m.group(2)]), '.use %d' % tmp, '.use %d' % s.v(m.group(3)), '.callback']
        m = re.match(r'^(\w+) = (\w+)$', t)
        if m and m.group(1) == 'key': return ['ALIAS %s %s' % (m.group(1), m.group(2))]
        if re.match(r'^int \w+$', t): return []
        s.unknown.append(t); return []
    def prog(s, stmts, cont):
        """translate a list of statements followed by continuation `cont` (a Lean Prog string)"""
        if not stmts: return cont
        st, rest = stmts[0], stmts[1:]
        if st[0] == 'block': return s.prog(st[1] + rest, cont)
        if st[0] == 'simple':
            r = s.simple(st[1])
            if r == 'RET': return '.done'
            tail = s.prog(rest, cont)
            for op in reversed(r):
                if op.startswith('ALIAS'):
                    _, a, b = op.split(); s.vars[a] = s.v(b)      # `key = required` : same pointer
                else: tail = '(.seq (%s) %s)' % (op, tail)
            return tail
        if st[0] == 'if':
            # `key` aliasing in `if (...) key = X; else key = required;` is handled conservatively: both arms translated
            a = s.prog([st[2]] + rest, cont)
            b = s.prog(([st[3]] if st[3] else []) + rest, cont)
            return '(.branch %s %s)' % (a, b)
        if st[0] == 'loop':
            s.unknown.append('loop ' + st[1]); return s.prog(rest, cont)
        raise SystemExit('?')

class TrD:
    """second IR (ZI.Detach): fetch / callback+compute / store"""
    def __init__(s): s.vars = {}
    def v(s, name):
        if name not in s.vars: s.vars[name] = len(s.vars)
        return s.vars[name]
    def simple(s, t):
        m = re.match(r'^return\b', t)
        if m: return 'RET'
        m = re.match(r'^(?:PyObject\s*\*\s*)?(\w+) = %s\s*\((.*)\)$' % CALLBACK_NEW, t)
        if m: return ['.callback', '.compute %d' % s.v(m.group(1))]
        m = re.match(r'^(\w+) = (?:_getcache\(self, .*\)|_subcache\(self->\w+, .*\))$', t)
        if m: return ['.fetch %d' % s.v(m.group(1))]
        m = re.match(r'^\w+ = PyDict_SetItem\((\w+), (\w+), (\w+)\)$', t)
        if m: return ['.store %d %d' % (s.v(m.group(1)), s.v(m.group(3)))]
        return []
    def prog(s, stmts, cont):
        if not stmts: return cont
        st, rest = stmts[0], stmts[1:]
        if st[0] == 'block': return s.prog(st[1] + rest, cont)
        if st[0] == 'simple':
            r = s.simple(st[1])
            if r == 'RET': return '.done'
            tail = s.prog(rest, cont)
            for op in reversed(r): tail = '(.seq (%s) %s)' % (op, tail)
            return tail
        if st[0] == 'if':
            return '(.branch %s %s)' % (s.prog([st[2]] + rest, cont), s.prog(([st[3]] if st[3] else []) + rest, cont))
        return s.prog(rest, cont)


def extract_detach(path, name):
    src = strip(open(path).read())
    args, body = func_body(src, name)
    tr = TrD()
    return tr.prog([P(body).all()], '.done')


def python_loops(pkgdir):
    """iteration mode of the loops that run inside changed(): True = over a snapshot (tuple(...)/list(...)), False = over a live view"""
    import ast, os
    out = []
    for fn, cls, meth in [("adapter.py", "AdapterLookupBase", "changed"), ("adapter.py", "AdapterRegistry", "changed"),
                          ("adapter.py", "AdapterRegistry", "_setBases"), ("interface.py", "Specification", "changed")]:
        tree = ast.parse(open(os.path.join(pkgdir, fn)).read())
        for node in ast.walk(tree):
            if isinstance(node, ast.ClassDef) and node.name == cls:
                for f in node.body:
                    if isinstance(f, ast.FunctionDef) and f.name == meth:
                        for loop in ast.walk(f):
                            if isinstance(loop, ast.For):
                                it = loop.iter
                                snap = isinstance(it, ast.Call) and isinstance(it.func, ast.Name) and it.func.id in ("tuple", "list", "sorted")
                                # iterating a local / argument tuple is fine too; a .keys()/.values()/.items() view or a bare attribute dict is live
                                live = (isinstance(it, ast.Call) and isinstance(it.func, ast.Attribute) and it.func.attr in ("keys", "values", "items")) or \
                                    (isinstance(it, ast.Attribute) and it.attr.startswith("_") and it.attr not in ("__bases__",))
                                out.append(("%s.%s:%d" % (cls, meth, loop.lineno), bool(snap or not live)))
    return out


def extract(path, name):
    src = strip(open(path).read())
    args, body = func_body(src, name)
    tr = Tr()
    for a in re.findall(r'(\w+)\s*(?:,|$)', args): tr.v(a)
    ast = P(body).all()
    term = tr.prog([ast], '.done')
    return term, tr

if __name__ == '__main__':
    path = sys.argv[1]
    import os
    print("import ZI.Own\nimport ZI.Detach\nopen ZI.Own\nopen ZI.Own.Prog\nopen ZI.Own.Op")
    for fn in ['_lookup', '_lookupAll', '_subscriptions']:
        print("def dprog_%s : ZI.Detach.Prog := %s" % (fn.strip('_'), extract_detach(path, fn)))
        print("theorem detach_%s : ZI.Detach.check dprog_%s {} = true := by decide" % (fn.strip('_'), fn.strip('_')))
    loops = python_loops(os.path.dirname(path))
    print("def loopModes : List (String × Bool) := [%s]" % ", ".join('("%s", %s)' % (a, "true" if b else "false") for a, b in loops))
    print("theorem loops_snapshot : loopModes.all (·.2) = true ∧ loopModes.length ≥ 3 := by decide")
    fns = sys.argv[2:] or ['_lookup', '_lookupAll', '_subscriptions', '_verify']
    for fn in fns:
        term, tr = extract(path, fn)
        lean = fn.strip('_')
        print("/- %s: vars %s; unknown statements: %s -/" % (fn, tr.vars, tr.unknown))
        print("def prog_%s : Prog := %s" % (lean, term))
        owned_args = [i for n, i in tr.vars.items() if n in ('self', 'required', 'provided', 'name', 'default_')]
        print("def init_%s : AState := fun v => if v ∈ %s then .owned else .unk" % (lean, owned_args))
        if tr.unknown:
            print("-- FAIL-CLOSED: unclassified statements in %s: %r" % (fn, tr.unknown))
            print("theorem own_%s : False := by decide" % lean)
        else:
            print("#eval (\"%s\", check prog_%s init_%s)" % (fn, lean, lean))
            print("theorem own_%s : check prog_%s init_%s = true := by decide" % (lean, lean, lean))
