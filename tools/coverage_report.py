#!/usr/bin/env python3
"""tools/coverage_report.py [Cxx ...] : which statements / branches of the library's Python sources the correspondence streams of the
quick checks execute.  Runs the checks with VERIF_COVERAGE set (the executors then record line + branch coverage of the overlay
copy), combines the data and prints, per file, the lines never executed.  A diagnostic for generator blind spots; not a check."""
import glob
import json
import os
import shutil
import subprocess
import sys
import tempfile

VERIF = os.path.dirname(os.path.dirname(os.path.abspath(__file__)))
props = sys.argv[1:] or ["C%02d" % i for i in range(1, 21)]
d = tempfile.mkdtemp(prefix="zi-cov-", dir="/var/tmp")
ov = os.path.join(d, "ov")
try:
    env = dict(os.environ, VERIF_COVERAGE=d, VERIF_EVIDENCE_DIR=os.path.join(d, "ev"), VERIF_OVERLAY_DIR=ov)
    for p in props:
        r = subprocess.run([os.path.join(VERIF, "check"), p, "--tier", "quick"], capture_output=True, text=True, env=env)
        print(p, (r.stdout.strip().splitlines() or ["?"])[-1][:100], file=sys.stderr)
    # ---- the C twin: gcov over the shared instrumented overlay
    cdir = os.path.join(d, "ov", "zope", "interface")
    notes = (glob.glob(os.path.join(cdir, "*.gcno")) or [cdir])[0]
    g = subprocess.run(["gcov", "-b", "-o", notes, os.path.join(cdir, "_zope_interface_coptimizations.c")], cwd=cdir, capture_output=True, text=True)
    cmiss, ctotal = [], 0
    gc = os.path.join(cdir, "_zope_interface_coptimizations.c.gcov")
    if os.path.exists(gc):
        for l in open(gc, errors="replace"):
            parts = l.split(":", 2)
            if len(parts) < 3:
                continue
            cnt, ln = parts[0].strip(), parts[1].strip()
            if not ln.isdigit() or int(ln) == 0 or cnt == "-":
                continue
            ctotal += 1
            if cnt.startswith("#####") or cnt.startswith("====="):
                cmiss.append(int(ln))
        print("%-28s %4d lines with code, %4d never executed (%.0f%% covered)" % ("_zope_interface_coptimizations.c", ctotal, len(cmiss), 100.0 * (ctotal - len(cmiss)) / max(1, ctotal)))
    else:
        print("gcov produced nothing:", (g.stdout + g.stderr)[-300:], file=sys.stderr)
    import coverage
    files = glob.glob(os.path.join(d, "cov.*"))
    cov = coverage.Coverage(data_file=os.path.join(d, "combined"))
    # the overlays of the individual runs live in different scratch directories: map them all onto /repo's sources
    cov.config.paths = {"src": ["/repo/src/zope/interface", "*/zope/interface"]}
    cov.combine(files, keep=True)
    cov.save()
    data = cov.get_data()
    out = {}
    for f in sorted(data.measured_files()):
        rel = f.split("zope/interface/")[-1]
        try:
            _, stmts, _, missing, _ = cov.analysis2(f)
        except Exception as e:  # noqa
            print("cannot analyse", f, e, file=sys.stderr)
            continue
        out[rel] = dict(statements=len(stmts), missed=len(missing), missing_lines=missing)
        print("%-28s %4d statements, %4d never executed (%.0f%% covered)" % (rel, len(stmts), len(missing), 100.0 * (len(stmts) - len(missing)) / max(1, len(stmts))))
    out["_zope_interface_coptimizations.c"] = dict(statements=ctotal, missed=len(cmiss), missing_lines=cmiss)
    json.dump(out, open(os.path.join(VERIF, "tie-coverage.json"), "w"), indent=1)
finally:
    shutil.rmtree(d, ignore_errors=True)
