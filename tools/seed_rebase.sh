#!/bin/sh
# seed_rebase.sh <id>: (needs a scratch worktree made by tools/mkwt.sh at /tmp/wt-rebase) 3-way apply with union resolution, validate, write /var/tmp/zi-logs/rebased-<id>.diff
id=$1
cd /tmp/wt-rebase
git checkout -q -- src; git reset -q
git apply --3way /verif/seeded/$id/patch.diff >/dev/null 2>&1
for f in $(git diff --name-only --diff-filter=U); do
  python3 - "$f" <<'PY'
import sys,re
p=sys.argv[1]
s=open(p).read()
s=re.sub(r'<<<<<<< ours\n(.*?)=======\n(.*?)>>>>>>> theirs\n', lambda m: m.group(1)+m.group(2), s, flags=re.S)
open(p,'w').write(s)
PY
done
git reset -q
git diff -- src > /var/tmp/zi-logs/rebased-$id.diff
./build.sh 2>/dev/null || { echo "$id BUILD-FAIL"; exit 1; }
mode=$(python3 -c "import json;print(','.join(json.load(open('/verif/seeded/$id/meta.json')).get('demo_fails_in_modes',['c','py'])))")
res=""
for m in c py; do
  if [ $m = py ]; then r=$(PURE_PYTHON=1 PYTHONPATH=$PWD /venv/bin/python /verif/seeded/$id/demo.py >/dev/null 2>&1; echo $?); else r=$(PYTHONPATH=$PWD /venv/bin/python /verif/seeded/$id/demo.py >/dev/null 2>&1; echo $?); fi
  res="$res $m=$r"
done
t=$(./runtests.sh | grep -c '12 failed, 1350 passed, 7 skipped')
echo "$id expected-fail-in=$mode got:$res suite_ok_modes=$t lines=$(wc -l < /var/tmp/zi-logs/rebased-$id.diff)"
git checkout -q -- src
