#!/usr/bin/env python3
"""Python source -> Lean definitions for the small DECISION functions of zope.interface (a second translator next to cextract.py).

Each function below is read from the CURRENT source with `ast`, checked to lie inside a tiny subset (an if / return chain over
comparisons, `and` / `or` / `not`, `len(x[k])`, `x[k]`, `x is y`, string constants, module-level string constants), and
re-emitted as a Lean definition over the hand model's types through an explicit ATOM TABLE (which Python atom stands for which
field of the model's structures).  The obligation `<fn>_src_eq : ∀ args, <fn>_src args = <hand model> args` is then decided by
Lean: the theorems proved about the hand model (C17_incompat_iff, …) therefore hold of what the source says NOW.  Anything outside
the subset fails closed (`theorem <fn>_src_eq : False`)."""
import ast
import os
import sys


class Unsupported(Exception):
    pass


class Fn:
    def __init__(s, pkg, filename, qualname, lean_name, params, ret_type, atoms, consts=None, hand=None, ret=None, proof=None):
        s.proof = proof
        s.path = os.path.join(pkg, filename)
        s.qualname, s.lean_name, s.params, s.ret_type, s.atoms, s.hand = qualname, lean_name, params, ret_type, atoms, hand
        s.consts = consts or {}
        s.ret = ret or (lambda e: e)
        s.tree = ast.parse(open(s.path).read())

    def find(s):
        node = s.tree
        for part in s.qualname.split("."):
            for n in ast.iter_child_nodes(node):
                if isinstance(n, (ast.FunctionDef, ast.ClassDef)) and n.name == part:
                    node = n
                    break
            else:
                raise Unsupported("no %s in %s" % (s.qualname, s.path))
        return node

    def module_const(s, name):
        for n in s.tree.body:
            if isinstance(n, ast.Assign) and len(n.targets) == 1 and isinstance(n.targets[0], ast.Name) and n.targets[0].id == name \
                    and isinstance(n.value, ast.Constant) and isinstance(n.value.value, str):
                return n.value.value
        raise Unsupported("module constant %s" % name)

    # ---- expressions
    def atom(s, e):
        key = ast.unparse(e)
        if key in s.atoms:
            return s.atoms[key]
        raise Unsupported("atom %r is not in the table" % key)

    def num(s, e):
        """an expression denoting a natural number"""
        if isinstance(e, ast.Call) and isinstance(e.func, ast.Name) and e.func.id == "len" and len(e.args) == 1:
            return s.atom(e)
        if isinstance(e, ast.Constant) and isinstance(e.value, int) and e.value >= 0:
            return str(e.value)
        raise Unsupported("number %r" % ast.unparse(e))

    def cond(s, e):
        """an expression in a truth-value position -> Lean Prop"""
        if isinstance(e, ast.BoolOp):
            op = " ∧ " if isinstance(e.op, ast.And) else " ∨ "
            return "(" + op.join(s.cond(v) for v in e.values) + ")"
        if isinstance(e, ast.UnaryOp) and isinstance(e.op, ast.Not):
            return "¬ " + s.cond(e.operand)
        if isinstance(e, ast.Compare) and len(e.ops) == 1:
            op = e.ops[0]
            sym = {ast.Gt: ">", ast.Lt: "<", ast.GtE: "≥", ast.LtE: "≤", ast.Eq: "=", ast.NotEq: "≠"}.get(type(op))
            if sym:
                return "(%s %s %s)" % (s.num(e.left), sym, s.num(e.comparators[0]))
        if isinstance(e, ast.Compare) and len(e.ops) == 1 and isinstance(e.ops[0], ast.Is):
            key = ast.unparse(e)
            if key in s.atoms:
                return "(%s)" % s.atoms[key]
            raise Unsupported("identity test %r" % key)
        # truthiness of a table atom (a *args / **kw name or None, ...)
        return "(%s = true)" % s.atom(e)

    def value(s, e):
        if isinstance(e, ast.Constant) and isinstance(e.value, str):
            return s.ret('"%s"' % e.value.replace("\\", "\\\\").replace('"', '\\"'))
        if isinstance(e, ast.Name) and e.id in s.consts:
            return s.ret(s.consts[e.id])
        if isinstance(e, ast.Name) and e.id.isupper() or (isinstance(e, ast.Name) and e.id.startswith("_MSG")):
            return s.ret('"%s"' % s.module_const(e.id))
        if isinstance(e, ast.Constant) and e.value is None:
            return "none"
        if isinstance(e, ast.Name) and e.id == "NotImplemented":
            return "Option.none"
        if isinstance(e, ast.Constant) and isinstance(e.value, int):
            return s.ret("(%d)" % e.value)
        if isinstance(e, ast.UnaryOp) and isinstance(e.op, ast.USub) and isinstance(e.operand, ast.Constant) and isinstance(e.operand.value, int):
            return s.ret("(-%d)" % e.operand.value)
        # `(a > b) - (a < b)` over two keys: the three-way comparison spelled with booleans
        if isinstance(e, ast.BinOp) and isinstance(e.op, ast.Sub) and all(isinstance(x, ast.Compare) and len(x.ops) == 1 for x in (e.left, e.right)):
            l, r = e.left, e.right
            names = [ast.unparse(x) for x in (l.left, l.comparators[0], r.left, r.comparators[0])]
            if isinstance(l.ops[0], ast.Gt) and isinstance(r.ops[0], ast.Lt) and names[0] == names[2] and names[1] == names[3]:
                a, b = s.atom(l.left), s.atom(l.comparators[0])
                return s.ret("(((if ZI.Order.tupleLt %s %s then 1 else 0) - (if ZI.Order.tupleLt %s %s then 1 else 0) : Int))" % (b, a, a, b))
        raise Unsupported("returned value %r" % ast.unparse(e))

    # ---- statements: an if / return chain; falling off the end returns None
    def block(s, stmts):
        if not stmts:
            return "none"
        st, rest = stmts[0], stmts[1:]
        if isinstance(st, ast.Expr) and isinstance(st.value, ast.Constant):      # docstring
            return s.block(rest)
        if isinstance(st, ast.Return):
            return s.value(st.value) if st.value is not None else "none"
        if isinstance(st, ast.Assign) and len(st.targets) == 1 and isinstance(st.targets[0], ast.Name) and ast.unparse(st.value) in s.atoms:
            # `n1 = (self.__name__, self.__module__)`: a local name for a table atom
            s.atoms[st.targets[0].id] = s.atoms[ast.unparse(st.value)]
            return s.block(rest)
        if isinstance(st, ast.Try) and len(st.body) == 1 and isinstance(st.body[0], ast.Assign) and len(st.handlers) == 1 and not st.orelse and not st.finalbody \
                and isinstance(st.handlers[0].type, ast.Name) and st.handlers[0].type.id == "AttributeError" \
                and len(st.handlers[0].body) == 1 and isinstance(st.handlers[0].body[0], ast.Return):
            # `try: n2 = (other.__name__, other.__module__)  except AttributeError: return X`: the partial atom of the table
            a = st.body[0]
            key = ast.unparse(a.value)
            if len(a.targets) != 1 or not isinstance(a.targets[0], ast.Name) or ("?" + key) not in s.atoms:
                raise Unsupported("try body %r" % ast.unparse(a))
            var = a.targets[0].id
            s.atoms[var] = var
            return "match %s with\n  | Option.none => %s\n  | Option.some %s =>\n  %s" % (s.atoms["?" + key], s.value(st.handlers[0].body[0].value), var, s.block(rest))
        if isinstance(st, ast.If):
            if st.orelse:
                raise Unsupported("else branch at line %d" % st.lineno)
            body = s.block(st.body)
            if not isinstance(st.body[-1], ast.Return):
                raise Unsupported("an if body that does not return at line %d" % st.lineno)
            return "if %s then %s else\n  %s" % (s.cond(st.test), body, s.block(rest))
        raise Unsupported("statement %s at line %d" % (type(st).__name__, st.lineno))

    def emit(s):
        name = s.lean_name
        try:
            fn = s.find()
            got = [a.arg for a in fn.args.args]
            if got != s.params[0]:
                raise Unsupported("parameters %r, expected %r" % (got, s.params[0]))
            body = s.block(fn.body)
            out = ["def %s_src %s : %s :=\n  %s" % (name, s.params[1], s.ret_type, body)]
            proof = s.proof or ("intro %s\n  simp only [%s_src, %s]\n  repeat' split\n  all_goals first | rfl | simp_all | omega" % (s.params[3], name, s.hand))
            out.append("theorem %s_src_eq : ∀ %s, %s_src %s = %s %s := by\n  %s" % (name, s.params[2], name, s.params[3], s.hand, s.params[3], proof))
            return "\n".join(out)
        except Unsupported as e:
            return "-- FAIL-CLOSED: %s: %s\ntheorem %s_src_eq : False := by decide" % (s.qualname, e, name)


def functions(pkg):
    sig = lambda v: {"len(%s['required'])" % v[0]: "%s.req" % v[1], "len(%s['positional'])" % v[0]: "%s.pos" % v[1],
                     "%s['varargs']" % v[0]: "%s.varargs" % v[1], "%s['kwargs']" % v[0]: "%s.kwargs" % v[1]}
    atoms = dict(sig(("required", "iface")), **sig(("implemented", "impl")))
    return [
        Fn(pkg, "verify.py", "_incompat", "incompat", (["required", "implemented"], "(iface impl : ZI.Verify.Sig)", "(iface impl : ZI.Verify.Sig)", "iface impl"),
           "Option String", atoms, hand="ZI.Verify.incompat", ret=lambda e: "some " + e),
        # NameAndModuleComparisonMixin._compare: identity, None, the other operand's key (AttributeError -> NotImplemented), three-way comparison
        Fn(pkg, "interface.py", "NameAndModuleComparisonMixin._compare", "mixinCompare",
           (["self", "other"], "(self other : ZI.Order.Operand) (selfKey : ZI.Order.Key)", "(self other : ZI.Order.Operand) (selfKey : ZI.Order.Key)", "self other selfKey"),
           "Option Int",
           {"other is self": "self.same other = true", "other is None": "other = ZI.Order.Operand.none",
            "(self.__name__, self.__module__)": "selfKey", "?(other.__name__, other.__module__)": "other.key?"},
           hand="ZI.Order.mixinCompare", ret=lambda e: "some " + e,
           proof="intro self other selfKey\n  unfold mixinCompare_src ZI.Order.mixinCompare\n  simp only [ZI.Order.compare3_sub]\n  cases other <;> simp [ZI.Order.Operand.key?]"),
    ]


if __name__ == "__main__":
    pkg = sys.argv[1]
    print("import ZI.VerifyModel\nimport ZI.OrderModel\nimport ZI.OrderOps\nset_option linter.unusedSimpArgs false\nset_option linter.unusedVariables false")
    names = []
    for f in functions(pkg):
        print(f.emit())
        names.append(f.lean_name + "_src_eq")
    print("-- obligations: " + " ".join(names))
