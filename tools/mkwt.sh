#!/bin/sh
# mkwt.sh <dir>: scratch git worktree of /repo at HEAD with a build script and a conftest that makes pytest use it
set -e
WT=$1
git -C /repo worktree add -q --detach "$WT" HEAD
cd "$WT"
cat > conftest.py <<'EOF'
import os, sys
_here = os.path.dirname(os.path.abspath(__file__))
import zope
zope.__path__.insert(0, os.path.join(_here, "src", "zope"))
for _m in [m for m in sys.modules if m.startswith("zope.interface")]:
    del sys.modules[_m]
import zope.interface
assert zope.interface.__file__.startswith(_here), zope.interface.__file__
EOF
cat > usewt.py <<'EOF'
"""`import usewt` FIRST in a demo script (run with cwd = this directory or with it on sys.path) so that
`zope.interface` is imported from this worktree's src/ (not from /repo)."""
import os, sys
_here = os.path.dirname(os.path.abspath(__file__))
import zope
zope.__path__.insert(0, os.path.join(_here, "src", "zope"))
for _m in [m for m in sys.modules if m.startswith("zope.interface")]:
    del sys.modules[_m]
import zope.interface
assert zope.interface.__file__.startswith(_here), zope.interface.__file__
EOF
cat > build.sh <<'EOF'
#!/bin/sh
# rebuilds the C accelerator of THIS worktree in place (needed after editing the .c file, and once initially)
cd "$(dirname "$0")"
INC=$(/venv/bin/python -c "import sysconfig;print(sysconfig.get_paths()['include'])" 2>/dev/null | tail -1)
gcc -shared -fPIC -O2 -w -I$INC src/zope/interface/_zope_interface_coptimizations.c -o src/zope/interface/_zope_interface_coptimizations.cpython-312-x86_64-linux-gnu.so
EOF
cat > runtests.sh <<'EOF'
#!/bin/sh
# runs the project's test suite against THIS worktree (C accelerator, then PURE_PYTHON=1). Baseline on the unchanged
# tree: "12 failed, 1350 passed, 7 skipped" in both modes (the 12 failures need the absent zope.testing and are expected).
cd "$(dirname "$0")"
./build.sh || exit 1
/venv/bin/python -m pytest -q -p no:cacheprovider --timeout=900 --continue-on-collection-errors 2>&1 | tail -3
PURE_PYTHON=1 /venv/bin/python -m pytest -q -p no:cacheprovider --timeout=900 --continue-on-collection-errors 2>&1 | tail -3
EOF
chmod +x build.sh runtests.sh
./build.sh
