#!/usr/bin/env python3
"""Self-validation (not a registered check): applies a mutant to a scratch copy of /repo/src, points the checks at
it with VERIF_REPO, runs the property's check and expects exit 1.

  tools/selftest.py list
  tools/selftest.py run <mutant-id|seeded-id|all> [--tier quick] [--seed N]
  tools/selftest.py clean            # checks must pass on the unmutated copy

Mutants: the nine demonstrated in properties.jsonl (m02 ... m20), reverts of the fix: commits, extras, and every
seeded/<id>/patch.diff."""
import json
import os
import shutil
import subprocess
import sys
import tempfile
import time

VERIF = os.path.dirname(os.path.dirname(os.path.abspath(__file__)))
REPO = "/repo"


def sub(fn, old, new, nth=None):
    return ("sub", fn, old, new, nth)


MUTANTS = {
    "m02": ("C02", [sub("interface.py", "            implied[ancestor] = ()", "            if isinstance(ancestor, InterfaceClass): implied[ancestor] = ()")]),
    "m04": ("C04", [sub("adapter.py", "        for spec in specs[i].__sro__:\n            comps = components_get(spec)\n            if comps:\n                r = _lookup(",
                        "        for spec in (specs[i].__sro__ if i == 0 else reversed(specs[i].__sro__)):\n            comps = components_get(spec)\n            if comps:\n                r = _lookup(")]),
    "m05": ("C05", [sub("adapter.py", "                self._provided[provided] = n\n\n        self.changed(self)\n\n    def rebuild", "                self._provided[provided] = n\n\n    def rebuild")]),
    "m07": ("C07", [sub("adapter.py", "        for spec in reversed(specs[i].__sro__):", "        for spec in specs[i].__sro__:", 1)]),
    "m08": ("C08", [sub("adapter.py", "        for spec in reversed(specs[i].__sro__):", "        for spec in specs[i].__sro__:", 0)]),
    "m09": ("C09", [sub("adapter.py", "if components.get(name) is value:", "if components.get(name) == value:")]),
    "m12": ("C12", [sub("_zope_interface_coptimizations.c", """    result = PyObject_RichCompareBool(self->__name__, othername, Py_EQ);
    if (result == 0) {
        result = PyObject_RichCompareBool(self->__name__, othername, op);
    } else if (result == 1) {
        result = PyObject_RichCompareBool(self->__module__, othermod, op);
    }""", """    result = PyObject_RichCompareBool(self->__module__, othermod, Py_EQ);
    if (result == 0) {
        result = PyObject_RichCompareBool(self->__module__, othermod, op);
    } else if (result == 1) {
        result = PyObject_RichCompareBool(self->__name__, othername, op);
    }""")]),
    "m16": ("C16", [sub("registry.py", "(component != old[0])", "(component is not old[0])")]),
    "m20": ("C20", [sub("declarations.py", "                if i.extends(j, 0)  # non-strict extends", "                if i == j")]),
    # reverts of fix: commits
    "r03": ("C03", [sub("ro.py", "    resolver.mro()\n    return not resolver.had_inconsistency", "    return not resolver.had_inconsistency")]),
    "r01": ("C01", [("revert", "888af04")]), "r13": ("C13", [("revert", "604cba1")]), "r15": ("C15", [("revert", "d0b9d15")]),
    "r18": ("C18", [("revert", "f2168a3")]), "r14": ("C14", [("revert", "001e42e")]), "r10": ("C10", [("revert", "001e42e")]), "r18b": ("C18", [("revert", "612b202")]), "r18c": ("C17", [("revert", "612b202")]), "r16": ("C16", [("revert", "b1af53e")]), "r11py": ("C11", [sub("adapter.py", "        for sub in tuple(self._v_subregistries.keys()):", "        for sub in self._v_subregistries.keys():")]),   # (half of bf116ff: the other half was rewritten by 90f8c8c)
    "r06": ("C06", [("revert", "462a8cb"), ("revert", "dbf66b8")]), "r06c": ("C06", [("revert", "462a8cb")]), "r05": ("C05", [("revert", "f6085d3")]), "r11c": ("C11", [("patchfile", "r11c.diff")]),   # revert of fdd60f1 + eb449ba, kept as a patch (later repairs touch the same function)
    "r06b": ("C05", [("revert", "462a8cb"), ("revert", "dbf66b8")]),
    "r11i": ("C11", [("revert", "fae71fe")]),
    "r11h": ("C11", [("revert", "fdd60f1")]), "r11g": ("C11", [("revert", "ae73461")]), "r11s": ("C11", [("revert", "25fbf79")]),
    "r16n": ("C16", [("revert", "8354e8d")]), "r10c": ("C10", [("revert", "4b277b8")]), "r11d": ("C11", [("revert", "90f8c8c")]), "r16s": ("C16", [("revert", "280bec6"), ("revert", "7054408")]), "r11m": ("C11", [("revert", "6e594b4")]), "r14p": ("C14", [("revert", "83951d8")]), "r11p": ("C11", [("revert", "40c9e7d")]), "r11v": ("C11", [("revert", "05e4a30")]), "r10z": ("C10", [("revert", "7ee6ae2")]),
    "r10h": ("C10", [("revert", "b14eb33")]), "r10e": ("C10", [("revert", "36ebb5d")]), "r18a": ("C18", [("revert", "56c0e04")]), "r17s": ("C17", [("revert", "97705e1")]),
    "r10s": ("C10", [("revert", "d3bd293")]),
    "r02e": ("C02", [("revert", "0ae5b82")]), "r05e": ("C05", [("revert", "0ae5b82")]),
    # extras
    "x17a": ("C17", [sub("verify.py", "        (len(implemented['positional']) < len(required['positional'])) and", "        (len(implemented['positional']) + 1 < len(required['positional'])) and")]),
    "x17b": ("C17", [sub("verify.py", "    if excs:\n        if len(excs) == 1:", "    if excs:\n        if len(excs) <= 2:")]),
    "x17c": ("C17", [sub("verify.py", "        if (not isinstance(desc, Method)) and vtype == 'c':", "        if (not isinstance(desc, Method)):")]),
    "x14a": ("C14", [sub("interface.py", "        for hook in adapter_hooks:", "        for hook in reversed(adapter_hooks):")]),
    "x14b": ("C14", [sub("interface.py", "        if alternate is not _marker:\n            return alternate\n        raise TypeError", "        if alternate is not _marker and alternate is not None:\n            return alternate\n        raise TypeError")]),
    "x12a": ("C12", [sub("interface.py", "        if other is None:\n            return -1", "        if other is None:\n            return 1")]),
    "x03a": ("C03", [sub("ro.py", "        if len(C.__bases__) == 1:\n            self.__mro = [C] + memo[C.__bases__[0]].mro()", "        if len(C.__bases__) == 1:\n            self.__mro = memo[C.__bases__[0]].mro() and [C] + memo[C.__bases__[0]].mro()[::1]")]),
}


HARMLESS = {"x03a"}      # behaviour-preserving rewrites


def make_copy():
    d = tempfile.mkdtemp(prefix="zi-mut-", dir=os.environ.get("TMPDIR") or "/var/tmp")
    shutil.copytree(os.path.join(REPO, "src"), os.path.join(d, "src"), ignore=shutil.ignore_patterns("*.so", "__pycache__"))
    return d


def apply(mid, d):
    if mid in MUTANTS:
        prop, edits = MUTANTS[mid]
        for e in edits:
            if e[0] == "patchfile":
                r = subprocess.run(["patch", "-p1", "-s", "-i", os.path.join(VERIF, "tools", "mutants", e[1])], cwd=d, capture_output=True, text=True)
                assert r.returncode == 0, (mid, r.stdout, r.stderr)
                continue
            if e[0] == "revert":
                diff = subprocess.run(["git", "-C", REPO, "show", e[1]], capture_output=True, text=True).stdout
                r = subprocess.run(["patch", "-R", "-p1", "-s"], input=diff, cwd=d, capture_output=True, text=True)
                assert r.returncode == 0, (mid, r.stdout, r.stderr)
                continue
            _, fn, old, new, nth = e
            p = os.path.join(d, "src", "zope", "interface", fn)
            s = open(p).read()
            assert old in s, (mid, fn, "pattern not found")
            if nth is None:
                s = s.replace(old, new, 1)
            else:
                idx = -1
                for _ in range(nth + 1):
                    idx = s.index(old, idx + 1)
                s = s[:idx] + new + s[idx + len(old):]
            open(p, "w").write(s)
        return [prop]
    sd = os.path.join(VERIF, "seeded", mid)
    meta = json.load(open(os.path.join(sd, "meta.json")))
    r = subprocess.run(["patch", "-p1", "-s", "-i", os.path.join(sd, "patch.diff")], cwd=d, capture_output=True, text=True)
    if r.returncode != 0:
        raise SystemExit("patch failed for %s: %s" % (mid, r.stdout + r.stderr))
    props = meta.get("property")
    return props if isinstance(props, list) else [props]


def run_check(prop, d, tier, seed):
    env = dict(os.environ, VERIF_REPO=d, VERIF_SEED=str(seed), VERIF_EVIDENCE_DIR=os.path.join(d, "evidence"))
    t0 = time.time()
    r = subprocess.run([os.path.join(VERIF, "check"), prop, "--tier", tier], capture_output=True, text=True, env=env)
    lines = [l for l in (r.stdout + r.stderr).splitlines() if l.startswith(("VIOLATION", "OK ", "KNOWN", "  ->"))]
    return r.returncode, lines, time.time() - t0


def all_ids():
    ids = list(MUTANTS)
    sd = os.path.join(VERIF, "seeded")
    if os.path.isdir(sd):
        ids += sorted(x for x in os.listdir(sd) if os.path.exists(os.path.join(sd, x, "patch.diff")))
    return ids


def main():
    a = sys.argv[1:]
    if not a or a[0] == "list":
        print("\n".join(all_ids()))
        return 0
    tier = a[a.index("--tier") + 1] if "--tier" in a else "quick"
    seed = int(a[a.index("--seed") + 1]) if "--seed" in a else 0
    only = a[a.index("--prop") + 1] if "--prop" in a else None
    if a[0] == "clean":
        d = make_copy()
        try:
            rc = 0
            for prop in a[1:] if len(a) > 1 and not a[1].startswith("--") else []:
                c, lines, t = run_check(prop, d, tier, seed)
                print(prop, "rc=%d %.1fs" % (c, t), lines[:2])
                rc |= c
            return rc
        finally:
            shutil.rmtree(d, ignore_errors=True)
    ids = all_ids() if a[1] == "all" else a[1].split(",")
    jobs = int(a[a.index("--jobs") + 1]) if "--jobs" in a else 1
    record = a[a.index("--record") + 1] if "--record" in a else None
    missed, results = [], []

    def one(mid):
        out = []
        d = make_copy()
        try:
            props = apply(mid, d)
            for prop in props:
                if only and prop != only:
                    continue
                if not os.path.exists(os.path.join(VERIF, "harness", "props", prop.lower() + ".py")):
                    out.append((mid, prop, "NO-CHECK", 0.0, []))
                    continue
                c, lines, t = run_check(prop, d, tier, seed)
                if c == 1 and not any(l.startswith("VIOLATION") for l in lines):
                    c = 2
                verdict = "CAUGHT" if c == 1 else ("INFRA" if c == 2 else "MISSED")
                if mid in HARMLESS:
                    # a behaviour-preserving rewrite: the right outcome is NO alarm
                    verdict = "QUIET-AS-EXPECTED" if c == 0 else "FALSE-ALARM"
                out.append((mid, prop, verdict, t, lines))
        finally:
            shutil.rmtree(d, ignore_errors=True)
        return out

    from concurrent.futures import ThreadPoolExecutor
    with ThreadPoolExecutor(max_workers=jobs) as ex:
        for out in ex.map(one, ids):
            for mid, prop, verdict, t, lines in out:
                print("%-8s %s %s %.1fs %s" % (mid, prop, verdict, t, " | ".join(l for l in lines if not l.startswith("  ->"))[:300]), flush=True)
                if verdict not in ("CAUGHT", "QUIET-AS-EXPECTED"):
                    missed.append((mid, prop))
                msgs = [l[5:] for l in lines if l.startswith("  ->")]
                results.append(dict(id=mid, property=prop, verdict=verdict, seed=seed, tier=tier, seconds=round(t, 1),
                                    first_message=(msgs[0][:400] if msgs else ""),
                                    no_failing_input_found=any(l.rstrip().endswith("no-failing-input-found") for l in lines if l.startswith("VIOLATION"))
                                    and not any(l.startswith("VIOLATION") and not l.rstrip().endswith("no-failing-input-found") for l in lines)))
    if record:
        old = []
        if os.path.exists(record):
            old = [r for r in json.load(open(record)) if r["id"] not in {x["id"] for x in results}]
        json.dump(sorted(old + results, key=lambda r: r["id"]), open(record, "w"), indent=1)
    print("missed:", missed)
    return 1 if missed else 0


if __name__ == "__main__":
    sys.exit(main())
