#!/usr/bin/env python3
"""Confirms a seeded change produced in a scratch worktree and imports it under /verif/seeded/<id>/.

  tools/seed_import.py <worktree> <k> <seeded-id>

Confirms, in the scratch worktree itself (never in /repo): with the patch applied the project's suite gives the
baseline numbers in both modes and the demonstration fails (exit 1) in the stated mode(s); with the patch reverted
the demonstration passes (exit 0). Only then copies patch.diff, demo.py, meta.json (+ what was run) to seeded/<id>/."""
import json
import os
import re
import shutil
import subprocess
import sys

VERIF = os.path.dirname(os.path.dirname(os.path.abspath(__file__)))
BASE = "12 failed, 1350 passed, 7 skipped"


def sh(cmd, cwd, env=None):
    e = dict(os.environ)
    e.pop("PURE_PYTHON", None)
    if env:
        e.update(env)
    return subprocess.run(cmd, shell=True, cwd=cwd, capture_output=True, text=True, env=e)


def demo(wt, k, mode):
    env = {"PURE_PYTHON": "1"} if mode == "py" else {}
    env["PYTHONPATH"] = wt
    r = sh("/venv/bin/python out/%s/demo.py" % k, wt, env)
    return r.returncode, (r.stdout + r.stderr)[-600:]


def main():
    wt, k, sid = sys.argv[1:4]
    out = os.path.join(wt, "out", k)
    meta = json.load(open(os.path.join(out, "meta.json")))
    mode = meta.get("mode", "both")
    modes = ["c", "py"] if mode == "both" else [mode]
    log = []
    sh("git checkout -- src && ./build.sh", wt)
    r = sh("git apply out/%s/patch.diff" % k, wt)
    if r.returncode != 0:
        print("patch does not apply:", r.stderr)
        return 1
    t = sh("./runtests.sh", wt)
    sums = re.findall(r"\d+ failed, \d+ passed, \d+ skipped", t.stdout)
    log.append("with change: runtests.sh -> %s" % sums)
    ok = sums == [BASE, BASE]
    failing = {}
    for m in modes:
        rc, tail = demo(wt, k, m)
        failing[m] = rc
        log.append("with change: demo.py mode=%s -> exit %d" % (m, rc))
    # which modes actually fail
    sh("git checkout -- src && ./build.sh", wt)
    passing = {}
    for m in modes:
        rc, tail = demo(wt, k, m)
        passing[m] = rc
        log.append("without change: demo.py mode=%s -> exit %d" % (m, rc))
    fails_in = [m for m in modes if failing[m] == 1 and passing[m] == 0]
    print("\n".join(log))
    if not ok:
        print("REJECTED: suite numbers changed")
        return 1
    if not fails_in:
        print("REJECTED: demonstration does not discriminate")
        return 1
    dst = os.path.join(VERIF, "seeded", sid)
    os.makedirs(dst, exist_ok=True)
    shutil.copy(os.path.join(out, "patch.diff"), dst)
    shutil.copy(os.path.join(out, "demo.py"), dst)
    meta["confirmed_by_builder"] = log
    meta["demo_fails_in_modes"] = fails_in
    meta["how_to_run_demo"] = "in a scratch worktree of /repo with the patch applied: PYTHONPATH=<worktree> [PURE_PYTHON=1] /venv/bin/python demo.py (needs the worktree's usewt.py, see tools/mkwt.sh)"
    json.dump(meta, open(os.path.join(dst, "meta.json"), "w"), indent=1)
    print("imported as", dst, "fails in", fails_in)
    return 0


if __name__ == "__main__":
    sys.exit(main())
