#!/usr/bin/env python3
"""tools/seedtable.py <selftest-results.json> : rewrites the table between the SEEDTABLE markers of DESIGN.md — which check catches
which self-test mutant / seeded change, with a failing input or as a broken obligation / correspondence only."""
import json
import os
import sys

VERIF = os.path.dirname(os.path.dirname(os.path.abspath(__file__)))
res = json.load(open(sys.argv[1]))
rows = {}
for r in res:
    rows.setdefault(r["id"], []).append(r)


def what(i):
    p = os.path.join(VERIF, "seeded", i, "meta.json")
    if os.path.exists(p):
        m = json.load(open(p))
        return (m.get("needs_to_manifest") or m.get("summary") or "")[:110].replace("|", "/").replace("\n", " ")
    return {"m": "demonstrated mutant of properties.jsonl", "r": "revert of a fix: commit", "x": "extra mutant"}.get(i[0], "")


out = ["| id | property | verdict (quick tier, seed 0) | needs, in the author's words |", "|---|---|---|---|"]
tot = caught = 0
for i in sorted(rows, key=lambda k: (k[0] not in "mrx", k)):
    for r in rows[i]:
        tot += 1
        v = r["verdict"]
        if v == "CAUGHT":
            caught += 1
            v = "caught by the %s check%s" % (r["property"], " (obligation / correspondence broken, no failing input found)" if r.get("no_failing_input_found") else ", failing input replayed")
        elif v == "QUIET-AS-EXPECTED":
            caught += 1
            v = "harmless rewrite: no alarm (as it should be)"
        out.append("| %s | %s | %s | %s |" % (i, r["property"], v, what(i)))
out.append("")
out.append("%d of %d detected (quiet on the harmless rewrite included)." % (caught, tot))
p = os.path.join(VERIF, "DESIGN.md")
s = open(p).read()
a, b = "<!-- SEEDTABLE-BEGIN -->", "<!-- SEEDTABLE-END -->"
assert a in s and b in s
s = s[:s.index(a) + len(a)] + "\n" + "\n".join(out) + "\n" + s[s.index(b):]
open(p, "w").write(s)
print("%d/%d" % (caught, tot))
