#!/bin/sh
# runs the repository's pinned test suite (guard off: there are no hooks) and prints the totals
cd /repo && /venv/bin/python -m pytest -ra -q -p no:cacheprovider --timeout=900 --continue-on-collection-errors --junitxml=${1:-/var/tmp/zi-baseline.junit.xml} 2>&1 | tail -3
