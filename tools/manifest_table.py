NOT_YET = {}
add("C03",
    "Theorems C03_valid/C03_eq_c3/C03_ro_eq_c3/C03_strict_iff/C03_consistent_iff over every acyclic ordered DAG, lifted to every "
    "rebasing history (C03_cached_valid, C03_cached_eq_c3); the model (ro.py, _calculate_sro, changed) is compared with the real code "
    "in 3 environments x 2 twins on every run and every answer is judged by CPython's own MRO and a textbook C3.",
    "Guards: G-acyclic, G-nodup for the equality clauses, G-rooted for reading 'no C3 exists' against the mirrored hierarchy.",
    "Lean 4 proof (induction over fuel/rank + history invariant) + differential correspondence + CPython-MRO oracle", "6/C03")
add("C02",
    "Theorems C02_fresh (cached order of every node = the order computed from scratch on the current graph, after ANY well-formed history of creations and "
    "__bases__ reassignments, any dependents iteration order), C02_implied and C02_extends (isOrExtends/extends/__sro__ membership = reachability over current bases or root); "
    "model (Specification.__setBases/subscribe/unsubscribe/changed) compared with the real code on every run; every answer judged by a reachability oracle and against a freshly built graph.",
    "Guards: G-acyclic, duplicate-free base lists in histories (WFOp).",
    "Lean 4 proof (history invariant + 'last visit' propagation argument) + differential correspondence + reachability/fresh-graph oracle", "6/C02")
add("C04",
    "Proved so far: lookupRec_eq_first (the nested _lookup walk over depth-indexed containers = first hit over paths enumerated in lexicographic order of "
    "positions in the resolution orders, then extendors order) — the core of C04_best; the statements C04_sound/complete/best/default over the flat specification are "
    "evaluated by an independent flat-specification oracle on every implementation answer, and the full registry model (repaired code) is compared with both twins every run.",
    "stated_not_proved: C04_best/C04_sound/C04_complete at World level (flat-spec refinement) — the oracle evaluates them; only the nested-walk core is a theorem.",
    "Lean 4 proof (partial: nested-walk core) + differential correspondence + flat-specification oracle", "6/C04")
add("C06",
    "ro = C3 of the current registry base graph: C03_ro_eq_c3/roFull_valid give the order computed by ro.ro(registry); the repaired _setBases / _verify model "
    "(sub-registries re-run _setBases; verifying lookup re-derives ro) is compared with the real code in both flavours and twins, and every `ro` and every answer is judged "
    "against C3 of the *current* base graph by the flat oracle.",
    "stated_not_proved: C06_ro as an invariant over registry histories (the oracle checks it on every observed state).",
    "Lean 4 proof (partial: C3 order of ro.ro) + differential correspondence + flat-specification oracle", "6/C06")
add("C07",
    "find_update/find_remove (container read-after-write laws incl. pruning) proved; subscription multiset, the three ordering clauses and unsubscribe semantics are judged by "
    "the flat oracle on every answer; model compared with both twins.",
    "stated_not_proved: C07_multiset/C07_order as World-level theorems.",
    "Lean 4 proof (partial: container laws) + differential correspondence + flat-specification oracle", "6/C07")
add("C08",
    "get?_fold_reverse (folding dict.update over the reversed enumeration keeps per key the first binding of the forward one — lookupAll vs lookup) and lookupRec_eq_first proved; "
    "every entry point is called cold/warm in random order on both twins and compared with lookup/subscriptions answers and the model.",
    "stated_not_proved: entry-point agreement as theorems over cache states (C05 invariant I1 needed).",
    "Lean 4 proof (partial: list lemma + walk core) + differential correspondence + cross-entry-point oracle", "6/C08")
add("C09",
    "find_update, find_remove, remove_flag (nested containers refine a flat map; pruning loses nothing) proved for all depths/paths; registered/subscribed/allRegistrations/"
    "allSubscriptions, rebuild() and replay clones judged against the flat map after every step; model compared with both twins.",
    "stated_not_proved: C09_refines lifted to the whole Registry state; C09_rebuild.",
    "Lean 4 proof (container refinement laws) + differential correspondence + flat-map oracle", "6/C09")
add("C01",
    "Proved so far: C01_asis_violates / C01_repaired_witness (kernel-checked: the pinned Provides factory loses a declared, non-redundant interface on the "
    "three-step history of the statement, the repaired factory does not) and C02_implied (membership of every cached __sro__ = reachability, which is what "
    "providedBy/implementedBy/flattened read); the declarations model (lazy class specifications, _classImplements_ordered, shared weak Provides cache, "
    "descriptor paths) is compared with both twins on every run and every answer is judged by the sandwich specification (must-report / may-report), the "
    "agreement of the four query forms and independence of unrelated objects.",
    "stated_not_proved: C01_sandwich, C01_exact, C01_independent as invariants over all declaration histories (evaluated by the oracle on every answer).",
    "Lean 4 proof (partial: witness + reachability of cached orders) + differential correspondence + sandwich oracle", "6/C01")
add("C12",
    "Theorems over all name/module strings and all operand identities (Lean's code-point lexicographic String order = Python's str order): C12_eq_iff "
    "(== iff equal (name, module)), C12_hash, C12_trichotomy / C12_lt_irrefl / C12_lt_trans (strict total order), C12_derived (<=, >, >=, != and reflected forms), "
    "C12_none_last (all six operators, both operand orders, interfaces and class specifications), C12_mixed_order + C12_impl_identity (class specifications ordered "
    "with interfaces by the same key, identity equality), C12_twin (IB_richcompare = Python reference on every operand incl. foreign objects), C12_lt_by_key + "
    "C12_sort (what sorted() sees is a function of the keys alone; result is an ordered permutation); C12_defers (against a foreign object without __name__/__module__ "
    "every comparison method of an interface / class specification answers NotImplemented, both twins), C12_reflected (so `a op b` and the mirrored `b op' a` agree "
    "whatever that object's own methods answer), C12_proxy / C12_sentinel (transparent proxies of an interface and constant-answer sentinels such as mock.ANY get the "
    "same answer from both sides); for interfaces the constructor leaves None-named (Element.__init__ files a docless name with a blank as the docstring; mkIface_cases) "
    "C12_anon_order / C12_anon_eq_iff / C12_anon_hash / C12_anon_none_last / C12_sort_anon (pairs (None, module): the modules decide, equal pairs hash equal, before None). "
    "The model of CPython's operator protocol and of both twins is "
    "compared with the real code on every ordered pair x 6 operators + hash relation + sorts, on 2 implementations x 3 PYTHONHASHSEED values, and every answer is "
    "judged against the statement. The model of NameAndModuleComparisonMixin._compare is also REGENERATED from interface.py on every run (tools/pyextract.py) and Lean decides mixinCompare_src_eq (= ZI.Order.mixinCompare for all operands).",
    "Guards: foreign operands have string __name__/__module__ or none at all (the non-string case is the C10 finding); a None-named interface against an operand "
    "with a string name is outside the domain 'all name/module strings' (Python cannot order None and str: TypeError; C answers ==/!= False/True) - those pairs are "
    "executed and counted (pairs_outside_domain_none_vs_str_name, outside_domain_answers_*), not judged; no operand's type subclasses the other's.",
    "Lean 4 proof (order laws + twin equality + sorting) + differential correspondence x hash seeds + statement oracle", "6/C12")
add("C14",
    "Theorems over all __conform__ behaviours, hook lists of any length, alternates and custom __adapt__: C14_order (result AND call log = the declarative "
    "precedence), C14_conform_wins, C14_raise_attr / C14_raise_conform / C14_hooks (exceptions propagate unchanged, nothing later runs, hooks run in list order "
    "up to the first that answers), C14_provided, C14_alternate, C14_custom (interfacemethod __adapt__ replaces provided-check and hooks), C14_registry "
    "(= queryAdapter when the registry hook is installed), C14_twin (IB__call__ = InterfaceBase.__call__). The finite product of input kinds with hook lists up "
    "to length 3 is executed COMPLETELY on both twins every run (result + log compared with the model and judged against the statement; registry clause with a "
    "real AdapterRegistry).",
    "Guards: __conform__ callable with one argument (a TypeError of the call machinery itself is documented as 'no __conform__'); custom __adapt__ only via interfacemethod.",
    "Lean 4 proof (declarative precedence incl. call log, twin equality) + exhaustive finite correspondence + statement oracle", "6/C14")
add("C17",
    "Theorems: C17_incompat_iff (_incompat finds nothing iff EVERY call shape admitted by the interface signature binds to the implementation — all arities, "
    "unbounded surplus positionals, extra keywords), verifyElement_none_iff + C17_verify (success iff declared-or-tentative and every own or inherited member "
    "acceptable, with the class-verification exemptions), C17_errors (single Invalid iff exactly one failure, else MultipleInvalid listing exactly the individual "
    "failures in order). The complete 64x64 signature grid x {function, bound method, class} and random multi-member interfaces are executed on both twins every "
    "run, compared with the model (results, failure lists, messages) and judged by inspect.signature.bind on every admitted shape. The model of verify._incompat is also REGENERATED from verify.py on every run (tools/pyextract.py) and Lean decides incompat_src_eq: the regenerated definition equals the hand model of C17_incompat_iff for all signatures.",
    "Guards: positional / defaulted / *args / **kwargs parameters (the statement's list); required keyword-only parameters of an implementation are outside it.",
    "Lean 4 proof (iff over all call shapes, result/error-list characterisation) + exhaustive grid correspondence + inspect.bind oracle", "6/C17")
add("C18",
    "Theorems over EVERY code object laid out as CPython lays them out (any number of positional-only / positional parameters, defaults, keyword-only "
    "parameters, *args, **kw, locals; any number of dropped leading names): C18_info (fromFunction reports exactly the positional names in order, the required "
    "ones, the defaults of the optional ones, the actual * / ** names or None), C18_method / C18_method_star (a bound method loses exactly its leading self — "
    "and nothing when self is absorbed by *args), C18_string (getSignatureString renders exactly that signature), kernel-checked witnesses that the two earlier "
    "versions violated the statement (C18_pinned_violates, C18_kwonlyFixed_violates). Each run builds the complete product of signature shapes for real, feeds "
    "the REAL code objects' fields to the model, compares description and string on both twins and judges them against inspect.signature; function attributes "
    "must come back as tagged values.",
    "Guards: parameter names distinct (Python enforces it); CPython's co_varnames layout (Layout) is assumed and checked on every generated function through the model.",
    "Lean 4 proof (index arithmetic over the code-object layout) + correspondence on real code objects + inspect.signature oracle", "6/C18")
add("C20",
    "Theorems for declarations built from ARBITRARILY nested arguments over any interface DAG: C20_iter (iteration = ordered first-occurrence dedupe of the "
    "in-place flattening — nested sequences, plain declarations and class specifications included; Nodup; same members), C20_mem, C20_sub (A - B is the sublist "
    "of A of exactly those interfaces that neither are nor extend one of B), C20_add (no duplicates, exact union, A's order kept, shape before ++ (A ++ after), "
    "every element of `before` strictly extends something in A ++ after, no element of `after` strictly extends an element of A). C20_flattened / C20_flattened_c3 "
    "(flattened() = the declaration's resolution order restricted to interfaces: no duplicates, its interfaces plus everything they extend, every interface "
    "before its bases, equal to C3 whenever C3 exists; the order itself is the C03 model, legacy fallback included). The model is compared with both twins on "
    "declarations from random nested trees over interface DAGs with and without C3 orders, the order of flattened() of declarations, class specifications, sums "
    "and differences included; every answer is judged against the statement's laws by an independent oracle; operand purity is checked on the real objects.",
    "Guards: class declarations that are redundant with inherited ones are not generated (C01 allows dropping them, which would make 'declared then inherited' ambiguous); "
    "a declaration that names one base twice (G-nodup, outside textbook C3) has the order of its flattened() judged for validity and against the model only.",
    "Lean 4 proof (ordered-set laws by structural / mutual induction over nested arguments) + differential correspondence + statement oracle", "6/C20")
add("C15",
    "Theorems: C15_agree / C15_present (namesAndDescriptions(all=True) binds every name exactly as get / __getitem__ / queryDescriptionFor: first direct "
    "definition along __iro__; present iff some member defines it), C15_get + get_memoOk + setBases_memoOk (the _v_attrs memo never changes an answer: a consistent "
    "memo stays consistent under get and under re-basing, given that every rewritten order is visited by changed()), C15_tags / C15_tag_first (nearest definition, "
    "union of tags), C15_invariants (every invariant along __iro__ runs in order; all failures collected, first raised), C15_follow (= C02_fresh: the cached __iro__ "
    "after ANY re-basing history is the freshly computed one), C15_pinned_violates (README diamond, kernel-checked). The model with memo is compared with both twins "
    "on re-basing histories with warmed memos; all accessors are cross-checked on the real objects and judged against the statement on an __iro__ computed by "
    "CPython's own MRO from the current bases.",
    "stated_not_proved: the composition of setBases_memoOk's proviso with the Graph2 history invariant (it is the first conjunct of ZI.Prop.prop_spec).",
    "Lean 4 proof (dict-update lemma, memo invariant, C02 history invariant) + differential correspondence + statement oracle on CPython-MRO orders", "6/C15")
add("C13",
    "Theorems: C13_implements (after ANY history of specification-creating and declaration calls — inherited, implementer, classImplementsFirst, the *only* forms, "
    "repeated in any order — the live specification of every class reduces to implementedBy(<that class>), so unpickling returns the identical object), inv_run / "
    "inv_step (the invariant behind it), C13_pinned_violates (kernel-checked: the pinned code reduced *only*-declared classes to implementedBy(None)), "
    "C13_names_only (a reduction can only carry global names and references). The reductions of class specifications and instance declarations are compared with the "
    "model; every round trip (interfaces, class specifications, instance and class provides-declarations, carrying objects, providedBy results, the empty "
    "declaration) is executed under protocols 0-5 on both twins in a generated importable module and judged for identity / same interfaces / equality / absence "
    "of definition text in the pickle bytes.",
    "Guards: G-settled (an instance declaration is pickled while the class declarations it was built against are unchanged: C01 allows a redundant interface to be "
    "dropped when declared, which an unpickled copy built against later class declarations need not reproduce). Known finding classprovides-unpickle-not-equal. "
    "CPython's pickle machinery is modelled, not verified.",
    "Lean 4 proof (history invariant of the pickling state) + reduction correspondence + exhaustive-protocol round-trip oracle", "6/C13")
add("C05",
    "Theorem C05_transparent on the abstract cache machine ZI.Cache (one lookup object: registrations of the whole chain, cached resolution orders, a cache, the "
    "set of specifications it is subscribed to): after ANY well-formed history of chain mutations, re-basings and lookups, a lookup returns exactly what it returns "
    "after the same history with every earlier lookup erased — by the invariant 'every cache entry equals the uncached answer now and all its specifications are "
    "subscribed' (inv_step, inv_run), lookup_transparent, run_reg_sro, wf_erase. The integrated World model (three caches, push and verifying flavours, "
    "declarations, weak tables, super specifications) is compared with both twins on histories interleaving ten mutation kinds with all nine entry points, and the "
    "statement itself is evaluated on the real code: every lookup is also put to a registry chain that received the same mutations and never performed a lookup. "
    "ON THE VALIDATED REGISTRY MODEL ITSELF (ZI.Registry, the executable compared with adapter.py every run; notifying flavour, static specification graph): "
    "C05_registry_cacheOk (after ANY history of registry creations, __bases__ reassignments at any level, rebuild(), register / unregister / subscribe / "
    "unsubscribe and lookups, every entry of each of the three caches of every registry equals the uncached answer on the current state), "
    "C05_registry_transparent_lookup / _lookupAll / _subscriptions (a lookup answers exactly the uncached computation) and C05_registry_erase (the answer after a "
    "history = the answer after the same history with every lookup erased; well-formedness of the erased history is proved, not assumed). The same for the "
    "generation-checking flavour (ZI/Props/C05Ver.lean): C05_verifying_invariant (generations only grow; a registry whose generation snapshot is current has a fresh "
    "`ro` and correct caches), C05_verifying_transparent_* (a lookup answers the uncached walk on the state after `_verify`), C05_verifying_spec (= a specification "
    "walk that reads no cache, `ro` or snapshot field at all), C05_verifying_erase.",
    "stated_not_proved: refinement World -> ZI.Cache for specification-graph changes (dynamic graph, weak tables): there the abstract machine carries the theorem. "
    "Guard G-provided (the __iro__ of an interface currently used as *provided* is not changed: the code documents the missing invalidation as a TODO and the "
    "statement speaks of required specifications).",
    "Lean 4 proof (cache invariant over histories on an abstract machine) + differential correspondence of the integrated model + never-queried-twin oracle on the real code", "6/C05")
add("C19",
    "Theorems C19_mro_remainder (for every duplicate-free MRO containing C, the classes whose specifications super(C, ob)'s specification is built from are exactly "
    "those strictly after C — never C, never an earlier class), C19_cache_hit_same (a live per-class cache entry returns the same specification object), "
    "C03_ro_eq_c3 (the model's MRO is C3, tied to real __mro__ by the correspondence). The integrated World model (superSpec, its cache dropped by "
    "Implements.changed, registrations keyed on proxy specifications, adaptation passing ob itself) is compared with both twins on class DAGs with diamonds and "
    "mixins and declaration histories before and after the first super query; every query involving a proxy is judged on the real objects against the union of "
    "implementedBy(D) for D after C in type(ob).__mro__.",
    "stated_not_proved: C19_super / C19_stable as invariants over all World histories.",
    "Lean 4 proof (MRO-remainder lemma, cache hit) + differential correspondence of the integrated model + MRO-remainder oracle on the real objects", "6/C19")
add("C16",
    "Theorems over ALL histories of the eight register/unregister methods interleaved with queries, pickle re-loads and re-initialisations (ZI/Props/C16Hist.lean, on "
    "ZI.Components = the executable the correspondence runs): inv_step / inv_run (a nine-clause invariant is kept by every call), C16_queries (the utility registry's "
    "registrations are exactly the utility listing, the adapter registry's exactly the adapter listing — the same objects —, the subscription leaves exactly the "
    "subscription-adapter / handler listings filtered by key IN LISTING ORDER), C16_counts (the {provided: {component: count}} cache = listing entries per (provided, "
    "component under ==)), C16_all_utilities (getAllUtilitiesRegisteredFor's leaf holds each listed component once per equality class), C16_probe "
    "(rebuildUtilityRegistryFromLocalCache finds nothing to repair: probe = (0, 0) in every reachable state), C16_no_TypeError; mixed_hashability_breaks is the "
    "kernel-checked witness that the guard is necessary. Per call, in any state (ZI/Props/C16.lean): C16_unregisterUtility, C16_registerUtility_events (a replacement emits "
    "Unregistered then Registered, a no-op nothing), C16_adapters, C16_subscriptions (one event per call that changed something, unregister returns whether anything "
    "was removed), C16_pinned_violates. The model is compared with both twins after every call, and return values, events, the four listings, utility / adapter / "
    "subscription queries and the probe are judged against listings kept by the harness. Histories include calls made by an event subscriber from inside the "
    "delivery of a Registered / Unregistered event (the executor makes the next call of the history there): every event is sent when its call has finished "
    "writing, so such a call composes like a following one; the one event sent mid-call (Unregistered of a replaced utility) composes as old-out / subscriber's "
    "call / registration (repair 7054408).",
    "Guard HashClass (hashability is a function of the equality class; outside it the real code double-subscribes: known finding "
    "utilities-mixed-hashability-double-subscription, judged by the oracle only). Lookups are functions of the leaves by C04 / C07 (static specification graph). "
    "Events of the six non-utility methods follow interfaces.py ('an event is generated' per call).",
    "Lean 4 proof (invariant over all histories of the eight methods; per-call return values / events) + differential correspondence + listing oracle", "6/C16")
add("C10",
    "PARTIAL. Proved: the twin theorems C12_twin / c_eq_py (IB_richcompare = the Python comparison for all six operators and all operands with string names) and "
    "C14_twin / callC_eq_callPy (IB__call__ / IB__adapt__ incl. the _CALL_CUSTOM_ADAPT dispatch = InterfaceBase.__call__), ZI.LookupTwin lookup_twin / lookup1_twin / "
    "adapterHook_twin / verifying_twin (the C composition _adapter_hook -> _lookup1(default None) -> _lookup and the VB_* wrappers = the Python LookupBase / VerifyingBase "
    "methods: answers, ValueError for non-string names on every path, and the cache left behind; run in lock step with the registry model by the driver) — the C decision logic is modelled "
    "separately from the Python one and proved equal for ALL inputs. Every other check ties each twin to its own implementation mode. This check compares the two "
    "implementations DIRECTLY on the operation streams of eight layers and on seeded odd-input API programs (results, exception types, subsequent behaviour).",
    "stated_not_proved: equality of the remaining twin pairs (SB_extends, providedBy / implementedBy fast paths, descriptors, LookupBase / VerifyingBase) — covered by "
    "differential execution only; nothing about the C code's conformance to its modelled logic or about memory (C11) is a theorem. Known findings "
    "eq-foreign-nonstr-name and garbage-provides-exception-type. Old-style `__implemented__ = ...` assignments and arguments of the wrong kind (a non-interface as "
    "`provided`, a list as lookup1's single `required`) are outside the generated programs.",
    "Lean 4 proof (partial: twin equalities for comparison and adaptation) + direct C-vs-Python differential execution on all layers + odd-input programs", "6/C10")
add("C11",
    "PARTIAL. Proved: ZI.Own.check_sound (a lookup function accepted by the ownership check never reads or writes through a pointer to a freed object, for EVERY "
    "behaviour of the environment at every callback point — other threads under the GIL or re-entrant code may clear and refill every cache field); "
    "ZI.Own.C11_balanced / checkL_balanced (ZI/OwnLeak.lean: along EVERY execution path of an accepted function, references acquired minus references released "
    "equals what is handed to the caller — nothing is leaked on any error branch, nothing released twice, the caller's references are never released, what is "
    "returned is a new reference; checkL_imp_check: the ledger check implies the memory-safety check); ZI.Detach.check_sound (no answer older than the live cache "
    "is ever stored into it, whatever invalidations happen during callbacks); ZI.Mutator.wipes_sound (no lookup running at a hook of a mutator leaves an answer "
    "that the rest of the mutator outdates); ZI.Resub.check_sound / cached_is_subscribed (AdapterLookupBase.changed() interrupted by lookups at its cache-drop "
    "point, where destructors of cached values run: whatever is cached for a required specification afterwards is subscribed to it, for every accepted step "
    "order; old_order_rejected: the order before repair 90f8c8c is rejected with its reachable bad state). The IR terms of _subcache, _getcache, _lookup, _lookup1, _lookupAll, _subscriptions, _verify, the iteration mode of the "
    "loops run by changed(), the step sequence of AdapterLookupBase.changed and the step IR of the twelve registry mutators are REGENERATED from the current C / Python sources on every run (tools/cextract.py, "
    "fails closed) and Lean decides the thirteen obligations. Runtime tie: twenty-two re-entrancy scenario families x two flavours x up to seven entry points x both "
    "twins on the real code (stray write via the dict free list, stale answer, ancestor re-based in flight, leaks, lazy required, mutating __providedBy__, "
    "Python-level __hash__ / __bool__ of the keys, generation reads and generation comparisons (__eq__), destructors of cached values (answers, leaks), change notifications, a required interface re-based mid-walk, storage hooks mid-walk, mutators interrupted at every storage access); thorough adds a thread stress.",
    "stated_not_proved: C11_atomic at step granularity. Not modelled: preemption inside Python bytecode of the pure-Python twin finer than callbacks, free-threaded "
    "builds, allocator behaviour beyond the dict free list. _adapter_hook is not translated (covered by the scenarios). The translator's table of which C-API calls "
    "return borrowed / new references and which may run Python code is trusted (dictionary probes, PyObject_IsTrue and rich comparisons ARE callback points since "
    "the repair of fdd60f1).",
    "Lean 4 proof (soundness of three static checks: ownership, reference ledger, detachment; mutator wipes) + translation of the C / Python sources into the checked IRs each run + re-entrancy injection on the real code", "6/C11",
    engine="lean4+translation")
# --- entries revised after the walk theorems were re-proved on the registry model that the correspondence validates
add("C04",
    "Theorems on the registry model that is compared with the real code every run (ZI.Registry.lookupRec over depth-indexed containers, uncachedLookup over "
    "`ro`): lookupRec_eq_first (the nested _lookup walk with its `if comps:` short-cuts = first hit over the applicable paths enumerated in lexicographic order of "
    "positions in the resolution orders, then the extendors order), mem_rpaths (a path is applicable iff every required key is in the __sro__ of the corresponding "
    "looked-up specification and the provided key is an extendor), C04_sound, C04_complete (default iff nothing applicable), C04_best (every path before the "
    "winner has nothing under the name), rpaths_first_position (the enumeration IS lexicographic), C04_chain (first registry of `ro` with an answer wins). Every "
    "implementation answer is also judged by an independent flat-specification oracle. Over ALL histories of the registry operations, no guard "
    "(ZI/Props/C04Ext.lean): C04_extInv, C04_extendors_content / _nodup / _order (the _extendors table lists exactly the provided interfaces with a count, under "
    "every interface of their __iro__, most general first), C04_most_general(_lex/_lookup), C04_guard, C04_lookup_complete, C04_count_ge. "
    "relookup_tabOk / relookup_tabOk_verifying (C04Relookup.lean): the table a RE-CREATED lookup object builds with init_extendors for a registry that already "
    "holds registrations (unpickling a persistent registry) satisfies the same invariant, the registration data untouched.",
    "The lift through the cache is C05. None keys are registered as Interface (convNone), which C03_valid puts in every __sro__. `relookup` is an operation of the "
    "registry driver and of the correspondence, not yet an Op of the history theorems.",
    "Lean 4 proof (nested walk = lexicographic argmin over applicable paths, chain order) + differential correspondence + flat-specification oracle", "6/C04")
add("C07",
    "Theorems on the validated registry model: subsRec_eq_concat / C07_multiset (the _subscriptions walk returns exactly the concatenation of the leaf lists — each "
    "in subscription order, nothing dropped or duplicated — over the applicable paths in REVERSED lexicographic order), C07_order_first_position (everything reached "
    "through a later element of the first __sro__ precedes everything reached through an earlier one: less specific first), find_update / find_remove (what "
    "subscribe / unsubscribe do to the containers). The multiset, the three ordering clauses and unsubscribe semantics are judged by the flat oracle on every "
    "answer; a world stream re-checks subscriptions() / subscribers() against a never-queried twin after declaration and hierarchy changes.",
    "stated_not_proved: order across the registries of `ro` (base registries first) and C07_unsubscribe at World level — evaluated by the oracle.",
    "Lean 4 proof (walk = ordered concatenation over applicable paths) + differential correspondence + flat oracle + never-queried-twin stream", "6/C07")
add("C08",
    "Theorems on the validated registry model: lookupAllRec_get / C08_lookupAll (for every name, what the reversed _lookupAll walk with dict.update binds it to is "
    "exactly what the forward _lookup walk returns for that name; a name is absent exactly when lookup returns the default), with get?_foldl_set and "
    "foldl_reverse_overlay (folding overlays over a reversed enumeration lets the FIRST forward binding win). lookup1 / queryAdapter / adapter_hook / "
    "queryMultiAdapter / names / subscribers are defined in the model through lookup / lookupAll / subscriptions and are called cold and warm in random order on "
    "both twins, compared with the model and cross-checked against each other. C08_registry_lookupAll_agrees: in EVERY state reachable by a history of registry "
    "operations and lookups (any cache state, any chain of registries, notifying flavour) `dict(lookupAll(req, p)).get(name)` is exactly `lookup(req, p, name)` — "
    "uncachedLookupAll_get lifts the per-registry statement along `ro` (first registry with an answer wins), the leaves invariant (every name bound once) is "
    "carried over histories with no guard, and the C05 cache invariant removes the caches.",
    "C08_verifying_lookupAll_agrees: the same for the generation-checking flavour. "
    "The object-level entry points (queryAdapter, adapter_hook, queryMultiAdapter, subscribers) are defined in the model through lookup / lookupAll / subscriptions.",
    "stated_not_proved: nothing at registry level; the C entry points' own copies of the cache logic are tied by the correspondence (every entry point cold and warm).",
    "Lean 4 proof (lookupAll = name-indexed family of lookup answers) + differential correspondence + cross-entry-point oracle", "6/C08")
add("C09",
    "Theorems on the nested containers of the registry model that is compared with the real code (ZI.Registry.Level, Level.update = the create-and-descend walk "
    "of register / subscribe, Level.remove = the walk of unregister / unsubscribe with pruning): find_update (after an update only the addressed path changes; a "
    "missing leaf counts as empty), find_remove (the addressed leaf becomes f a or disappears if that is empty; every other path is unchanged — pruning an "
    "emptied container never loses a sibling), remove_flag (a container reported emptied has no children), for all depths and paths; kget_set / kget_erase for "
    "the association lists. registered / subscribed / allRegistrations / allSubscriptions, rebuild() and replay clones are judged against a flat map after every "
    "step; the model is compared with both twins.",
    "stated_not_proved: C09_refines lifted to the whole registry state (provided counts, extendors) and C09_rebuild — evaluated by the oracle.",
    "Lean 4 proof (nested containers refine a flat map, for the model's own container type) + differential correspondence + flat-map oracle", "6/C09")
add("C15",
    "Theorems: C15_get_history (after ANY well-formed history of interface creations, __bases__ reassignments and lookups that fill the _v_attrs memo, I.get(name) — "
    "hence I[name], `name in I`, queryDescriptionFor — answers 'the description of the first interface along the current __iro__ that defines the name': invariant "
    "WInv = C02's graph invariant + a consistent memo, preserved by every operation via step_untouched — what changed() does not visit keeps its cached order — and "
    "sroFresh_congr), C15_agree / C15_present (namesAndDescriptions(all=True) binds every name exactly as get does; present iff some member of __iro__ defines it), "
    "C15_tags / C15_tag_first, C15_invariants (every invariant along __iro__ runs in order; all failures collected, first raised), C15_follow (= C02_fresh), "
    "C15_pinned_violates (README diamond, kernel-checked); setTaggedValue on a LIVE interface (model op setTag, stream op settag): C15_settag_listed / C15_settag_resolves "
    "(every interface with the tagged one in its __iro__ lists and resolves the new tag at once, in every state; C15_settag_history: after ANY history that interleaves setTaggedValue calls with creations, re-basings and lookups — WOp.setTag is an operation of C15_get_history), C15_settag_other / C15_settag_unrelated / setTag_get. "
    "The model with memo is compared with both twins on re-basing histories with warmed memos; all accessors "
    "are cross-checked on the real objects and judged against the statement on an __iro__ computed by CPython's own MRO from the current bases.",
    "Guards: G-acyclic, duplicate-free base lists, the root interface is never re-based.",
    "Lean 4 proof (history invariant composing the memo invariant with C02's, dict-update lemma) + differential correspondence + statement oracle on CPython-MRO orders", "6/C15")

add("C06",
    "Theorem C06_ro (ZI/Props/C06.lean), on the registry model the correspondence validates: after ANY history of registry creations, __bases__ reassignments at any "
    "level of the chain, rebuild(), register / unregister / subscribe / unsubscribe and lookups that keeps the base graph acyclic, every existing AdapterRegistry's `ro` "
    "is exactly ro.ro of the CURRENT base graph (run_inv: invariant = ro fresh + the sub-registry table covers every base link; setBases_inv: the cascade into "
    "sub-registries refreshes every descendant — push_reaches — and nothing else can be stale — roFull_congr); C03_ro_eq_c3 / roFull_valid relate that order to C3. "
    "The model (both flavours) is compared with both twins on every run, including a world stream with specification changes between a re-basing and the next lookup, "
    "and every `ro` and answer is judged against C3 of the current base graph.",
    "stated_not_proved: the generation-checking flavour's snapshot argument (VerifyingAdapterRegistry); for it verifyingChanged_fresh is proved and the oracle judges every observed state. "
    "Guard: G-acyclic with the size bound the model's recursion fuel stands for (WF).",
    "Lean 4 proof (history invariant, cascade reachability) + differential correspondence + flat-specification oracle + never-queried-twin stream", "6/C06")

add("C01",
    "Theorems over ALL declaration histories (ZI/Props/C01Hist.lean, on ZI.Classes2 = the declarations model on the proved graph model): C01_exact — after any "
    "well-formed history of interface / class / instance creations, classImplements / classImplementsOnly / classImplementsFirst / directlyProvides / "
    "alsoProvides / noLongerProvides calls and queries, in any order, `I in implementedBy(cls).__sro__` holds exactly when I is in Impl(cls) and "
    "`I in providedBy(ob).__sro__` exactly when I is in Prov(ob), where Impl / Prov are the statement's own set-level recursion over an abstract state that has "
    "no graph, no specification objects and no caches (declared on the class and not redundant when declared, inherited from the bases unless an *only* form cut "
    "the inheritance, declared on the object, closed upwards under extension); proved by a simulation (sim_step / sim_run: every class-level call is a sequence of "
    "graph operations that keep C02's invariant; class specifications and instance declarations have exactly the base lists the abstract state prescribes; the "
    "shared weak Provides cache only returns declarations whose bases are the fresh ones) and C02's reachability theorem. C01_sandwich (+ _upper / _lower / "
    "C01_kept_persists): everything reported was named or inherited, and everything named that was not redundant at the moment of the call is reported for as "
    "long as the object is not re-declared. C01_independent / C01_independent_real: a declaration on one object changes no other instance's answer and no class's; "
    "a class declaration changes only classes that still inherit from it. C01_noLonger_error (ValueError iff still provided). Kernel-checked witnesses that the "
    "pinned factory violated the statement and the repaired one does not. ZI.Classes (the executable compared with both twins on every run) and ZI.Classes2 run in "
    "lock step in the driver together with the abstract state: any disagreement between the two models, or between the abstract answer and the model on a history "
    "inside the theorem's guards, is printed on that line and breaks the correspondence; the evidence reports how many generated operations lie inside the guards. "
    "Every implementation answer is also judged by the sandwich oracle, the agreement of the four query forms and independence of unrelated objects.",
    "Guards of C01_exact (decided per operation by the driver with the theorem's own predicate): created things are new, referenced things exist, base lists and the "
    "argument lists of direct declarations are duplicate-free (G-nodup, inherited from C02's WFOp; histories outside it are judged by the oracle only), interfaces "
    "are not re-based (C02 covers that), recursion fuel >= number of classes. Only the repaired factory is covered by the history theorems.",
    "Lean 4 proof (simulation of an abstract set-level specification over all histories) + differential correspondence of two lock-step models + sandwich oracle", "6/C01")
add("C04",
    "Theorems on the registry model that is compared with the real code every run (ZI.Registry.lookupRec over depth-indexed containers, uncachedLookup over "
    "`ro`): lookupRec_eq_first (the nested _lookup walk with its `if comps:` short-cuts = first hit over the applicable paths enumerated in lexicographic order of "
    "positions in the resolution orders, then the extendors order), mem_rpaths, C04_sound, C04_complete (default iff nothing applicable), C04_best (every path before "
    "the winner has nothing under the name), rpaths_first_position, C04_chain (first registry of `ro` with an answer wins). ZI/Props/C04Ext.lean, over ALL histories "
    "of the ten registry operations, no guard: C04_extInv / C04_extendors_content (`_extendors[i]` lists exactly the provided interfaces with a live `_provided` "
    "count that extend i), C04_provided_count_ne_zero, C04_count_ge + registered_live / subscribed_live (every stored adapter / subscriber is counted, so the "
    "KeyError / negative-count branches are unreachable and nothing stored can be missing from the extendors), C04_extendors_nodup, C04_extendors_order (nothing is "
    "listed before an interface it strictly extends: add_extendor's insertion keeps the list most-general-first; needs only transitivity and antisymmetry of "
    "extension, each shown necessary by a kernel-checked counterexample), C04_most_general / C04_most_general_lex / C04_most_general_lookup (the answer of an "
    "uncached lookup comes from the first registry of `ro` that answers; inside it the required components are ordered first and, among the live provided "
    "interfaces that bind the name under the winning required path, the winner strictly extends none — the most general wins among comparable ones), C04_guard, "
    "C04_lookup_complete (a stored applicable adapter is never missed by the extendors short-cut). With C05_registry_transparent_lookup the cached lookup equals "
    "the uncached one in every reachable state. relookup_tabOk / relookup_tabOk_verifying (C04Relookup.lean): the table a RE-CREATED lookup object builds with "
    "init_extendors for a registry that already holds registrations (unpickling a persistent registry; `relookup` in the driver and the correspondence) satisfies "
    "the same invariant, the registration data untouched. Every implementation answer is also judged by an independent flat-specification oracle.",
    "Note: `_provided` counts registrations made, not entries stored (re-registering another value under a live key adds to the count without adding an entry, as in "
    "the code), so 'live' in these theorems is the code's own notion. None keys are registered as Interface (convNone), which C03_valid puts in every __sro__. The "
    "specification graph is static in the registry model; changes of it are covered by C05's abstract machine and the world correspondence.",
    "Lean 4 proof (nested walk = lexicographic argmin, extendors invariant over all histories, most-general-first) + differential correspondence + flat-specification oracle", "6/C04")

add("C09",
    "Theorems on the registry model that is compared with the real code (ZI/Props/C09.lean, ZI/Props/C09Reg.lean). Containers: find_update / find_remove / "
    "remove_flag (after an update only the addressed path changes; the addressed leaf becomes f a or disappears if that is empty; pruning an emptied container never "
    "loses a sibling), for all depths and paths. WHOLE REGISTRY, no hypothesis on the world: registered_register (after register() the addressed key reads the new "
    "value — the old one if the identical object was already there, a no-op — and every other key of every registry, arity, path and name is unchanged), "
    "registered_unregister (removes the entry only if that very object is registered or no value is given; everything else unchanged), subsFind_subscribe / "
    "subsLeaf_unsubscribe / subsFind_unsubscribe_other (the addressed subscriber list grows by the subscriber at the end / loses every entry equal to the given one / "
    "is emptied; every other list is literally unchanged), subscribed_eq, changed_sameData (change notification, of either flavour and any cascade depth, touches no "
    "registration data). OVER ALL HISTORIES of the ten registry operations: C09_pruned (no empty leaf or container is ever left), C09_provided_le (unique keys "
    "everywhere; every stored entry is counted in _provided; no stored count is 0), C09_provided (the counts are exact when no register() replaces a different "
    "object under an occupied key; provided_leak is the kernel-checked witness that such a replacement over-counts, as the code does — harmless, see C04). "
    "ENUMERATIONS: qsort_perm (Array.qsort is a permutation, proved from its workers), mem_allRegistrations_iff / allRegistrations_registered (allRegistrations() "
    "lists exactly the bindings registered() returns), allSubscriptions_leaf / count_allSubscriptions (allSubscriptions() restricted to a key is exactly that "
    "subscriber list, order and multiplicity included). REBUILD: C09_rebuild (in every reachable world rebuild() changes no answer of registered(), no subscriber "
    "list, and no other registry). CLONES: C09_clone (ZI/Props/C09Clone.lean: in every reachable world, replaying allRegistrations() and allSubscriptions() of a "
    "registry into an EMPTY registry gives the same registered() answers and the same subscriber lists — order and multiplicity — and touches no other registry; "
    "cloneInto_unfold: it is literally the driver's clone operation). The model is compared with both twins; registered / subscribed / allRegistrations / "
    "allSubscriptions, rebuild() and replay clones are judged against a flat map after every step.",
    "The specification graph is static in this model.",
    "Lean 4 proof (nested containers refine a flat map, whole-registry read-after-write laws, history invariants, enumerations, rebuild) + differential correspondence + flat-map oracle", "6/C09")

add("C06",
    "Theorems on the registry model the correspondence validates, BOTH flavours. Notifying AdapterRegistry (ZI/Props/C06.lean): C06_ro — after ANY history of "
    "registry creations, __bases__ reassignments at any level of the chain, rebuild(), register / unregister / subscribe / unsubscribe and lookups that keeps the base "
    "graph acyclic, every existing registry's `ro` is exactly ro.ro of the CURRENT base graph (run_inv: ro fresh + the sub-registry table covers every base link; "
    "setBases_inv: the cascade into sub-registries refreshes every descendant — push_reaches — and nothing else can be stale — roFull_congr). Generation-checking "
    "VerifyingAdapterRegistry (ZI/Props/C05Ver.lean): C06_ro_verifying — after the `_verify` step that every lookup entry point performs first, the registry's `ro` is "
    "ro.ro of the current base graph (invariant C05_verifying_invariant: generations only grow, every snapshot entry is <= the current generation, and a registry whose "
    "snapshot is still current has a fresh `ro`, verifyRo = ro[1:] and correct caches — a mutation or re-basing anywhere above bumps a generation in the snapshot); "
    "roFull_regs_length (the fuel `len(registries)+1` the model uses inside changed() is enough). C05_verifying_uncached_spec / C05_registry_transparent_*: the walk "
    "that answers a lookup runs over that `ro` with the current registration data; C04_chain / C04_most_general_lookup: the first registry of `ro` that answers wins; "
    "C03_ro_eq_c3 / roFull_valid relate `ro` to C3. The model (both flavours) is compared with both twins on every run — layered registry DAGs with diamonds, the `ro` of "
    "every descendant after every re-basing, a world stream with specification changes between a re-basing and the next lookup — and every `ro` and answer is judged "
    "against C3 of the current base graph.",
    "Guards: G-acyclic with the size bound the model's recursion fuel stands for; a new registry is new (each shown necessary by a kernel-checked counterexample). The "
    "specification graph is static in the registry model.",
    "Lean 4 proof (history invariants of both flavours: cascade reachability / generation snapshots) + differential correspondence + flat-specification oracle + never-queried-twin stream", "6/C06")

add("C10",
    "PARTIAL. Proved: twin theorems — the C decision logic is modelled separately from the Python one, statement by statement, and proved equal: C12_twin / c_eq_py "
    "(IB_richcompare = the Python comparison, all six operators, all operands with string names), C14_twin / callC_eq_callPy (IB__call__ / IB__adapt__ incl. the "
    "_CALL_CUSTOM_ADAPT dispatch = InterfaceBase.__call__), and (ZI/SpecTwin.lean, ZI/Props/C10.lean) C10_providedBy_twin, C10_getObjectSpecification_twin, "
    "C10_implementedBy_twin, C10_sbProvidedBy_twin: providedBy / getObjectSpecification / implementedBy (C fast path in front of the Python function) return the same "
    "object or raise the same kind of exception at the same probe on EVERY view of the queried object — every outcome (value, AttributeError, another exception) of "
    "every attribute probe the code performs (__providedBy__, its `extends`, __provides__, __class__, the class's __provides__, __dict__, __implemented__, the builtin "
    "table). C10_providedBy_twin_pinned / C10_providedBy_pinned_diverges: the pinned C providedBy agreed only when __class__ was available and no probe raised anything "
    "but AttributeError; the two divergences were replayed on the real code and repaired (/repo d3bd293). Tie of these twins: the `spectwin` stream builds REAL objects "
    "of every shape the code distinguishes (product of storage kind x __providedBy__ kind x __provides__ kind x class __provides__ kind x __class__ availability x "
    "direct declaration; classes of every declaration style, builtins, super proxies, callables), probes their view with plain getattr, and requires each "
    "implementation to answer as its own twin model. Every other check ties each twin to its own implementation mode. This check also compares the two "
    "implementations DIRECTLY on the operation streams of eight layers, on the spectwin objects and on seeded odd-input API programs (results, exception types, "
    "subsequent behaviour)."
    " ZI.LookupTwin: lookup_twin / lookup1_twin / adapterHook_twin / verifying_twin (the C composition _adapter_hook -> _lookup1 -> _lookup and the VB_* wrappers = the "
    "Python LookupBase / VerifyingBase methods: answers, ValueError for a non-string name on every path, cache left behind), lazy_twin / lazy_nonstring_untouched / "
    "lazy_fresh (a lazy `required` whose iteration mutates the registry: both twins resolve it before they fetch the cache — repair /repo 7ee6ae2 — and answer the state "
    "after the mutation), all_twin / all_fresh / all_idem (lookupAll / subscriptions), old_order_stale / all_old_order_stale (kernel-checked: the cache-first order of the "
    "Python reference before the repair answers the replaced factory).",
    "stated_not_proved: equality of the remaining twin pairs (the specification descriptors' __get__, the multi-object entry points queryMultiAdapter / subscribers) — covered by "
    "differential execution only; nothing about the C code's conformance to its modelled logic beyond the correspondence, or about memory (C11), is a theorem. Known "
    "findings eq-foreign-nonstr-name and garbage-provides-exception-type. Old-style `__implemented__ = ...` assignments and arguments of the wrong kind (a non-interface "
    "as `provided`, a list as lookup1's single `required`) are outside the generated programs.",
    "Lean 4 proof (partial: twin equalities for comparison, adaptation and the declaration queries) + view-probing correspondence on real objects + direct C-vs-Python differential execution", "6/C10")

add("C07",
    "Theorems on the validated registry model (ZI/Props/C07.lean, C07Hist.lean). Walk: subsRec_eq_concat / C07_multiset (the _subscriptions walk returns exactly the "
    "concatenation of the leaf lists — each in subscription order, nothing dropped or duplicated — over the applicable paths in REVERSED lexicographic order). IN EVERY "
    "WORLD (no hypothesis, both flavours): C07_chain (the answer is the concatenation over `ro` reversed: base registries first), C07_flat / C07_regSubs_flat (expressed "
    "through the flat view of the registrations, not the nested containers), C07_count (multiplicity = sum over registries and keys read), C07_mem_none (handlers), "
    "C07_order_chain, C07_order_required, C07_sreqs_order (less specific required specifications first, all positions), the unsubscribe clause in state form "
    "(C07_unsubscribe_removes / _keeps / _order / _all / _other). WITH THE HISTORY INVARIANTS (C04Ext: extendors content, counts): C07_appKeys_spec (the keys read are "
    "exactly the stored keys whose required part the query is-or-extends position by position and whose provided interface is live and extends the requested one), "
    "C07_mem_some, C07_multiplicity (count of a subscriber in the answer = number of applicable entries of allSubscriptions() over the chain — every live applicable "
    "subscriber, as many times as subscribed and not unsubscribed; needs duplicate-free resolution orders, shown necessary by kernel-checked counterexamples). OVER ALL "
    "HISTORIES: C07_leaf_history (the list under a key is the pure replay of the history on that key: subscribe appends, unsubscribe with a value removes all equal "
    "entries, without a value all entries, nothing else touches it), C07_subscribe_history, C07_unsubscribe_history, C07_unsubscribe_result (every other subscriber of "
    "every query result is untouched, also when the removal drops the interface from _extendors), and for the CACHED subscriptions() of reachable worlds C07_hist_flat / "
    "_mem_some / _mem_none / _count / _multiplicity / _order_chain (via C05_registry_transparent_subscriptions). The multiset, the three ordering clauses and unsubscribe "
    "semantics are also judged by the flat oracle on every answer; a world stream re-checks subscriptions() / subscribers() against a never-queried twin after "
    "declaration and hierarchy changes.",
    "The cached entry point of the generation-checking flavour is covered by C05_verifying_transparent_subscriptions + the any-world theorems. Static specification graph "
    "in the registry model. Observed and proved (C07_provKeys_order): under one required part the provided keys are visited most specific first.",
    "Lean 4 proof (walk = ordered concatenation; membership, multiplicity and order over all histories) + differential correspondence + flat-multiset oracle", "6/C07")

add("C19",
    "Theorems over ALL declaration histories with super queries (ZI/Props/C19Hist.lean, on ZI.Classes2 with the per-class _super_cache): C19_super — for every "
    "well-formed history, every instance ob and every class C, `I in providedBy(super(C, ob)).__sro__` holds exactly when some class strictly AFTER C in the MRO of "
    "type(ob) implements I (the statement's own recursion Impl), so never because of C itself, an earlier class, or ob's own direct declaration (C19_super_excludes); "
    "cache hit and miss alike, earlier super queries allowed. C19_remainder_split (the MRO is a valid linearization, C3; the remainder contains neither C nor anything "
    "before it). C19_stable (the specification returned once keeps following LATER declaration changes on the remaining classes). C19_reuse_iff (the identical object is "
    "returned again exactly as long as no class declaration touched type(ob) or a class it still inherits from — changed_reaches_iff: that is exactly the set "
    "Implements.changed() runs on). sim19_step / sim19_run: the cache invariant along every history. C19_mro_remainder, C19_cache_hit_same, C03_ro_eq_c3 (the model's "
    "MRO is C3, tied to real __mro__ by the correspondence). The integrated World model (superSpec, registrations keyed on proxy specifications, adaptation passing ob "
    "itself) is compared with both twins on class DAGs with diamonds and mixins and declaration histories before and after the first super query; the driver runs the "
    "proved model and the abstract state in lock step and flags any disagreement on a super query inside the theorem's guards; every query involving a proxy is judged on "
    "the real objects against the union of implementedBy(D) for D after C in type(ob).__mro__.",
    "Guards of C19_super: C01's per-operation well-formedness (incl. G-nodup), the instance exists, fuel >= number of classes; interface re-basing and a class "
    "specification among the declared ones are outside (evidence: super queries inside / outside the guards). Not modelled: the inherit / declared attributes copied "
    "onto the synthesized Implements.",
    "Lean 4 proof (simulation over all histories with super queries; cache invariant; reuse iff untouched) + differential correspondence with a lock-step proved model + MRO-remainder oracle", "6/C19")
add("C13",
    "Theorems: C13_implements (after ANY history of specification-creating and declaration calls — inherited, implementer, classImplementsFirst, the *only* forms, "
    "repeated in any order — the live specification of every class reduces to implementedBy(<that class>), so unpickling returns the identical object), inv_run / "
    "inv_step, C13_pinned_violates (kernel-checked: the pinned code reduced *only*-declared classes to implementedBy(None)), C13_names_only (a reduction can only carry "
    "global names and references). INSTANCE DECLARATIONS over all declaration histories (ZI/Props/C13Hist.lean, on ZI.Classes2): C13_unpickle_same / "
    "C13_provides_same — `Provides(cls, *args)` called again with the arguments `__reduce__` returns yields a declaration that reports exactly Up(args not implied by "
    "the class now) + Impl(cls); when the class declarations are settled with respect to those arguments (G-settled) that is exactly what the live declaration "
    "reports; C13_provides_identical — while the object holds its declaration and the history since stayed settled after every step (Quiet), the factory returns the "
    "IDENTICAL live object without allocating. Both guards are shown necessary by kernel-checked counterexample histories (hS: a redundant argument whose redundancy "
    "later disappears; hN: a stale cache entry replaced in between). The reductions of class specifications and instance declarations are compared with the model; "
    "every round trip (interfaces, class specifications, instance and class provides-declarations, carrying objects, providedBy results, the empty declaration) is "
    "executed under protocols 0-5 on both twins in a generated importable module and judged for identity / same interfaces / equality / absence of definition text "
    "in the pickle bytes.",
    "Guard G-settled (see above; the check's generator respects it). Known finding classprovides-unpickle-not-equal. CPython's pickle machinery is modelled, not verified.",
    "Lean 4 proof (history invariants of the pickling state and of the shared Provides cache) + reduction correspondence + exhaustive-protocol round-trip oracle", "6/C13")
