NOT_YET = {}
add("C03",
    "Theorems C03_valid/C03_eq_c3/C03_ro_eq_c3/C03_strict_iff/C03_consistent_iff over every acyclic ordered DAG, lifted to every "
    "rebasing history (C03_cached_valid, C03_cached_eq_c3); the model (ro.py, _calculate_sro, changed) is compared with the real code "
    "in 3 environments x 2 twins on every run and every answer is judged by CPython's own MRO and a textbook C3.",
    "Guards: G-acyclic, G-nodup for the equality clauses, G-rooted for reading 'no C3 exists' against the mirrored hierarchy.",
    "Lean 4 proof (induction over fuel/rank + history invariant) + differential correspondence + CPython-MRO oracle", "6/C03")
