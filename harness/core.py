"""Core of the check machinery: Lean obligations + audit, overlay build of /repo,
running the real implementation and the Lean model driver on the same operation
lines, diffing, verdicts, evidence, replays, known findings.

Nothing here imports zope.interface: the implementation only ever runs in
subprocesses that import the *overlay* copy built from /repo's working tree.
"""
import atexit
import fcntl
import hashlib
import json
import os
import random
import re
import shutil
import subprocess
import sys
import tempfile
import time

VERIF = os.path.dirname(os.path.dirname(os.path.abspath(__file__)))
REPO = os.environ.get("VERIF_REPO", "/repo")
PY = os.environ.get("VERIF_PYTHON", "/venv/bin/python")
LEAN_DIR = os.path.join(VERIF, "lean")
DRIVER = os.path.join(LEAN_DIR, ".lake", "build", "bin", "driver")
EVID_DIR = os.environ.get("VERIF_EVIDENCE_DIR") or os.path.join(VERIF, "evidence")      # selftest runs write elsewhere
REPLAY_DIR = os.path.join(EVID_DIR, "replays")
STD_AXIOMS = {"propext", "Classical.choice", "Quot.sound"}
TRUSTED_BASE = [
    "Lean 4.33 kernel + elaborator (lake build); axioms limited to propext, Classical.choice, Quot.sound (audited per run, no sorry/native_decide/bv_decide/own axioms)",
    "statements in lean/ZI/Props/*.lean and the spec definitions they mention",
    "hand-written executable model (lean/ZI/*.lean) validated, not verified, against /repo by the correspondence run of this check (both C accelerator and PURE_PYTHON)",
    "harness: generators, real-implementation executors, canonicaliser (harness/*.py); Lean compiler for running the model driver",
    "CPython semantics (attribute lookup, dict order, weakrefs, MRO) modelled, not verified",
]


class Infra(Exception):
    """infrastructure failure -> exit 2"""


def log(*a):
    print(*a, file=sys.stderr, flush=True)


def seed():
    try:
        return int(os.environ.get("VERIF_SEED", "0"))
    except ValueError:
        return 0


def rng(prop, extra=0):
    h = int(hashlib.sha256(("%s/%d/%d" % (prop, seed(), extra)).encode()).hexdigest()[:12], 16)
    return random.Random(h)


# ---------------------------------------------------------------------------
# scratch directories (outside /repo and /verif, removed at exit)

_scratch = []


def scratch_dir(prefix="zi-"):
    base = os.environ.get("TMPDIR") or "/var/tmp"
    d = tempfile.mkdtemp(prefix=prefix, dir=base)
    _scratch.append(d)
    return d


def _cleanup():
    for d in _scratch:
        shutil.rmtree(d, ignore_errors=True)


atexit.register(_cleanup)


# ---------------------------------------------------------------------------
# Lean side

def lean_source_hash():
    h = hashlib.sha256()
    for root, dirs, files in os.walk(LEAN_DIR):
        dirs[:] = sorted(d for d in dirs if d not in (".lake", ".git"))
        for f in sorted(files):
            if f.endswith((".lean", ".toml")):
                p = os.path.join(root, f)
                h.update(p.encode())
                with open(p, "rb") as fh:
                    h.update(fh.read())
    return h.hexdigest()


_FORBIDDEN = re.compile(r"\b(sorry|admit|native_decide|bv_decide|implemented_by|unsafe)\b|^\s*axiom\s|maxHeartbeats\s+0\b", re.M)


def _strip_comments(src):
    # remove /- ... -/ (nested) and -- comments
    out = []
    i = 0
    depth = 0
    n = len(src)
    while i < n:
        if src.startswith("/-", i):
            depth += 1
            i += 2
        elif depth and src.startswith("-/", i):
            depth -= 1
            i += 2
        elif depth:
            i += 1
        elif src.startswith("--", i):
            j = src.find("\n", i)
            i = n if j < 0 else j
        else:
            out.append(src[i])
            i += 1
    return "".join(out)


def lean_text_scan():
    """reject sorry/admit/axiom/native_decide/... outside comments in lean/ (library + drivers)"""
    bad = []
    for root, dirs, files in os.walk(LEAN_DIR):
        dirs[:] = [d for d in dirs if d not in (".lake", ".git")]
        for f in files:
            if f.endswith(".lean"):
                p = os.path.join(root, f)
                src = _strip_comments(open(p, encoding="utf-8").read())
                for m in _FORBIDDEN.finditer(src):
                    bad.append("%s: %s" % (os.path.relpath(p, VERIF), m.group(0).strip()))
    return bad


def lean_build(extra_targets=()):
    """`lake build` under a file lock; returns (ok, output_tail). Audit table is cached by source hash."""
    os.makedirs(os.path.join(LEAN_DIR, ".lake"), exist_ok=True)
    lock = open(os.path.join(LEAN_DIR, ".lake", "verif.lock"), "w")
    fcntl.flock(lock, fcntl.LOCK_EX)
    try:
        h = lean_source_hash()
        stamp = os.path.join(LEAN_DIR, ".lake", "verif.stamp")
        audit = os.path.join(LEAN_DIR, ".lake", "audit.txt")
        if os.path.exists(stamp) and open(stamp).read().strip() == h and os.path.exists(audit) and os.path.exists(DRIVER):
            return True, "up to date (%s)" % h[:12]
        t0 = time.time()
        p = subprocess.run(["lake", "build", "ZI", "driver"] + list(extra_targets), cwd=LEAN_DIR,
                           capture_output=True, text=True)
        tail = (p.stdout + p.stderr)[-6000:]
        if p.returncode != 0:
            if os.path.exists(stamp):
                os.unlink(stamp)
            return False, tail
        q = subprocess.run(["lake", "env", "lean", "Audit.lean"], cwd=LEAN_DIR, capture_output=True, text=True)
        if q.returncode != 0:
            return False, (q.stdout + q.stderr)[-6000:]
        with open(audit, "w") as fh:
            fh.write(q.stdout)
        with open(stamp, "w") as fh:
            fh.write(h)
        log("lean: built + audited in %.1fs" % (time.time() - t0))
        return True, tail[-500:]
    finally:
        fcntl.flock(lock, fcntl.LOCK_UN)
        lock.close()


def lean_recheck():
    """thorough tier: `leanchecker` (the toolchain's independent re-checker) replays the compiled library; cached by source hash.
    -> (ok, message)"""
    os.makedirs(os.path.join(LEAN_DIR, ".lake"), exist_ok=True)
    lock = open(os.path.join(LEAN_DIR, ".lake", "verif.recheck.lock"), "w")
    fcntl.flock(lock, fcntl.LOCK_EX)
    try:
        h = lean_source_hash()
        stamp = os.path.join(LEAN_DIR, ".lake", "leanchecker.stamp")
        if os.path.exists(stamp) and open(stamp).read().strip() == h:
            return True, "leanchecker: library re-checked (cached, %s)" % h[:12]
        t0 = time.time()
        try:
            p = subprocess.run(["lake", "env", "leanchecker", "ZI"], cwd=LEAN_DIR, capture_output=True, text=True, timeout=1800)
        except (OSError, subprocess.TimeoutExpired) as e:
            return False, "leanchecker could not be run: %s" % e
        if p.returncode != 0:
            return False, "leanchecker rejects the compiled library: " + (p.stdout + p.stderr)[-1500:]
        with open(stamp, "w") as fh:
            fh.write(h)
        return True, "leanchecker: library re-checked in %.0fs" % (time.time() - t0)
    finally:
        fcntl.flock(lock, fcntl.LOCK_UN)
        lock.close()


def audit_table():
    """{theorem name: [axioms]} for every theorem constant under namespace ZI"""
    tab = {}
    p = os.path.join(LEAN_DIR, ".lake", "audit.txt")
    for line in open(p, encoding="utf-8"):
        line = line.strip()
        if line.startswith("THM "):
            parts = line.split()
            tab[parts[1]] = parts[2:]
    return tab


def lean_obligations(theorems):
    """Build, audit, text scan. Returns dict(ok, obligations, discharged, problems, detail)."""
    problems = []
    ok, tail = lean_build()
    if not ok:
        problems.append("lake build failed: " + tail[-1500:])
        return dict(ok=False, obligations=len(theorems), discharged=0, problems=problems, total_theorems=0)
    scan = lean_text_scan()
    if scan:
        problems.append("forbidden tokens outside comments: " + "; ".join(scan[:10]))
    tab = audit_table()
    discharged = 0
    for t in theorems:
        if t not in tab:
            problems.append("theorem missing: " + t)
        elif set(tab[t]) - STD_AXIOMS:
            problems.append("theorem %s depends on non-standard axioms %s" % (t, sorted(set(tab[t]) - STD_AXIOMS)))
        else:
            discharged += 1
    nonstd = [t for t, ax in tab.items() if set(ax) - STD_AXIOMS]
    if nonstd:
        problems.append("library theorems with non-standard axioms: %s" % nonstd[:10])
    return dict(ok=not problems, obligations=len(theorems), discharged=discharged, problems=problems,
                total_theorems=len(tab))


def run_model(layer, lines, args=()):
    """feed operation lines to the compiled Lean driver, return output lines"""
    if not os.path.exists(DRIVER):
        raise Infra("driver not built")
    p = subprocess.run([DRIVER, layer] + list(args), input="\n".join(lines) + "\n", capture_output=True, text=True)
    if p.returncode != 0:
        raise Infra("driver failed rc=%s: %s" % (p.returncode, p.stderr[-2000:]))
    return p.stdout.split("\n")[:-1] if p.stdout.endswith("\n") else p.stdout.split("\n")


# ---------------------------------------------------------------------------
# implementation side: overlay build + executor subprocesses

_overlay = None


def build_overlay():
    """copy /repo/src/zope/interface to a scratch dir and compile the C extension there.
    Returns dict(path, c_ok, c_err)."""
    global _overlay
    if _overlay is not None:
        return _overlay
    ov = scratch_dir("zi-ov-")
    if os.environ.get("VERIF_COVERAGE"):
        # one shared, instrumented overlay for all the runs of a coverage report (tools/coverage_report.py)
        ov = os.path.join(os.environ["VERIF_COVERAGE"], "ov")
        if os.path.exists(os.path.join(ov, "built")):
            _overlay = dict(path=ov, c_ok=True, c_err="")
            return _overlay
    src = os.path.join(REPO, "src", "zope", "interface")
    dst = os.path.join(ov, "zope", "interface")
    shutil.copytree(src, dst, ignore=shutil.ignore_patterns("*.so", "__pycache__", "*.pyc"))
    inc = subprocess.run([PY, "-c", "import sysconfig;print(sysconfig.get_paths()['include']);print(sysconfig.get_config_var('EXT_SUFFIX'))"],
                         capture_output=True, text=True)
    if inc.returncode != 0:
        raise Infra("cannot query python: " + inc.stderr)
    incdir, suffix = [l for l in inc.stdout.splitlines() if l and not l.startswith("WARNING")][-2:]
    so = os.path.join(dst, "_zope_interface_coptimizations" + suffix)
    flags = ["-O2"]
    if os.environ.get("VERIF_COVERAGE"):
        # tools/coverage_report.py: line coverage of the C twin as well (gcov data collected under VERIF_COVERAGE/gcov)
        gdir = os.path.join(os.environ["VERIF_COVERAGE"], "gcov")
        os.makedirs(gdir, exist_ok=True)
        flags = ["-O0", "--coverage", "-fprofile-update=atomic"]
    cc = subprocess.run(["gcc", "-shared", "-fPIC"] + flags + ["-I" + incdir, "-w",
                         os.path.join(dst, "_zope_interface_coptimizations.c"), "-o", so],
                        capture_output=True, text=True, cwd=dst)
    _overlay = dict(path=ov, c_ok=cc.returncode == 0, c_err=cc.stderr[-3000:])
    if os.environ.get("VERIF_COVERAGE"):
        open(os.path.join(ov, "built"), "w").write("1")
    return _overlay


def _limit_child():
    """a broken implementation (endless loop, runaway allocation) must not take the sandbox down"""
    import resource
    gb = int(os.environ.get("VERIF_IMPL_MEM_GB", "6"))
    resource.setrlimit(resource.RLIMIT_AS, (gb << 30, gb << 30))


def run_impl(layer, lines, mode, args=(), env_extra=None, timeout=None):
    """run operation lines against the real implementation; large batches are cut at script boundaries (`reset…` lines)
    into chunks executed by concurrent executor processes (every script starts from a reset, so the outputs are those
    of one sequential run)"""
    jobs = int(os.environ.get("VERIF_IMPL_JOBS", "6"))
    starts = [i for i, l in enumerate(lines) if l.startswith("reset")] if len(lines) >= 20000 and jobs > 1 else []
    if len(starts) >= 4 * jobs and starts[0] == 0:
        cuts = [0]
        for k in range(1, jobs):
            target = k * len(lines) // jobs
            c = min((i for i in starts if i >= target), default=None)
            if c is not None and c > cuts[-1]:
                cuts.append(c)
        cuts.append(len(lines))
        from concurrent.futures import ThreadPoolExecutor
        build_overlay()

        def one(k):
            try:
                return _run_impl_one(layer, lines[cuts[k]:cuts[k + 1]], mode, args, env_extra, timeout)
            except ImplBroken as e:
                return e
        with ThreadPoolExecutor(max_workers=len(cuts) - 1) as ex:
            parts = list(ex.map(one, range(len(cuts) - 1)))
        for p_ in parts:
            if isinstance(p_, ImplBroken):
                raise p_
        return [o for p_ in parts for o in p_]
    return _run_impl_one(layer, lines, mode, args, env_extra, timeout)


def _run_impl_one(layer, lines, mode, args=(), env_extra=None, timeout=None):
    """run operation lines against the real implementation (overlay) in a subprocess.
    mode: 'c' (accelerator) or 'py' (PURE_PYTHON=1). Returns output lines."""
    ov = build_overlay()
    if mode == "c" and not ov["c_ok"]:
        raise ImplBroken("C extension does not compile: " + ov["c_err"])
    env = dict(os.environ)
    env["PURE_PYTHON"] = "1" if mode == "py" else "0"
    env["PYTHONHASHSEED"] = env.get("PYTHONHASHSEED", "0")
    env.pop("ZOPE_INTERFACE_STRICT_IRO", None)
    env.pop("ZOPE_INTERFACE_USE_LEGACY_IRO", None)
    env.pop("ZOPE_INTERFACE_LOG_CHANGED_IRO", None)
    if env_extra:
        env.update(env_extra)
    env["ZI_OVERLAY"] = ov["path"]
    env["ZI_MODE"] = mode
    env["PYTHONPATH"] = VERIF
    if timeout is None:
        timeout = int(os.environ.get("VERIF_IMPL_TIMEOUT", "0")) or max(90, len(lines) // 60)
    try:
        p = subprocess.run([PY, "-m", "harness.impl_exec", layer] + list(args), input="\n".join(lines) + "\n",
                           capture_output=True, text=True, env=env, timeout=timeout, cwd=VERIF, preexec_fn=_limit_child)
    except subprocess.TimeoutExpired:
        # the unchanged tree answers the same batch in seconds: an implementation that no longer terminates on it is a
        # broken correspondence (searched like any other), not an infrastructure failure
        raise ImplBroken("executor did not finish within %ds on %d lines (mode %s)" % (timeout, len(lines), mode))
    if p.returncode != 0:
        raise ImplBroken("executor rc=%s (mode %s): %s" % (p.returncode, mode, p.stderr[-3000:]))
    out = p.stdout.split("\n")
    if out and out[-1] == "":
        out.pop()
    return out


class ImplBroken(Exception):
    """the implementation could not be run at all (import error, crash, compile error)"""


# ---------------------------------------------------------------------------
# scripts: lists of lines, separated on the wire by the script's own first line ('reset ...')

def split_scripts(lines, is_reset=lambda l: l.startswith("reset")):
    scripts = []
    for i, l in enumerate(lines):
        if is_reset(l) or not scripts:
            scripts.append([])
        scripts[-1].append(i)
    return scripts


def first_diffs(lines, a, b, limit=20):
    """indices where outputs differ (also length mismatch)"""
    out = []
    n = min(len(a), len(b), len(lines))
    for i in range(n):
        if a[i] != b[i]:
            out.append(i)
            if len(out) >= limit:
                break
    if len(a) != len(b) or len(a) != len(lines):
        out.append(n)
    return out


# ---------------------------------------------------------------------------
# known findings

def known_findings():
    res = []
    p = os.path.join(VERIF, "known_findings.txt")
    if os.path.exists(p):
        for line in open(p, encoding="utf-8"):
            line = line.strip()
            m = re.match(r"finding:\s+property=(\S+)\s+sig=(\S+)\s+(.*)", line)
            if m:
                res.append(dict(property=m.group(1), sig=m.group(2), what=m.group(3)))
    return res


# ---------------------------------------------------------------------------
# verdict + evidence

class Check:
    """accumulates the result of one check run"""

    def __init__(self, prop, tier, level="proof"):
        self.prop = prop
        self.tier = tier
        self.level = level
        self.t0 = time.time()
        self.violations = []       # dict(kind, what, replay(dict), sig)
        self.known = []
        self.coverage = {}
        self.assumptions = []
        self.notes = []
        self.lean = None
        self.samples = []
        self.counters = {}
        os.makedirs(REPLAY_DIR, exist_ok=True)

    def count(self, k, n=1):
        self.counters[k] = self.counters.get(k, 0) + n

    def obligations(self, theorems, stated_not_proved=()):
        self.theorems = list(theorems)
        self.lean = lean_obligations(theorems)
        self.stated_not_proved = list(stated_not_proved)
        if self.tier == "thorough" and self.lean.get("ok"):
            ok, msg = lean_recheck()
            self.notes.append(msg)
            if not ok:
                self.lean["ok"] = False
                self.lean["problems"].append(msg)
        return self.lean

    def violation(self, what, replay, sig=None, failing_input=True):
        """record a violation; known findings (by signature) are reported separately"""
        if sig is not None:
            for k in known_findings():
                if k["property"] == self.prop and k["sig"] == sig:
                    if not any(x["sig"] == sig for x in self.known):
                        self.known.append(dict(sig=sig, what=k["what"]))
                    return False
        self.violations.append(dict(what=what, replay=replay, sig=sig, failing_input=failing_input))
        return True

    def finish(self, evaluations, distinct_nontrivial, rule, extra_cov=None):
        wall = time.time() - self.t0
        lean = self.lean or dict(obligations=0, discharged=0, problems=["no lean obligations run"], ok=False, total_theorems=0)
        cov = dict(
            obligations=max(1, lean["obligations"]),
            discharged=lean["discharged"],
            checker_cmd="cd lean && lake build ZI driver && lake env lean Audit.lean  (theorems: %s)" % ", ".join(getattr(self, "theorems", [])[:40]),
            trusted_base=TRUSTED_BASE + self.assumptions,
            theorems=getattr(self, "theorems", []),
            stated_not_proved=getattr(self, "stated_not_proved", []),
            library_theorems_audited=lean.get("total_theorems", 0),
            lean_problems=lean["problems"],
            evaluations=int(evaluations),
            distinct_nontrivial=int(distinct_nontrivial),
            rule=rule,
            samples=self.samples[:6] or ["(none)"],
            counters=self.counters,
            notes=self.notes,
            known_findings_seen=self.known,
        )
        if extra_cov:
            cov.update(extra_cov)
        ev = dict(property_id=self.prop, tier=self.tier, seed=seed(), level=self.level, coverage=cov,
                  assumptions=self.assumptions, wall_s=round(wall, 2), violations=len(self.violations))
        os.makedirs(EVID_DIR, exist_ok=True)
        with open(os.path.join(EVID_DIR, "%s.json" % self.prop), "w") as fh:
            json.dump(ev, fh, indent=1, sort_keys=True, default=str)
        for k in self.known:
            print("KNOWN-FINDING: property=%s %s (%s)" % (self.prop, k["what"], k["sig"]))
        rc = 0
        for n, v in enumerate(self.violations[:5]):
            path = os.path.join(REPLAY_DIR, "%s-%d-%d.json" % (self.prop, seed(), n))
            rep = dict(v["replay"])
            rep.setdefault("property", self.prop)
            rep["what"] = v["what"]
            rep["signature"] = v["sig"]
            rep["replay_cmd"] = "./check %s --replay %s" % (self.prop, os.path.relpath(path, VERIF))
            with open(path, "w") as fh:
                json.dump(rep, fh, indent=1, default=str)
            tail = "" if v["failing_input"] else " no-failing-input-found"
            print("VIOLATION property=%s replay=%s%s" % (self.prop, os.path.relpath(path, VERIF), tail))
            log("  ->", v["what"][:600])
            rc = 1
        if rc == 0:
            print("OK property=%s tier=%s seed=%d evaluations=%d nontrivial=%d lean=%d/%d wall=%.1fs" % (
                self.prop, self.tier, seed(), evaluations, distinct_nontrivial, lean["discharged"], lean["obligations"], wall))
        return rc


def source_obligations(chk, names):
    """the models of the small decision functions are REGENERATED from the current Python sources (tools/pyextract.py) and Lean
    decides that each equals the hand model the theorems are about; -> list of unmet obligations (of `names`)"""
    pkg = os.path.join(REPO, "src", "zope", "interface")
    d = scratch_dir("zi-pygen-")
    gen = os.path.join(d, "PyGen.lean")
    p = subprocess.run([sys.executable, os.path.join(VERIF, "tools", "pyextract.py"), pkg], capture_output=True, text=True)
    if p.returncode != 0:
        return ["source translator failed (fails closed): " + (p.stderr or p.stdout)[-400:]]
    open(gen, "w").write(p.stdout)
    q = subprocess.run(["lake", "env", "lean", gen], cwd=LEAN_DIR, capture_output=True, text=True)
    text = q.stdout + q.stderr
    src = p.stdout.splitlines()
    unmet = []
    for n in names:
        starts = [i for i, l in enumerate(src) if l.startswith("theorem %s " % n)]
        if not starts:
            unmet.append("obligation %s was not generated" % n)
            continue
        lo = starts[0] + 1
        hi = next((i for i in range(lo, len(src)) if src[i].startswith(("theorem ", "def ", "-- "))), len(src))
        closed = [l for l in src[max(0, lo - 2):lo] if "FAIL-CLOSED" in l]
        errs = [int(m.group(1)) for m in re.finditer(r"PyGen\.lean:(\d+):\d+: error", text)]
        if closed or any(lo <= e <= hi + 1 for e in errs):
            unmet.append("the model regenerated from the source no longer equals the hand model: %s%s" % (n, (" (" + closed[0][:200] + ")") if closed else ""))
    if q.returncode != 0 and not unmet and re.search(r": error", text):
        unmet.append("lean failed on the regenerated definitions: " + text[-300:])
    chk.count("source_obligations", len(names))
    chk.count("source_obligations_discharged", len(names) - len(unmet))
    return unmet


def source_obligation_violation(chk, unmet, fails):
    """regenerated obligations that no longer check: a violation without a failing input unless the oracle found one"""
    if unmet and not fails:
        chk.violation("obligations regenerated from the current Python sources no longer check: " + " | ".join(unmet)[:900] +
                      "; the oracle accepted every answer of this run", dict(kind="obligation", theorem_or_correspondence=unmet), failing_input=False)
    elif unmet:
        chk.notes.append("unmet regenerated obligations: " + " | ".join(unmet)[:600])


def lean_failure_violation(chk):
    """a Lean obligation that no longer checks and no failing input was found"""
    if chk.lean and not chk.lean["ok"]:
        chk.violation("Lean obligations no longer check: " + " | ".join(chk.lean["problems"])[:1500],
                      dict(kind="obligation", theorem_or_correspondence=chk.lean["problems"]), failing_input=False)
