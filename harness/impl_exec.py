"""Runs inside a subprocess: imports zope.interface from the overlay built from /repo's working tree
and executes operation lines from stdin with the layer's executor, one answer line per operation."""
import os
import sys


def setup_overlay():
    ov = os.environ["ZI_OVERLAY"]
    mode = os.environ["ZI_MODE"]
    import zope
    zope.__path__ = [os.path.join(ov, "zope")] + [p for p in zope.__path__]
    import zope.interface
    assert zope.interface.__file__.startswith(ov), zope.interface.__file__
    from zope.interface import interface, declarations
    if mode == "c":
        from zope.interface import _zope_interface_coptimizations as C
        assert C.__file__.startswith(ov), C.__file__
        assert interface.SpecificationBase is C.SpecificationBase, "C accelerator not in use"
    else:
        assert interface.SpecificationBase.__module__ == "zope.interface.interface", "python reference not in use"
    return ov


def main():
    cov = None
    if os.environ.get("VERIF_COVERAGE"):
        # tools/coverage_report.py: which lines of the library the correspondence streams execute (never part of a registered check)
        import coverage
        ov = os.environ["ZI_OVERLAY"]
        cov = coverage.Coverage(data_file=os.path.join(os.environ["VERIF_COVERAGE"], "cov"), data_suffix=True, branch=True,
                                include=[os.path.join(ov, "zope", "interface", "*.py"), os.path.join(ov, "zope", "interface", "common", "*.py")])
        cov.start()
    setup_overlay()
    layer = sys.argv[1]
    mod = __import__("harness.layers." + layer, fromlist=["run"])
    lines = sys.stdin.read().split("\n")
    if lines and lines[-1] == "":
        lines.pop()
    out = sys.stdout
    mod.run(lines, out, sys.argv[2:])
    out.flush()
    if cov is not None:
        cov.stop()
        cov.save()


if __name__ == "__main__":
    main()
