import sys
from . import runner


def main():
    if len(sys.argv) < 2:
        print("usage: check <Cxx> [--tier quick|thorough] [--replay file]")
        return 2
    prop = sys.argv[1].upper()
    try:
        mod = __import__("harness.props." + prop.lower(), fromlist=["check"])
    except ImportError as e:
        print("no check for", prop, e)
        return 2
    return runner.main_entry(mod)


if __name__ == "__main__":
    sys.exit(main())
