"""Generic correspondence / oracle / shrinking helpers shared by the per-property checks."""
import json
import os
import sys

from . import core


def script_of(lines, idx, is_reset=lambda l: l.startswith("reset")):
    """(start, end) of the reset-delimited script containing line idx; end = idx+1 (prefix up to the line)"""
    s = idx
    while s > 0 and not is_reset(lines[s]):
        s -= 1
    return s, idx + 1


def run_impl_parallel(layer, lines, jobs, env_extra=None):
    """jobs: list of (mode, impl_args); runs them concurrently; returns list of outputs or ImplBroken instances"""
    from concurrent.futures import ThreadPoolExecutor
    core.build_overlay()

    def one(job):
        try:
            return core.run_impl(layer, lines, job[0], job[1], env_extra)
        except core.ImplBroken as e:
            return e
    with ThreadPoolExecutor(max_workers=len(jobs)) as ex:
        return list(ex.map(one, jobs))


def correspond(chk, layer, lines, modes=("c", "py"), model_args=(), impl_args=(), env_extra=None,
               model_layer=None, normalise=None, label="", precomputed=None):
    """Run the same lines on the model driver and on the implementation in each mode.
    Returns (impl_outputs_by_mode, model_outputs, divergences) where a divergence is
    dict(mode, index, line, impl, model, script)."""
    model = core.run_model(model_layer or layer, lines, model_args)
    impl = {}
    divs = []
    for m in modes:
        try:
            if precomputed is not None and m in precomputed:
                out = precomputed[m]
                if isinstance(out, core.ImplBroken):
                    raise out
            else:
                out = core.run_impl(layer, lines, m, impl_args, env_extra)
        except core.ImplBroken as e:
            bad_script = isolate_crash(layer, lines, m, impl_args, env_extra)
            divs.append(dict(mode=m, index=-1, line="", impl="<implementation could not be run: %s>" % str(e)[-1500:],
                             model="", script=bad_script or [], label=label, crash=bool(bad_script)))
            impl[m] = None
            continue
        impl[m] = out
        a = [normalise(x) for x in out] if normalise else out
        b = [normalise(x) for x in model] if normalise else model
        for i in core.first_diffs(lines, a, b, limit=5):
            s, e = script_of(lines, min(i, len(lines) - 1))
            divs.append(dict(mode=m, index=i, line=lines[i] if i < len(lines) else "<length mismatch>",
                             impl=out[i] if i < len(out) else "<missing>",
                             model=model[i] if i < len(model) else "<missing>",
                             script=lines[s:e], label=label))
        chk.count("lines_%s" % m, len(lines))
    chk.count("lines_model", len(lines))
    return impl, model, divs


def isolate_crash(layer, lines, mode, impl_args=(), env_extra=None, per_run_timeout=20):
    """the implementation crashed or did not terminate on the batch: find one reset-delimited script on which it still
    does (binary search over scripts). Returns the script's lines or None (e.g. import failure: nothing to isolate)."""
    scripts = [[lines[i] for i in idxs] for idxs in core.split_scripts(lines)]

    def broken(ss):
        try:
            core.run_impl(layer, [l for s in ss for l in s], mode, impl_args, env_extra, timeout=per_run_timeout)
            return False
        except core.ImplBroken:
            return True

    if not scripts or not broken(scripts[:1]) and len(scripts) == 1:
        return None
    if broken([["reset"]]) and broken(scripts[:1]) and len(scripts) > 1 and broken(scripts[1:2]):
        return None          # everything fails: not input-specific
    lo, hi = 0, len(scripts)
    runs = 0
    while hi - lo > 1 and runs < 14:
        mid = (lo + hi) // 2
        runs += 1
        if broken(scripts[lo:mid]):
            hi = mid
        else:
            lo = mid
    return scripts[lo] if broken(scripts[lo:lo + 1]) else None


_SHRINK_DEADLINE = None


def ddmin(lines, fails, keep_first=1, budget=40):
    """shrink a failing script (list of lines); the first `keep_first` lines are kept."""
    head, body = lines[:keep_first], lines[keep_first:]
    n = 2
    runs = 0
    # shrinking is a convenience for the reader of the replay: it never may make a check run long (a broken implementation can
    # be slow on every attempt).  All the shrinking of one check run shares one wall-clock allowance
    import time
    global _SHRINK_DEADLINE
    if _SHRINK_DEADLINE is None:
        _SHRINK_DEADLINE = time.time() + float(os.environ.get("VERIF_SHRINK_SECONDS", "60"))
    while len(body) >= 2 and runs < budget and time.time() < _SHRINK_DEADLINE:
        chunk = max(1, len(body) // n)
        reduced = False
        for i in range(0, len(body), chunk):
            cand = body[:i] + body[i + chunk:]
            runs += 1
            if cand and fails(head + cand):
                body = cand
                n = max(n - 1, 2)
                reduced = True
                break
            if runs >= budget or time.time() >= _SHRINK_DEADLINE:
                break
        if not reduced:
            if chunk == 1:
                break
            n = min(len(body), n * 2)
    return head + body


def report_divergences(chk, divs, theorem_hint, searched):
    """correspondence broken and the oracle accepted everything it saw: no-failing-input-found"""
    if not divs:
        return
    d = divs[0]
    if d.get("crash"):
        chk.violation("the implementation crashes or no longer terminates on this history (mode=%s): %s" % (d["mode"], d["impl"][:400]),
                      dict(kind="history", mode=d["mode"], script=d["script"], observed="<no answer>", expected_by="model",
                           theorem_or_correspondence=theorem_hint), failing_input=True)
        return
    chk.violation(
        "correspondence model<->implementation diverges (%d places; first: mode=%s line=%r impl=%r model=%r); %s"
        % (len(divs), d["mode"], d["line"], d["impl"], d["model"], searched),
        dict(kind="history", mode=d["mode"], script=d["script"], observed=d["impl"], expected=d["model"],
             expected_by="model", theorem_or_correspondence=theorem_hint, divergences=divs[:5],
             layer=d.get("label", "")),
        failing_input=False)


def load_replay(path):
    with open(path) as fh:
        return json.load(fh)


def main_entry(prop_module):
    """common CLI: check.py Cxx [--tier quick|thorough] [--replay file]"""
    import argparse
    ap = argparse.ArgumentParser()
    ap.add_argument("--tier", default=os.environ.get("VERIF_TIER", "quick"))
    ap.add_argument("--replay")
    a = ap.parse_args(sys.argv[2:])
    try:
        if a.replay:
            return prop_module.replay(a.replay)
        return prop_module.check(a.tier if a.tier in ("quick", "thorough") else "quick")
    except core.Infra as e:
        core.log("INFRASTRUCTURE FAILURE:", e)
        return 2
    except Exception:      # a bug in the machinery is never reported as a violation
        import traceback
        traceback.print_exc()
        core.log("INFRASTRUCTURE FAILURE: unexpected exception in the check machinery")
        return 2
