"""C19 — super() proxies see only the remainder of the MRO.

Lean: ZI/WorldModel.lean (`superSpec`: the synthesized specification over the classes after C in the MRO, its per-class
cache dropped by `Implements.changed`), ZI/Props/C19.lean.
Tie: the integrated world model compared with both twins on class DAGs with diamonds and undeclared mixins, every (C, ob)
pair along every MRO, declaration histories before and after the first super query, registrations keyed on interfaces and
adaptation of super proxies.  Oracle (in the executor, on the real objects): providedBy(super(C, ob)) / implementedBy(...) /
I.providedBy(...) = the union of implementedBy(D) over the classes D after C in type(ob).__mro__; queryAdapter /
queryMultiAdapter on the proxy = the factory lookup() selects for that specification, called with ob itself."""
from .. import core, runner
from . import worldcommon

THEOREMS = ["ZI.World.C19_mro_remainder", "ZI.World.C19_cache_hit_same", "ZI.RO.C03_ro_eq_c3",
            # over all declaration histories with super queries (ZI/Props/C19Hist.lean, on ZI.Classes2)
            "ZI.C19.C19_super", "ZI.C19.C19_super_after", "ZI.C19.C19_super_excludes", "ZI.C19.C19_remainder_split", "ZI.C19.C19_stable",
            "ZI.C19.C19_reuse_iff", "ZI.C19.sim19_step", "ZI.C19.sim19_run", "ZI.C19.changed_reaches_iff"]
PROFILE = dict(scen_cold_super=0.1, scen_layout_super=0.06, weights=[3, 0.5, 1, 0.3, 1, 5, 2, 0.2, 0.1], nregs=(1, 2), extra=1, provq=3, nclasses=(3, 6), superobj=0.75,
               keyweights=(0.25, 0.1, 0.2, 0.45), provkinds=(0.0, 0.1, 0.15, 0.75), arity=[1, 1, 2])


def judge(chk, lines, outs):
    bad = []
    prev = {}
    for i, (l, o) in enumerate(zip(lines, outs)):
        f = l.split("|")
        if f[0].startswith("reset"):
            prev = {}
        if o.startswith("err") or "other:" in o or o == "bad":
            bad.append((i, "%s -> %s" % (l, o)))
            continue
        if "?" in o and f[0] in ("qadapter", "subscribers"):
            bad.append((i, "%s -> %s: the factory was not passed the underlying object of the super proxy" % (l, o)))
            continue
        if f[0] == "prov" and f[1][0] == "s":
            chk.count("super_queries")
            if l in prev:
                chk.count("super_queries_repeated")
                if prev[l] != o:
                    chk.count("super_answers_changed_by_later_declarations")
            prev[l] = o
            if "SUPER-" in o:
                bad.append((i, "providedBy(super(C%s, ob%s)) = [%s]" % (f[1][1:].split(".")[0], f[1].split(".")[1], o)))
        elif len(f) > 2 and any(t[:1] == "s" for t in f[2].split()):
            if f[0] == "qadapter":
                chk.count("super_adaptations")
            if "SUPER-" in o:
                bad.append((i, "%s: %s" % (l, o)))
    return bad


class _Null:
    def count(self, *a, **k):
        pass


def check(tier):
    chk = core.Check("C19", tier)
    chk.obligations(THEOREMS, ["C19_super / C19_stable for histories with interface re-basing, class specifications among the declared ones, and registrations keyed on "
                               "proxy specifications (the World model's superSpec is compared with the real code and judged by the MRO-remainder oracle on every query); "
                               "formal equivalence ZI.World.superSpec = ZI.C19.superSpec2 (checked by the driver on every super query instead)"])
    rnd = core.rng("C19")
    gen = worldcommon.WorldGen(rnd, tier, PROFILE)
    scripts = [gen.script(i % 2) for i in range({"quick": 70, "thorough": 2000}[tier])]
    lines = [l for s in scripts for l in s]
    res = runner.run_impl_parallel("world", lines, [("c", []), ("py", [])])
    impl, model, divs = runner.correspond(chk, "world", lines, label="world", precomputed={"c": res[0], "py": res[1]},
                                          normalise=lambda x: x.split(" SUPER-")[0])
    fails = []
    for m, outs in impl.items():
        if outs is None:
            continue
        for idx, msg in judge(chk if m == "c" else _Null(), lines, outs):
            s, e = runner.script_of(lines, idx)
            fails.append(dict(mode=m, script=lines[s:e], message=msg, observed=outs[idx]))
    # adaptation of a proxy: the model answers `res <factory> <object>`; the factory must have received ob itself
    seen = set()
    for f in fails:
        k = f["message"][:25] + f["mode"]
        if k in seen or len(seen) >= 3:
            continue
        seen.add(k)
        script = runner.ddmin(f["script"], lambda s, f=f: still_fails(s, f["mode"]), budget=30)
        chk.violation("%s [mode=%s]" % (f["message"], f["mode"]),
                      dict(kind="history", mode=f["mode"], script=script, observed=f["observed"], expected_by="spec", minimised=True))
    if not fails:
        runner.report_divergences(chk, divs, "world-layer correspondence (ZI.World.superSpec / uLookup vs declarations.py _implementedBy_super, adapter.py); theorems C19_mro_remainder",
                                  "MRO-remainder oracle accepted every super query")
        core.lean_failure_violation(chk)
    # how many super queries lie inside the guards of C19_super (decided by the driver with the theorem's own WFop19), and the lock-step flags
    wfl = []
    for sc in scripts:
        wfl += list(sc) + ["wf"]
    try:
        mo = core.run_model("world", wfl)
        rows = [x.split() for x in mo if x.startswith("wf ")]
        chk.counters["histories_wellformed_to_the_end"] = sum(1 for r in rows if r[1] == "true")
        chk.counters["histories_total"] = len(rows)
        chk.counters["super_queries_inside_theorem_guards"] = sum(int(r[2]) for r in rows)
        chk.counters["super_queries_total"] = sum(int(r[3]) for r in rows)
        chk.counters["shadow_model_disagreements"] = sum(1 for x in mo if "SUPERDIFF2" in x)
        chk.counters["abstract_spec_disagreements"] = sum(1 for x in mo if "SUPERSPECDIFF" in x)
    except core.Infra as e:       # pragma: no cover
        chk.counters["wf_stats_error"] = str(e)[-200:]
    chk.samples.append(scripts[0][:30])
    return chk.finish(len(lines) * 2, chk.counters.get("super_answers_changed_by_later_declarations", 0),
                      "class DAGs of 3-6 classes (diamonds, undeclared mixins), 1-4 instances, every class of each MRO used as C; class declaration calls "
                      "(classImplements / Only / First) before and after the first super query, instance declarations, interface re-basing; providedBy / implementedBy / "
                      "I.providedBy of the proxy and queryAdapter / adapter_hook / queryMultiAdapter / subscribers on it; distinct_nontrivial = super queries whose answer "
                      "changed because of a later declaration")


def still_fails(script, mode):
    try:
        out = core.run_impl("world", script, mode)
        return any("SUPER-" in o or "?" in o for o in out)
    except Exception:
        return False


def replay(path):
    rep = runner.load_replay(path)
    script = rep["script"]
    mode = rep.get("mode", "c")
    out = core.run_impl("world", script, mode)
    model = core.run_model("world", script)
    bad = 0
    for l, o, m in zip(script, out, model):
        note = ""
        if "SUPER-" in o:
            bad += 1
        if o.split(" SUPER-")[0] != m:
            note = "   MODEL: " + m
            bad += 1
        print("%-44s impl: %s%s" % (l, o, note))
    if bad:
        print("VIOLATION property=C19 replay=%s" % path)
        return 1
    print("replay passes on the current tree")
    return 0
