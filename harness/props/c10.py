"""C10 — the C accelerator is observationally equivalent to the Python reference.

(a) Lean: the twin theorems — C decision logic modelled separately from the Python one and proved equal for all inputs
    (ZI.Order.C12_twin: IB_richcompare; ZI.Adapt.C14_twin: IB__call__/IB__adapt__ incl. the custom-__adapt__ dispatch).
(b) every correspondence of the other checks runs in both modes against the matching twin definitions.
(c) this check: the operation streams of the other layers (graph, declarations, registry, world, comparison, adaptation,
    declaration algebra, attributes) and a dedicated stream of odd-input API programs are executed with the accelerator and
    with PURE_PYTHON=1 and the two traces are compared DIRECTLY, line by line, including exception types and the behaviour
    of subsequent operations.  The `life` stream (c10life.py) extends "subsequent behaviour" to object lifetimes: islands of API objects
    are dropped and the fate of every object (weakref(), weak references, finalizers, dependents) is compared and judged by an oracle."""
import re

from .. import core, runner
from . import c01, c02, c05, c12, c14, c15, c20, regcommon, worldcommon, c08, spectwin
from . import c10life

THEOREMS = ["ZI.Order.C12_twin", "ZI.Order.c_eq_py", "ZI.Adapt.C14_twin", "ZI.Adapt.callC_eq_callPy",
            # the lookup entry points: C composition (_adapter_hook -> _lookup1 -> _lookup, VB_*) = Python composition, all inputs, cache left behind included
            "ZI.LookupTwin.lookup_twin", "ZI.LookupTwin.lookup1_twin", "ZI.LookupTwin.adapterHook_twin", "ZI.LookupTwin.verifying_twin",
            "ZI.LookupTwin.lookup1_eq_lookup", "ZI.LookupTwin.nonstring_name_refused",
            # a lazy `required` whose iteration mutates the registry (both twins resolve it before they fetch the cache, repair 7ee6ae2);
            # lookupAll / subscriptions twins
            "ZI.LookupTwin.lazy_twin", "ZI.LookupTwin.lazy_nonstring_untouched", "ZI.LookupTwin.lazy_fresh", "ZI.LookupTwin.lazy_plain",
            "ZI.LookupTwin.old_order_plain", "ZI.LookupTwin.old_order_stale", "ZI.LookupTwin.all_twin", "ZI.LookupTwin.all_fresh",
            "ZI.LookupTwin.all_idem", "ZI.LookupTwin.all_old_order_stale"] + spectwin.THEOREMS
KNOWN = "eq-foreign-nonstr-name"


def streams(rnd, tier):
    big = tier == "thorough"
    k = 8 if big else 1
    out = []
    # object lifetimes (weakref() / weak references / finalizers / dependents after an island of API objects is dropped); own generator state
    out.append(("life", c10life.gen_lines(core.rng("C10", 1), tier), ()))
    out.append(("classes", [l for _ in range(60 * k) for l in c01.gen_script(rnd, tier)], ()))
    out.append(("graph", [l for _ in range(60 * k) for l in c02.gen_script(rnd, tier)[0]], ()) if hasattr(c02, "gen_script") else None)
    g = regcommon.Gen(rnd, tier, c08.PROFILE)
    out.append(("registry", [l for i in range(40 * k) for l in g.script(i % 2)], ()))
    wg = worldcommon.WorldGen(rnd, tier, c05.PROFILE)
    out.append(("world", [l for i in range(20 * k) for l in wg.script(i % 2)], ()))
    # every entry point on its own around every mutation (each C entry point carries its own copy of the cache / verify logic)
    wg1 = worldcommon.WorldGen(rnd, tier, dict(c05.PROFILE, single_entry=0.6, extra=0, provq=0, nregs=(2, 3), quiet=0.05, scen_entry=0.2))
    out.append(("world", [l for i in range(40 * k) for l in wg1.script(1 if i % 4 else 0)], ()))
    out.append(("order", [l for _ in range(8 * k) for l in c12.gen_script(rnd, tier)[0]], ()))
    out.append(("adapt", c14.gen_lines(rnd, tier)[::3 if not big else 1], ()))
    out.append(("declalg", [l for _ in range(100 * k) for l in c20.gen_script(rnd, tier)], ()))
    out.append(("attrs", [l for _ in range(60 * k) for l in c15.gen_script(rnd, tier)], ()))
    out.append(("odd", ["prog %d" % rnd.randrange(10 ** 9) for _ in range(1200 * k)], ()))
    # programs in which code the lookup itself calls (overridden uncached lookups, storage hooks, lazy `required`, descriptors) mutates
    # the registry: "the same subsequent behaviour" includes what the caches serve afterwards
    from . import c11
    out.append(("reentry", [l for l in c11.scenarios(tier) if not l.startswith("inmut")], ()))
    return [x for x in out if x]


def check(tier):
    chk = core.Check("C10", tier, level="proof")
    chk.obligations(THEOREMS, ["f_c = f_py for queryMultiAdapter / subscribers of LookupBase / VerifyingBase (one shared body in both "
                               "implementations) and everything else not named in the theorems: compared with the Python reference by differential execution only"])
    rnd = core.rng("C10")
    fails, known, known2 = [], [], []
    total = 0
    for layer, lines, args in streams(rnd, tier):
        res = runner.run_impl_parallel(layer, lines, [("c", list(args)), ("py", list(args))])
        if any(isinstance(r, core.ImplBroken) for r in res):
            bad = [r for r in res if isinstance(r, core.ImplBroken)][0]
            m = "c" if isinstance(res[0], core.ImplBroken) else "py"
            script = runner.isolate_crash(layer, lines, m, list(args)) or []
            fails.append(dict(layer=layer, script=script, message="the %s implementation crashes or does not terminate on the %s stream: %s" % (
                {"c": "C", "py": "Python"}[m], layer, str(bad)[-300:]), observed="<no answer>", other=""))
            continue
        c_out, py_out = res
        if layer == "reentry":
            import re
            c_out, py_out = [[re.sub(r" at 0x[0-9a-f]+", "", o) for o in outs] for outs in (c_out, py_out)]
        if layer == "life":
            fails += c10life.failures(lines, c_out, py_out, chk)      # independent oracle; the direct comparison follows
        total += len(lines)
        chk.count("lines_" + layer, len(lines))
        for i in core.first_diffs(lines, c_out, py_out, limit=40):
            if i >= len(lines):
                continue
            if layer == "odd":
                a, b = c_out[i].split(), py_out[i].split()
                diffs = [(x, y) for x, y in zip(a, b) if x != y]
                # the recorded divergence: comparing an interface with a foreign object whose __name__ / __module__ is not a string
                kind = int(lines[i].split()[1]) % 8
                if kind == 0 and diffs and all({x, y} <= {"True", "False", "!TypeError"} and "!TypeError" in (x, y) for x, y in diffs):
                    known.append(lines[i])
                    continue
                # the second recorded divergence: a garbage (non-specification) value planted in `__provides__`
                if kind == 1 and diffs and all((x, y) == ("!TypeError", "!AttributeError") for x, y in diffs):
                    known2.append(lines[i])
                    continue
            s, e = runner.script_of(lines, i, is_reset=lambda l: l.startswith(("reset", "prog")))
            fails.append(dict(layer=layer, script=lines[s:e], message="%s stream, %s: C accelerator answers %r, Python reference answers %r" % (
                layer, lines[i], c_out[i][:300], py_out[i][:300]), observed=c_out[i], other=py_out[i]))
            break
    # the declaration-query twins on real objects of every shape: each implementation against its own twin model, and against each other
    for f in spectwin.run(chk, tier, rnd, want=("c10",))[:3]:
        fails.append(f)
        chk.violation(f["message"], dict(kind="input", mode=f["mode"], layer="spectwin", script=f["script"], observed=f["observed"], expected=f["expected"],
                                         expected_by="the twin model (ZI.SpecTwin)" if f["kind"] == "model" else "the other implementation", minimised=True))
    if known:
        chk.violation("known", dict(), sig=KNOWN)
        chk.counters["known_finding_occurrences"] = len(known)
    if known2:
        chk.violation("known", dict(), sig="garbage-provides-exception-type")
        chk.counters["known_finding2_occurrences"] = len(known2)
    for f in [f for f in fails if "layer" in f][:3]:
        chk.violation(f["message"], dict(kind="history", mode="c-vs-py", layer=f["layer"], script=f["script"], observed=f["observed"],
                                         expected=f["other"], expected_by="the other implementation", minimised=False))
    core.lean_failure_violation(chk) if not fails else None
    chk.samples.append(["prog 12345 (odd-input API program, seed = 12345)", "one line of every other layer's protocol per operation"])
    return chk.finish(total * 2, chk.counters.get("lines_odd", 0),
                      "the generators of the graph, declarations, registry, world, comparison, adaptation, declaration-algebra and attribute layers plus seeded odd-input "
                      "API programs (foreign comparison operands, odd __provides__ / __providedBy__ / __implemented__ values, every lookup entry point with odd argument "
                      "forms, defaults and cache states on both registry flavours, adaptation with inherited custom __adapt__, odd declaration targets); C and Python traces "
                      "compared directly; distinct_nontrivial = odd-input programs")


def replay(path):
    rep = runner.load_replay(path)
    script = rep["script"]
    layer = rep.get("layer", "odd")
    if layer == "spectwin":
        if spectwin.replay_script(script, "C10"):
            print("VIOLATION property=C10 replay=%s" % path)
            return 1
        print("replay passes on the current tree")
        return 0
    a = core.run_impl(layer, script, "c")
    b = core.run_impl(layer, script, "py")
    bad = 0
    for l, x, y in zip(script, a, b):
        if x != y:
            bad += 1
            print("%s\n   C : %s\n   py: %s" % (l, x[:400], y[:400]))
    if layer == "life":
        for f in c10life.failures(script, a, b, None):
            bad += 1
            print(f["message"] + "\n   answer: " + f["observed"][:400])
    if bad:
        print("VIOLATION property=C10 replay=%s" % path)
        return 1
    print("replay passes on the current tree")
    return 0
