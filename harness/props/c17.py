"""C17 — verifyObject / verifyClass accept exactly the candidates meeting the contract.

Lean: ZI/Props/C17.lean.  Tie: the complete 64 x 64 grid of (interface signature, implementation signature) pairs with
req, opt in 0..3, *args?, **kw?, as plain function, bound method and class verification, plus random multi-member
interfaces (own and inherited names, attributes and methods, missing / opaque / non-callable / property candidates,
declared or not, tentative or not) — result, failure list and messages compared with the model on both twins.
Parameter NAMES are a dimension of their own (the contract is about call shapes, the model has no names): by role (`a…`
required, `b…` defaulted: names coincide only where the default-ness does), by position (`p0, p1, …`: the implementation
spells the interface's parameter list verbatim while its defaults, *args, **kw differ — the complete 64 x 64 grid again),
and the same names in the opposite order.
Oracle (inside the executor, independent of verify.py): inspect.signature(impl).bind on every admitted call shape."""
import itertools

from .. import core, runner

THEOREMS = ["ZI.Verify.C17_incompat_iff", "ZI.Verify.verifyElement_none_iff", "ZI.Verify.C17_verify", "ZI.Verify.C17_errors",
            "ZI.Verify.C17_failures_members", "ZI.Verify.incompat_iff"]

SIGS = ["%d.%d.%d.%d" % t for t in itertools.product(range(4), range(4), (0, 1), (0, 1))]


def gen_lines(rnd, tier):
    L = []
    for si in SIGS:
        for sc in SIGS:
            L.append("verify|o|1|0|1:M%s:F%s|0" % (si, sc))
            L.append("verify|o|1|0|1:M%s:G%s|0" % (si, sc))
            L.append("verify|c|1|0|1:M%s:G%s|0" % (si, sc))
        for k in (0, 1):
            # a method whose self is absorbed by *args
            L.append("verify|o|1|0|1:M%s:H0.0.1.%d|0" % (si, k))
            L.append("verify|c|1|0|1:M%s:H0.0.1.%d|0" % (si, k))
        for o, v, k in itertools.product(range(3), (0, 1), (0, 1)):
            # a method whose self has a default as well
            L.append("verify|o|1|0|1:M%s:D0.%d.%d.%d|0" % (si, o, v, k))
            L.append("verify|c|1|0|1:M%s:D0.%d.%d.%d|0" % (si, o, v, k))
    # the complete grid once more with the parameters named by position on both sides: wherever the two signatures have a
    # positional parameter in common it has the SAME name, whatever its default-ness (the usual way to write an
    # implementation: copy the interface's parameter list).  quick: the candidate kind rotates over the grid
    for i, si in enumerate(SIGS):
        for j, sc in enumerate(SIGS):
            kinds = ("o:F", "o:G", "c:G") if tier == "thorough" else (("o:F", "o:G", "c:G")[(i + j) % 3],)
            for kd in kinds:
                L.append("verify|%s|1|0|1:M%sp:%s%sp|0" % (kd[0], si, kd[2], sc))
        for o, v, k in itertools.product(range(3), (0, 1), (0, 1)):
            L.append("verify|%s|1|0|1:M%sp:D0.%d.%d.%dp|0" % ("oc"[(i + o + v + k) % 2], si, o, v, k))
    # static methods (class and instance verification): the function as it stands, nothing plays self
    for i, si in enumerate(SIGS):
        for j, sc in enumerate(SIGS):
            if tier == "thorough" or (i + j) % 2 == 0:
                L.append("verify|%s|1|0|1:M%s:%s%s|0" % ("co"[(i + j // 2) % 2] if tier != "thorough" else "c", si, "TJ"[(i // 2 + j) % 2] if tier != "thorough" else "T", sc))
                if tier == "thorough":
                    L.append("verify|c|1|0|1:M%s:J%s|0" % (si, sc))
                if tier == "thorough":
                    L.append("verify|o|1|0|1:M%s:T%s|0" % (si, sc))
    # ... and once with implementations that mark parameters positional-only (PEP 570 `/`), which changes no positional call shape
    for i, si in enumerate(SIGS):
        for j, sc in enumerate(SIGS):
            if sc.startswith("0.0."):
                continue
            kinds = ("o:F", "o:G", "c:G") if tier == "thorough" else (("o:F", "o:G", "c:G")[(i + 2 * j) % 3],)
            for kd in kinds:
                L.append("verify|%s|1|0|1:M%s:%s%s%s|0" % (kd[0], si, kd[2], sc, "st"[(i + j) % 2]))
    # methods bound to something other than the candidate (a classmethod through an instance; a borrowed bound method)
    for i, si in enumerate(SIGS):
        for j, sc in enumerate(SIGS):
            if tier == "thorough" or (i + 3 * j) % 4 == 0:
                L.append("verify|%s|1|0|1:M%s:K%s|0" % ("oc"[(i + j) % 2] if tier != "thorough" else "o", si, sc))
                L.append("verify|o|1|0|1:M%s:L%s|0" % (si, sc))
                if tier == "thorough":
                    L.append("verify|c|1|0|1:M%s:K%s|0" % (si, sc))
    # diamonds: the top of the diamond declares the method with ANOTHER signature, the second branch re-declares it
    for i, si in enumerate(SIGS):
        for j, sa in enumerate(SIGS):
            if si != sa and (tier == "thorough" or (i + 5 * j) % 8 == 0):
                sc = (si, sa)[(i + j) % 2]            # the implementation follows the nearer / the farther declaration
                L.append("verifyd|%s|1|0|1:M%s:G%s|0|M%s" % ("oc"[(i // 2 + j) % 2], si, sc, sa))
        L.append("verifyd|o|1|0|1:M%s:G%s|0|A" % (si, si))
        L.append("verifyd|o|1|0|1:A:N|0|M%s" % si)
    n = {"quick": 5000, "thorough": 40000}[tier]
    for _ in range(n):
        vt = rnd.choice("oc")
        k = rnd.randint(1, 5)
        elems = []
        inaming = rnd.choice(["", "p"])            # how the interface's methods name their parameters
        for j in range(1, k + 1):
            if rnd.random() < 0.3:
                d = "A"
                c = rnd.choice(["X", "X", "N", "N", "B", "P", "G0.0.0.0"])
            else:
                si = rnd.choice(SIGS)
                d = "M" + si
                r = rnd.random()
                if r < 0.2:
                    c = "X"
                elif r < 0.5:
                    c = ("G" if vt == "c" else rnd.choice("FG")) + si              # exactly matching
                elif r < 0.75:
                    c = ("G" if vt == "c" else rnd.choice("FG")) + rnd.choice(SIGS)
                else:
                    c = rnd.choice(["B", "N", "P"])
                d += inaming
                if c[0] in "FG":
                    # the implementation's names: the interface's own (verbatim over the common positions), the same
                    # names permuted, or unrelated ones (the other scheme)
                    c += rnd.choice(["p", "p", "p", "q", "", "s"]) if inaming else rnd.choice(["", "", "", "p", "q", "s", "t"])
            elems.append("%d%s:%s:%s" % (j, "z" if rnd.random() < 0.15 else "", d, c))
        if rnd.random() < 0.12:
            # the diamond: the top declares the first `na` members otherwise (another signature, or the other kind of description)
            na = rnd.randint(1, k)
            alts = [rnd.choice(["A", "M" + rnd.choice(SIGS), "M" + rnd.choice(SIGS)]) for _ in range(na)]
            L.append("verifyd|%s|%d|%d|%s|%d|%s" % (vt, rnd.random() < 0.4, rnd.random() < 0.6, ";".join(e.replace("z:", ":") for e in elems), 0, ";".join(alts)))
        elif k >= 2 and rnd.random() < 0.3:
            # verified, then an ancestor is given a further base that brings the first `nextra` members, then verified again
            nextra = rnd.randint(1, k - 1)
            L.append("verify2|%s|%d|%d|%s|%d|%d" % (vt, rnd.random() < 0.4, rnd.random() < 0.6, ";".join(elems), rnd.randint(0, k - nextra), nextra))
        else:
            dcl = int(rnd.random() < 0.6)
            if dcl and vt == "o" and rnd.random() < 0.3:
                dcl = 2            # declared on the instance only (slots class without __dict__)
            L.append("verify|%s|%d|%d|%s|%d" % (vt, rnd.random() < 0.4, dcl, ";".join(elems), rnd.randint(0, k)))
    return L


def run_model(lines):
    """verify2 lines are two verifications for the model: without and with the members the re-basing brings"""
    ml, idx = [], []
    for l in lines:
        f = l.split("|")
        if f[0] == "verify2":
            es = f[4].split(";")
            ml.append(to_model("|".join(["verify"] + f[1:4] + [";".join(es[int(f[6]):])])))
            ml.append(to_model("|".join(["verify"] + f[1:5])))
            idx.append(2)
        else:
            ml.append(to_model(l))
            idx.append(1)
    out = core.run_model("verify", ml)
    res, p = [], 0
    for n in idx:
        res.append(" ## ".join(out[p:p + n]))
        p += n
    return res


def to_model(line):
    f = line.split("|")
    es = []
    for e in f[4].split(";"):
        n, d, c = e.split(":")
        n = n.rstrip("z")            # listed under an alias: the contract is about the listed name
        d, c = d.rstrip("pq"), c.rstrip("pqst")          # parameter names / positional-only markers: the model (call shapes, arities) has none
        if c == "P" and f[1] == "o":
            c = "N"            # on an instance the property has been evaluated: a plain (non-callable) value
        if d == "A" and c != "X":
            c = "N"            # any present attribute
        if c[0] == "D":
            c = "G" + c[1:]    # the signature left once the (defaulted) self is dropped
        if c[0] in "TJ":
            c = "F" + c[1:]    # a static method (own or inherited): the function as it stands
        if c[0] in "KL":
            c = "G" + c[1:]    # bound to the class / to another object: the signature left once the bound first parameter is dropped
        es.append("%s:%s:%s" % (n, d, c))
    f[3] = "1" if f[3] == "2" else f[3]
    f[0] = "verify"            # (a diamond is, for the model, the nearest declarations)
    return "|".join(f[:4] + [";".join(es)])


def strip_codes(s):
    return " ".join(":".join(t.split(":")[:2]) if t.startswith("BM:") else t for t in s.split())


class _Null:
    def count(self, *a, **k):
        pass


def count_naming(chk, line):
    """evidence for the parameter-naming dimension: how the implementation's positional names relate to the interface's"""
    for e in line.split("|")[4].split(";"):
        n, d, c = e.split(":")
        if d[0] != "M" or c[0] not in "FGD":
            if c[0] in "TJKL":
                chk.count({"T": "static_method_candidates", "J": "inherited_static_method_candidates", "K": "classmethod_candidates",
                           "L": "borrowed_bound_method_candidates"}[c[0]])
            continue
        if c[-1] in "st":
            chk.count("implementations_with_positional_only_parameters")
            continue
        dn, cn = d[-1] if d[-1] in "pq" else "", c[-1] if c[-1] in "pq" else ""
        (ri, oi, vi, ki), (rc, oc, vc, kc) = [tuple(int(x) for x in t.rstrip("pq")[1:].split(".")) for t in (d, c)]
        if c[0] == "D":
            rc, oc = 0, oc            # what is left once the defaulted self is dropped
        if dn and dn == cn:
            chk.count("names_verbatim")
            if ri + oi == rc + oc:
                chk.count("names_verbatim_same_parameter_list")
                if (ri, oi) != (rc, oc):
                    chk.count("names_verbatim_same_parameter_list_other_defaults")
                    if (vi, ki) == (vc, kc):
                        chk.count("names_verbatim_same_list_same_stars_" + ("more" if rc > ri else "fewer") + "_required")
        elif dn and cn:
            chk.count("names_permuted")
        elif dn or cn:
            chk.count("names_unrelated")
        else:
            chk.count("names_by_role")


def judge(chk, lines, outs):
    bad = []
    for i, (l, o) in enumerate(zip(lines, outs)):
        if " || " not in o:
            bad.append((i, "%s -> %s" % (l, o)))
            continue
        got, want = o.split(" || ")
        chk.count("verifications_judged")
        count_naming(chk, l)
        if "ORDER-MISMATCH" in want:
            bad.append((i, "%s: namesAndDescriptions(all=True) does not list inherited names first then own names in definition order: %s" % (l, want)))
            continue
        if l.startswith("verify2"):
            chk.count("verified_again_after_rebasing")
        for got1, want1 in zip(got.split(" ## "), want.split(" ## ")):
            g = strip_codes(got1).split()
            w = want1.split()
            if g[0] != w[0] or sorted(g[1:]) != sorted(w[1:]):
                bad.append((i, "%s: verification result %r, the contract (declared / attributes present / every admitted call shape binds) gives %r" % (l, got, want)))
                break
            if w[0] == "multi":
                chk.count("multiple_failures")
            if w[0] != "ok":
                chk.count("rejections")
    return bad


def check(tier):
    chk = core.Check("C17", tier)
    chk.obligations(THEOREMS)
    rnd = core.rng("C17")
    lines = gen_lines(rnd, tier)
    model = run_model(lines)
    divs, fails = [], []
    modes = ("c", "py")
    outs = runner.run_impl_parallel("verify", lines, [(m, ()) for m in modes])            # the two twins side by side
    for m, out in zip(modes, outs):
        try:
            if isinstance(out, core.ImplBroken):
                raise out
        except core.ImplBroken as e:
            divs.append(dict(mode=m, index=-1, line="", impl="<implementation could not be run: %s>" % str(e)[-1200:], model="", script=[], label="verify"))
            continue
        chk.count("lines_%s" % m, len(lines))
        for i in core.first_diffs(lines, [o.split(" || ")[0] for o in out], model, limit=5):
            divs.append(dict(mode=m, index=i, line=lines[i] if i < len(lines) else "<length>", impl=out[i] if i < len(out) else "<missing>",
                             model=model[i] if i < len(model) else "<missing>", script=[lines[i]] if i < len(lines) else [], label="verify"))
        for idx, msg in judge(chk if m == "c" else _Null(), lines, out):
            fails.append(dict(mode=m, script=[lines[idx]], message=msg, observed=out[idx]))
    seen = set()
    for f in fails:
        k = f["script"][0].split("|")[1] + f["message"].split(": ", 1)[-1][:30]
        if k in seen or len(seen) >= 3:
            continue
        seen.add(k)
        chk.violation("%s [mode=%s]" % (f["message"], f["mode"]),
                      dict(kind="input", mode=f["mode"], script=f["script"], observed=f["observed"], expected_by="spec", minimised=True))
    if not fails:
        runner.report_divergences(chk, divs, "verification-layer correspondence (ZI.Verify.verify / incompat vs verify.py); theorems C17_incompat_iff, C17_verify, C17_errors",
                                  "inspect.signature.bind oracle accepted all %d verifications" % chk.counters.get("verifications_judged", 0))
        core.lean_failure_violation(chk)
    core.source_obligation_violation(chk, core.source_obligations(chk, ["incompat_src_eq"]), fails)
    chk.samples.extend([lines[5], lines[7000], next(l for l in lines if l.endswith("p|0")), lines[-1]])
    return chk.finish(len(lines) * 2, chk.counters.get("multiple_failures", 0),
                      "COMPLETE grid of 64 x 64 (interface, implementation) signature pairs (req, opt in 0..3, *args?, **kw?) x {function attribute, bound method, "
                      "class verification} + random multi-member interfaces with inherited names, attributes, missing / opaque / non-callable / property candidates, "
                      "declared?/tentative?; parameter names by role / by position (interface's list spelled verbatim: complete grid again) / permuted; both twins; distinct_nontrivial = verifications that must report several failures at once",
                      dict(exhaustive_part="all 4096 signature pairs x 3 candidate kinds (names by role); all 4096 pairs again with the parameters named by position "
                                           "on both sides (quick: candidate kind rotating; thorough: x 3 kinds)"))


def replay(path):
    rep = runner.load_replay(path)
    script = rep["script"]
    mode = rep.get("mode", "c")
    out = core.run_impl("verify", script, mode)
    model = run_model(script)
    bad = judge(_Null(), script, out)
    for l, o, m in zip(script, out, model):
        print("%s\n   impl || oracle: %s\n   model: %s" % (l, o, m))
    if bad or [o.split(" || ")[0] for o in out] != model:
        print("VIOLATION property=C17 replay=%s" % path)
        return 1
    print("replay passes on the current tree")
    return 0
