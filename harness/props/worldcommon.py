"""Generator for the integrated world layer (C05, C19): interfaces, classes, instances, declaration calls, registry
chains of either flavour, required keys of all four kinds, every lookup entry point.  Guard G-provided: the interfaces
used as *provided* (1, 2 and their ancestors) are never re-based."""
from . import c03

NAMES = ["", "a"]


class WorldGen:
    def __init__(self, rnd, tier, profile):
        self.rnd = rnd
        self.tier = tier
        self.p = profile
        self.vid = 0

    def script(self, verifying):
        rnd, P = self.rnd, self.p
        big = self.tier == "thorough"
        L = ["resetfixed|%d" % verifying]
        n = rnd.randint(3, 6)
        ib = {0: []}
        for i in range(1, n + 1):
            for _ in range(8):
                bs = rnd.sample(range(1, i), min(i - 1, rnd.choice([0, 1, 1, 2])))
                b2 = dict(ib)
                b2[i] = bs or [0]
                if c03.cpython_mirror_mro(b2, i) is not None:
                    break
            else:
                bs = []
            ib[i] = bs or [0]
            L.append("iface|%d|%s" % (i, " ".join(map(str, bs))))

        def anc(j):
            return c03.reach(ib, j) - {j, 0}

        PROV = [1, 2]
        fixed = set(PROV) | anc(1) | anc(2)
        pycls, cb = {0: object}, {}
        for c in range(1, rnd.randint(*P.get("nclasses", (2, 4))) + 1):
            for _ in range(8):
                bs = rnd.sample(list(cb), min(len(cb), rnd.choice([0, 1, 1, 2, 2])))
                try:
                    pycls[c] = type("K%d" % c, tuple(pycls[b] for b in bs) or (object,), {})
                    break
                except TypeError:
                    continue
            else:
                bs = []
                pycls[c] = type("K%d" % c, (object,), {})
            cb[c] = bs
            L.append("class|%d|%s" % (c, " ".join(map(str, bs))))
        inv_cls = {v: k for k, v in pycls.items()}
        objs = {}
        for o in range(1, rnd.randint(1, 4) + 1):
            objs[o] = rnd.choice(list(cb))
            L.append("inst|%d|%d" % (o, objs[o]))
            if rnd.random() < P.get("idecl", 0.15):
                L.append("idecl|%d|%d" % (o, rnd.randint(1, n)))
        # registries: a chain (optionally with a side registry for re-basing)
        nr = rnd.randint(*P.get("nregs", (2, 3)))
        rb = {}
        for r in range(nr):
            bs = [r - 1] if r and rnd.random() < 0.85 else []
            rb[r] = bs
            L.append("newreg|%d|%s" % (r, " ".join(map(str, bs))))

        def mro_after(o):
            """classes (ids) that may be named as C in super(C, ob): every class of the MRO except object"""
            return [inv_cls[k] for k in pycls[objs[o]].__mro__[:-1]]

        def keytok(kinds=None):
            k = rnd.random()
            w = kinds or P.get("keyweights", (0.4, 0.15, 0.3, 0.15))
            if rnd.random() < P.get("rootkeys", 0.06):
                return rnd.choice(["e", "i0"])        # the empty declaration / Interface itself as a required specification
            if k < w[0]:
                return "i%d" % rnd.randint(1, n)
            if k < w[0] + w[1]:
                return "c%d" % rnd.choice(list(cb))
            o = rnd.choice(list(objs))
            if k < w[0] + w[1] + w[2]:
                return "o%d" % o
            return "s%d.%d" % (rnd.choice(mro_after(o)), o)

        def objtok():
            o = rnd.choice(list(objs))
            if rnd.random() < P.get("superobj", 0.3):
                return "s%d.%d" % (rnd.choice(mro_after(o)), o)
            return "o%d" % o

        live = []          # (kind, r, toks, p, name, (vid, eq))

        def val():
            self.vid += 1
            return (self.vid, rnd.randint(1, 3))

        def queries(q, toks, p, name, objtoks=None):
            ts = " ".join(toks)
            qs = ["lookup|%d|%s|%d|%s" % (q, ts, p, name), "lookupAll|%d|%s|%d" % (q, ts, p), "subs|%d|%s|%d" % (q, ts, p)]
            if len(toks) == 1:
                qs.append("lookup1|%d|%s|%d|%s" % (q, ts, p, name))
            if rnd.random() < 0.4:
                qs.append("names|%d|%s|%d" % (q, ts, p))
            if all(t[0] in "os" for t in toks) and toks:
                if len(toks) == 1:
                    qs.append("qadapter|%d|%s|%d|%s|%s" % (q, ts, p, name, rnd.choice("qh")))
                qs.append("qadapter|%d|%s|%d|%s|m" % (q, ts, p, name))
                qs.append("subscribers|%d|%s|%d" % (q, ts, p))
            rnd.shuffle(qs)
            if rnd.random() < P.get("single_entry", 0.15):
                return qs[:1]              # this entry point alone must notice whatever happens next
            return qs[:rnd.randint(2, len(qs))]

        def place(t, toks):
            """put the token whose specification is about to change at a random position of a key of arity 1-3
            (a later position matters: the lookup object subscribes to each required specification separately)"""
            rest = list(toks[1:]) if len(toks) > 1 else []
            if not rest and rnd.random() < 0.5:
                rest = [keytok() for _ in range(rnd.choice([1, 1, 2]))]
            out = rest[:]
            out.insert(rnd.randint(0, len(rest)), t)
            return out

        def hot_for(toks, p, name, keep=False, affected=None):
            q = rnd.randrange(nr)
            t2 = list(toks)
            if t2 and not keep and rnd.random() < 0.5:
                j = rnd.randrange(len(t2))
                t2[j] = objtok() if rnd.random() < 0.6 else keytok()
            qs = queries(q, t2, p if rnd.random() < 0.8 else rnd.choice(PROV), name)
            if keep and len(t2) > 1 and rnd.random() < 0.7:
                # the other required specifications have been looked up on their own before (the lookup object is
                # already their dependent); the one about to change has not necessarily
                others = [t for jj, t in enumerate(t2) if jj != (affected if affected is not None else len(t2) - 1)]
                warm = ["lookup1|%d|%s|%d|%s" % (q, t, p, name) for t in others if rnd.random() < 0.8]
                return warm + qs
            return qs

        multi = [i for i in range(1, n + 1) if i not in fixed and len([b for b in ib[i] if b]) >= 2]
        if multi and rnd.random() < 0.6:
            # adapters for each base of an interface with several bases: their precedence follows the order of the bases
            i = rnd.choice(multi)
            p0, nm0 = rnd.choice(PROV), rnd.choice(NAMES)
            for b in ib[i]:
                v = val()
                L.append("reg|0|i%d|%d|%s|%d %d" % (b, p0, nm0, v[0], v[1]))
                live.append(("reg", 0, ("i%d" % b,), p0, nm0, v))
                v = val()
                L.append("sub|0|i%d|%d|%d %d" % (b, p0, v[0], v[1]))
                live.append(("sub", 0, ("i%d" % b,), p0, nm0, v))
            live.append(("reg", 0, ("i%d" % i,), p0, nm0, (0, 0)))
        carry = []
        layout = set()

        def emit(hot, line):
            """the mutation bracketed by the same queries before and after; with probability `quiet` the queries after
            it are postponed until after the *next* mutation (two mutations with no lookup in between)"""
            if not carry:
                L.extend(hot)
            L.append(line)
            if rnd.random() < P.get("quiet", 0.15) and len(carry) < 12:
                carry.extend(hot)
                return False
            L.extend(hot)
            L.extend(carry)
            del carry[:]
            return True

        st = dict(nr=nr)

        def scen_hit():
            """a lookup that HITS, then a change of the required specification (not of the registry) after which another
            registration must win, then the same lookup — nothing else through that lookup object in between"""
            r = rnd.randrange(st["nr"])
            p, nm = rnd.choice(PROV), rnd.choice(NAMES)
            a, b = rnd.sample(range(1, n + 1), 2) if n >= 2 else (1, 1)
            rest = ["i%d" % rnd.randint(1, n)] if rnd.random() < 0.35 else []
            pos = rnd.randint(0, len(rest))
            v1, v2 = val(), val()

            def at(t):
                ts = rest[:]
                ts.insert(pos, t)
                return ts
            lines = []
            for x, v in ((a, v1), (b, v2)):
                lines.append("reg|%d|%s|%d|%s|%d %d" % (r, " ".join(at("i%d" % x)), p, nm, v[0], v[1]))
                live.append(("reg", r, tuple(at("i%d" % x)), p, nm, v))
            ys = [y for y in range(1, n + 1) if y not in fixed and y not in (a, b) and y not in c03.reach(ib, a) and y not in c03.reach(ib, b)]
            if ys and rnd.random() < 0.4:
                y = rnd.choice(ys)
                down = {jj for jj in range(1, n + 1) if y in c03.reach(ib, jj)}
                b1, b2_ = dict(ib), dict(ib)
                b1[y], b2_[y] = [a], [b]
                if (a in down or b in down or not all(c03.cpython_mirror_mro(b1, jj) is not None for jj in down)
                        or not all(c03.cpython_mirror_mro(b2_, jj) is not None for jj in down)):
                    return
                ib[y] = [b]
                tok = "i%d" % rnd.choice(sorted(down))
                first, change = "isetbases|%d|%d" % (y, a), "isetbases|%d|%d" % (y, b)
            else:
                c = rnd.choice(list(cb))
                os2 = [o for o in objs if objs[o] == c]
                tok = "o%d" % rnd.choice(os2) if os2 and rnd.random() < 0.75 else "c%d" % c
                first, change = "only|%d|%d" % (c, a), rnd.choice(["first|%d|%d", "only|%d|%d"]) % (c, b)
            ts = " ".join(at(tok))
            kinds_ = ["lookup|%d|%s|%d|%s" % (r, ts, p, nm)]
            if not rest:
                kinds_.append("lookup1|%d|%s|%d|%s" % (r, ts, p, nm))
            if tok[0] == "o" and not rest:
                kinds_ += ["qadapter|%d|%s|%d|%s|%s" % (r, ts, p, nm, v) for v in "qhm"]
            q = rnd.choice(kinds_)
            lines += [first, q]
            if rnd.random() < 0.3:
                lines.append(q)
            lines += [change, q, "lookupAll|%d|%s|%d" % (r, ts, p)]
            L.extend(lines)

        def scen_rbases_spec():
            """a registry answers a lookup for R; a registry above it is re-based; R changes; the same lookup again —
            with no lookup between the last two changes"""
            cand = [y for y in range(1, n + 1) if y not in fixed]
            if not cand:
                return
            y = rnd.choice(cand)
            mid = rnd.randrange(st["nr"])
            other, low = st["nr"], st["nr"] + 1
            depth = rnd.random() < 0.4
            st["nr"] += 2 + depth
            p, nm = rnd.choice(PROV), rnd.choice(NAMES)
            v = val()
            L.append("newreg|%d|" % other)
            if depth:
                L.append("newreg|%d|%d" % (low + 1, mid))
                L.append("newreg|%d|%d" % (low, low + 1))
                rb[low + 1], rb[low] = [mid], [low + 1]
            else:
                L.append("newreg|%d|%d" % (low, mid))
                rb[low] = [mid]
            rb[other] = []
            late = rnd.random() < 0.45
            q = rnd.choice(["lookup|%d|i%d|%d|%s" % (low, y, p, nm), "lookupAll|%d|i%d|%d" % (low, y, p), "lookup1|%d|i%d|%d|%s" % (low, y, p, nm)])
            if late:
                # ... or: the registry above is re-based FIRST, the registry below answers once (the round in which it takes
                # note of its new ancestors), and only then the newly reachable registry gets the registration
                L.append(q)
                rb[mid] = rb[mid] + [other]
                L.append("rbases|%d|%s" % (mid, " ".join(map(str, rb[mid]))))
                L.append(q)
                L.append(("sub|%d|i%d|%d|%d %d" if rnd.random() < 0.3 else "reg|%d|i%d|%d|" + nm + "|%d %d") % (other, y, p, v[0], v[1]))
                L.append(q)
                L.append("lookup|%d|i%d|%d|%s" % (low, y, p, nm))
                L.append("subs|%d|i%d|%d" % (low, y, p))
                return
            L.append("reg|%d|i%d|%d|%s|%d %d" % (other, y, p, nm, v[0], v[1]))
            live.append(("reg", other, ("i%d" % y,), p, nm, v))
            L.append(q)
            rb[mid] = rb[mid] + [other]
            L.append("rbases|%d|%s" % (mid, " ".join(map(str, rb[mid]))))
            if rnd.random() < 0.85:
                L.append("isetbases|%d|%s" % (y, " ".join(str(b) for b in ib[y] if b)))     # same bases: still a change notification
            L.append(q)
            L.append("lookup|%d|i%d|%d|%s" % (low, y, p, nm))

        def scen_rebuild():
            """a base registry is rebuilt and then mutated a chosen number of times with no lookup on the registry below"""
            base = rnd.randrange(st["nr"])
            sub_ = st["nr"]
            st["nr"] += 1
            rb[sub_] = [base]
            L.append("newreg|%d|%d" % (sub_, base))
            p = rnd.choice(PROV)
            use_subs = rnd.random() < 0.4
            L.append("rebuild|%d" % base)
            k = rnd.choice([1, 1, 2, 3])
            y = rnd.randint(1, n)
            for _ in range(k):
                v = val()
                if use_subs:
                    L.append("sub|%d|i%d|%d|%d %d" % (base, y, p, v[0], v[1]))
                    L.append("unsub|%d|i%d|%d|0 %d" % (base, y, p, v[1]))
                else:
                    L.append("reg|%d|i%d|%d|zz|%d %d" % (base, y, p, v[0], v[1]))
                    L.append("unreg|%d|i%d|%d|zz" % (base, y, p))
            q = ("subs|%d|i%d|%d" % (sub_, y, p)) if use_subs else ("lookupAll|%d|i%d|%d" % (sub_, y, p))
            L.append(q)
            L.append("rebuild|%d" % base)
            for j in range(rnd.choice([2 * k, 2 * k, 2 * k, 2 * k - 1, 2 * k + 1, k])):
                v = val()
                if use_subs:
                    L.append("sub|%d|i%d|%d|%d %d" % (base, y, p, v[0], v[1]))
                    live.append(("sub", base, ("i%d" % y,), p, "", v))
                else:
                    L.append("reg|%d|i%d|%d|n%d|%d %d" % (base, y, p, j, v[0], v[1]))
                    live.append(("reg", base, ("i%d" % y,), p, "n%d" % j, v))
            L.append(q)

        def scen_multi():
            """a key of two or three required specifications of which the earlier ones have been looked up before (the
            lookup object already watches them) and a later one has not; then only that later one changes"""
            r = rnd.randrange(st["nr"])
            p, nm = rnd.choice(PROV), rnd.choice(NAMES)
            cand = [y for y in range(1, n + 1) if y not in fixed]
            b0 = rnd.randint(1, n)
            ys = [y for y in cand if y != b0 and y not in c03.reach(ib, b0)]
            ar = rnd.choice([2, 2, 3])
            early = [keytok() for _ in range(ar - 1)]
            v = val()
            use_class = not ys or rnd.random() < 0.5
            if use_class:
                c = rnd.choice(list(cb))
                os2 = [o for o in objs if objs[o] == c]
                late = "o%d" % rnd.choice(os2) if os2 and rnd.random() < 0.7 else "c%d" % c
                change = "%s|%d|%d" % (rnd.choice(["add", "first", "only"]), c, b0)
            else:
                y = rnd.choice(ys)
                down = {jj for jj in range(1, n + 1) if y in c03.reach(ib, jj)}
                b2 = dict(ib)
                b2[y] = [b0] + [b for b in ib[y] if b and b != b0]
                if b0 in down or not all(c03.cpython_mirror_mro(b2, jj) is not None for jj in down):
                    return
                ib[y] = b2[y]
                late = "i%d" % rnd.choice(sorted(down))
                change = "isetbases|%d|%s" % (y, " ".join(map(str, b2[y])))
            pos = rnd.randint(1, ar - 1)
            regkey = early[:pos] + ["i%d" % b0] + early[pos:]
            qkey = early[:pos] + [late] + early[pos:]
            if rnd.random() < P.get("scen_multi_sub", 0.4):
                # the same with a SUBSCRIPTION under the multi-position key, asked through subscriptions() / subscribers()
                L.append("sub|%d|%s|%d|%d %d" % (r, " ".join(regkey), p, v[0], v[1]))
                live.append(("sub", r, tuple(regkey), p, "", v))
                for t in early[:pos]:
                    L.append(rnd.choice(["subs|%d|%s|%d" % (r, t, p), "lookup|%d|%s|%d|%s" % (r, t, p, nm), "lookupAll|%d|%s|%d" % (r, t, p)]))
                # ... or the earlier positions became watched through ANOTHER multi-position query that shares them
                if rnd.random() < 0.5:
                    other = early[:pos] + [keytok()] + early[pos:]
                    L.append("subs|%d|%s|%d" % (r, " ".join(other), p))
                kinds_ = ["subs|%d|%s|%d" % (r, " ".join(qkey), p)]
                if all(t[0] in "os" for t in qkey):
                    kinds_.append("subscribers|%d|%s|%d" % (r, " ".join(qkey), p))
                q = rnd.choice(kinds_)
                L.extend([q, change, q])
                return
            L.append("reg|%d|%s|%d|%s|%d %d" % (r, " ".join(regkey), p, nm, v[0], v[1]))
            live.append(("reg", r, tuple(regkey), p, nm, v))
            for t in early[:pos]:
                L.append(rnd.choice(["lookup1|%d|%s|%d|%s" % (r, t, p, nm), "lookup|%d|%s|%d|%s" % (r, t, p, nm), "lookupAll|%d|%s|%d" % (r, t, p)]))
            if rnd.random() < 0.4:
                other = early[:pos] + [keytok()] + early[pos:]
                L.append("lookup|%d|%s|%d|%s" % (r, " ".join(other), p, nm))
            kinds_ = ["lookup|%d|%s|%d|%s" % (r, " ".join(qkey), p, nm), "lookupAll|%d|%s|%d" % (r, " ".join(qkey), p)]
            if all(t[0] in "os" for t in qkey):
                kinds_.append("qadapter|%d|%s|%d|%s|m" % (r, " ".join(qkey), p, nm))
            q = rnd.choice(kinds_)
            L.extend([q, change, q])

        def scen_cold_super():
            """the first interface query that touches a new subclass S(P, Mixin) goes through super(P, instance-of-S),
            after super(P, instance-of-P) has been answered"""
            ps = [c for c in cb if c not in layout]       # instances of a slots-only class cannot carry declarations
            pc = rnd.choice(ps)
            m_id, s_id = max(cb) + 1, max(cb) + 2
            o1, o2 = max(objs) + 1, max(objs) + 2
            try:
                pycls[m_id] = type("K%d" % m_id, (object,), {})
                pycls[s_id] = type("K%d" % s_id, (pycls[pc], pycls[m_id]), {})
            except TypeError:
                return
            cb[m_id], cb[s_id] = [], [pc, m_id]
            inv_cls[pycls[m_id]], inv_cls[pycls[s_id]] = m_id, s_id
            L.append("class|%d|" % m_id)
            L.append("%s|%d|%d" % (rnd.choice(["add", "only"]), m_id, rnd.randint(1, n)))
            if rnd.random() < 0.5:
                L.append("add|%d|%d" % (pc, rnd.randint(1, n)))
            L.append("inst|%d|%d" % (o1, pc))
            objs[o1] = pc
            L.append("prov|s%d.%d" % (pc, o1))
            L.append("class|%d|%d %d" % (s_id, pc, m_id))
            L.append("inst|%d|%d" % (o2, s_id))
            objs[o2] = s_id
            L.append("prov|s%d.%d" % (pc, o2))
            L.append("prov|o%d" % o2)
            if rnd.random() < 0.6:
                # a second leaf mixing the same class with ANOTHER mixin: what follows P in its MRO differs
                m2, s2, o3 = max(cb) + 1, max(cb) + 2, max(objs) + 1
                try:
                    pycls[m2] = type("K%d" % m2, (object,), {})
                    pycls[s2] = type("K%d" % s2, (pycls[pc], pycls[m2]), {})
                except TypeError:
                    return
                cb[m2], cb[s2] = [], [pc, m2]
                inv_cls[pycls[m2]], inv_cls[pycls[s2]] = m2, s2
                L.append("class|%d|" % m2)
                L.append("add|%d|%d" % (m2, rnd.randint(1, n)))
                L.append("class|%d|%d %d" % (s2, pc, m2))
                L.append("inst|%d|%d" % (o3, s2))
                objs[o3] = s2
                L.append("prov|s%d.%d" % (pc, o3))
                L.append("prov|s%d.%d" % (pc, o2))
                L.append("prov|o%d" % o3)

        def scen_entry():
            """one entry point alone, on a registry below the one that changes: asked, base mutated, asked, base
            mutated back, asked — nothing else touches the lower registry's lookup object in between"""
            base = rnd.randrange(st["nr"])
            sub_ = st["nr"]
            st["nr"] += 1
            rb[sub_] = [base]
            L.append("newreg|%d|%d" % (sub_, base))
            o = rnd.choice(list(objs))
            self.vid += 1
            x, p, nm = rnd.randint(1, n), rnd.choice(PROV), "e%d" % self.vid       # a name nothing else is registered under
            L.append("dp|%d|%d" % (o, x))
            eps = ["lookup|%d|o%d|%d|%s" % (sub_, o, p, nm), "lookup1|%d|o%d|%d|%s" % (sub_, o, p, nm), "lookupAll|%d|o%d|%d" % (sub_, o, p),
                   "names|%d|o%d|%d" % (sub_, o, p), "qadapter|%d|o%d|%d|%s|q" % (sub_, o, p, nm), "qadapter|%d|o%d|%d|%s|h" % (sub_, o, p, nm),
                   "qadapter|%d|o%d|%d|%s|m" % (sub_, o, p, nm), "subs|%d|o%d|%d" % (sub_, o, p), "subscribers|%d|o%d|%d" % (sub_, o, p)]
            q = rnd.choice(eps)
            v = val()
            while v[0] % 4 == 0:
                v = val()              # a factory that returns an object (identity 0 mod 4 = a factory returning None)
            if q.startswith("subs"):
                m1 = "sub|%d|i%d|%d|%d %d" % (base, x, p, v[0], v[1])
                m2 = "unsub|%d|i%d|%d|0 %d" % (base, x, p, v[1])
            else:
                m1 = "reg|%d|i%d|%d|%s|%d %d" % (base, x, p, nm, v[0], v[1])
                m2 = "unreg|%d|i%d|%d|%s" % (base, x, p, nm)
            L.extend([q, m1, q, m2, q])

        def scen_layout_super():
            """a leaf class S(Mixin, Layout) whose layout-carrying base (non-empty __slots__) is NOT its first base, and
            super(S, instance-of-S): everything after S in the MRO, the plain mixin included"""
            m_id, l_id, s_id = max(cb) + 1, max(cb) + 2, max(cb) + 3
            o = max(objs) + 1
            try:
                pycls[m_id] = type("K%d" % m_id, (object,), {})
                pycls[l_id] = type("K%d" % l_id, (object,), {"__slots__": ("slot",)})
                pycls[s_id] = type("K%d" % s_id, (pycls[m_id], pycls[l_id]), {})
            except TypeError:
                return
            cb[m_id], cb[l_id], cb[s_id] = [], [], [m_id, l_id]
            layout.add(l_id)
            for k in (m_id, l_id, s_id):
                inv_cls[pycls[k]] = k
            L.append("class|%d|" % m_id)
            L.append("class|%d||s" % l_id)
            L.append("add|%d|%d" % (m_id, rnd.randint(1, n)))
            if rnd.random() < 0.6:
                L.append("add|%d|%d" % (l_id, rnd.randint(1, n)))
            L.append("class|%d|%d %d" % (s_id, m_id, l_id))
            L.append("inst|%d|%d" % (o, s_id))
            objs[o] = s_id
            L.append("prov|s%d.%d" % (s_id, o))
            L.append("prov|s%d.%d" % (m_id, o))
            L.append("prov|o%d" % o)

        def scen_shared_decl():
            """two instances of one class are given the same interface directly, the class starting to implement it in
            between (the declaration the first one holds may or may not be the one the second one gets); then the interface
            is re-based: BOTH instances provide what it extends now"""
            cand = [y for y in range(1, n + 1) if y not in fixed]
            if not cand or len(objs) >= 7:
                return
            y = rnd.choice(cand)
            down = {j for j in range(1, n + 1) if y in c03.reach(ib, j)}
            pool = [j for j in range(1, n + 1) if j not in down and j not in c03.reach(ib, y)]
            if not pool:
                return
            z = rnd.choice(pool)
            cur = [b for b in ib[y] if b]
            bs = cur + [z] if rnd.random() < 0.5 else [z] + cur
            b2 = dict(ib)
            b2[y] = bs
            if not all(c03.cpython_mirror_mro(b2, j) is not None for j in down):
                return
            plain = [c_ for c_ in cb if c_ not in layout]           # (instances of the slotted layout classes cannot carry a declaration)
            if not plain:
                return
            k = rnd.choice(plain)
            o1, o2 = max(objs) + 1, max(objs) + 2
            objs[o1] = objs[o2] = k
            L.extend(["inst|%d|%d" % (o1, k), "inst|%d|%d" % (o2, k), "dp|%d|%d" % (o1, y)])
            if rnd.random() < 0.8:
                L.append("%s|%d|%d" % (rnd.choice(["add", "add", "first"]), k, y))
            L.append("dp|%d|%d" % (o2, y))
            r = rnd.randrange(st["nr"])
            p, nm = rnd.choice(PROV), rnd.choice(NAMES)
            v = val()
            L.append("reg|%d|i%d|%d|%s|%d %d" % (r, z, p, nm, v[0], v[1]))
            live.append(("reg", r, ("i%d" % z,), p, nm, v))
            q1 = "lookup|%d|o%d|%d|%s" % (r, o1, p, nm)
            if rnd.random() < 0.5:
                L.append(q1)
            ib[y] = bs
            L.append("isetbases|%d|%s" % (y, " ".join(map(str, bs))))
            L.extend(["prov|o%d" % o1, "prov|o%d" % o2, q1, "lookup|%d|o%d|%d|%s" % (r, o2, p, nm)])

        def scen_addspec():
            """a class declares another class's specification (no interface of its own involved): registrations keyed by
            the helper's specification start to apply to the class, its subclasses and instances"""
            c = rnd.choice([k for k in cb if k not in layout])
            h_id = max(cb) + 1
            try:
                pycls[h_id] = type("K%d" % h_id, (object,), {})
            except TypeError:
                return
            cb[h_id] = []
            inv_cls[pycls[h_id]] = h_id
            r = rnd.randrange(st["nr"])
            p, nm = rnd.choice(PROV), rnd.choice(NAMES)
            v = val()
            os2 = [o for o in objs if c in [inv_cls[z] for z in pycls[objs[o]].__mro__[:-1]]]
            tok = "o%d" % rnd.choice(os2) if os2 and rnd.random() < 0.6 else "c%d" % c
            q = rnd.choice(["lookup|%d|%s|%d|%s" % (r, tok, p, nm), "lookupAll|%d|%s|%d" % (r, tok, p), "lookup1|%d|%s|%d|%s" % (r, tok, p, nm)])
            L.append("class|%d|" % h_id)
            L.append("reg|%d|c%d|%d|%s|%d %d" % (r, h_id, p, nm, v[0], v[1]))
            live.append(("reg", r, ("c%d" % h_id,), p, nm, v))
            L.extend([q, "addspec|%d|%d" % (c, h_id), q, "prov|%s" % tok])

        scen = [(scen_shared_decl, P.get("scen_shared_decl", 0.03)), (scen_addspec, P.get("scen_addspec", 0.03)), (scen_layout_super, P.get("scen_layout_super", 0.02)), (scen_entry, P.get("scen_entry", 0.03)), (scen_multi, P.get("scen_multi", 0.06)), (scen_cold_super, P.get("scen_cold_super", 0.03)),
                (scen_hit, P.get("scen_hit", 0.05)), (scen_rbases_spec, P.get("scen_rbases", 0.03)), (scen_rebuild, P.get("scen_rebuild", 0.03))]
        nsteps = rnd.randint(*(P.get("steps_big", (10, 40)) if big else P.get("steps", (6, 26))))
        W = P["weights"]       # reg unreg sub unsub isetbases classdecl objdecl rbases rebuild
        kinds = ["reg", "unreg", "sub", "unsub", "isetbases", "classdecl", "objdecl", "rbases", "rebuild"]
        for step in range(nsteps):
            if not carry:
                for fn, pr in scen:
                    if rnd.random() < pr:
                        fn()
            nr = st["nr"]
            k = rnd.choices(kinds, weights=W)[0]
            r = rnd.randrange(nr)
            ar = rnd.choice(P.get("arity", [1, 1, 1, 2, 2]))
            toks = [keytok() for _ in range(ar)]
            p = rnd.choice(PROV)
            name = rnd.choice(NAMES)
            if live and rnd.random() < 0.6:
                lk = rnd.choice(live)
                toks, p, name = list(lk[2]), lk[3], lk[4]
                if k in ("reg", "sub") and toks and rnd.random() < 0.6:
                    toks[rnd.randrange(len(toks))] = keytok()
            line = None
            hot = hot_for(toks, p, name)
            if k == "reg":
                v = val()
                line = "reg|%d|%s|%d|%s|%d %d" % (r, " ".join(toks), p, name, v[0], v[1])
                live.append(("reg", r, tuple(toks), p, name, v))
            elif k == "unreg":
                regs_live = [x for x in live if x[0] == "reg"]
                if regs_live and rnd.random() < 0.8:
                    x = rnd.choice(regs_live)
                    r, toks, p, name = x[1], list(x[2]), x[3], x[4]
                    hot = hot_for(toks, p, name)
                    c = rnd.random()
                    if c < 0.5:
                        line = "unreg|%d|%s|%d|%s" % (r, " ".join(toks), p, name)
                    elif c < 0.8:
                        line = "unreg|%d|%s|%d|%s|%d %d" % (r, " ".join(toks), p, name, x[5][0], x[5][1])
                    else:
                        line = "unreg|%d|%s|%d|%s|0 %d" % (r, " ".join(toks), p, name, x[5][1])     # equal but distinct: no-op
                else:
                    line = "unreg|%d|%s|%d|%s" % (r, " ".join(toks), p, name)
            elif k == "sub":
                v = val()
                line = "sub|%d|%s|%d|%d %d" % (r, " ".join(toks), p, v[0], v[1])
                live.append(("sub", r, tuple(toks), p, name, v))
            elif k == "unsub":
                subs_live = [x for x in live if x[0] == "sub"]
                if subs_live and rnd.random() < 0.85:
                    x = rnd.choice(subs_live)
                    r, toks, p = x[1], list(x[2]), x[3]
                    hot = hot_for(toks, p, name)
                    vs = "N" if rnd.random() < 0.4 else "0 %d" % x[5][1]
                    line = "unsub|%d|%s|%d|%s" % (r, " ".join(toks), p, vs)
                else:
                    line = "unsub|%d|%s|%d|N" % (r, " ".join(toks), p)
            elif k == "isetbases":
                cand = [i for i in range(1, n + 1) if i not in fixed]
                if not cand:
                    continue
                targeted = None
                ifkeys = [(x, j) for x in live for j, t in enumerate(x[2]) if t[0] == "i" and x[0] in ("reg", "sub")]
                if ifkeys and rnd.random() < 0.55:
                    # re-base an interface so that it starts / stops extending the interface a live key requires at some
                    # position, and ask with that interface in that position (the other positions as registered)
                    x, j = rnd.choice(ifkeys)
                    kk = int(x[2][j][1:])
                    ys = [y for y in cand if y != kk and y not in c03.reach(ib, kk)]
                    if ys:
                        y = rnd.choice(ys)
                        targeted = (x, j, kk, y)
                if targeted:
                    x, j, kk, y = targeted
                    i = y
                    down = {jj for jj in range(1, n + 1) if i in c03.reach(ib, jj)}
                    cur = [b for b in ib[i] if b]
                    bs = [b for b in cur if b != kk] if kk in cur else ([kk] + cur if rnd.random() < 0.5 else cur + [kk])
                    b2 = dict(ib)
                    b2[i] = bs or [0]
                    if kk in down or not all(c03.cpython_mirror_mro(b2, jj) is not None for jj in down):
                        continue
                    ib[i] = bs or [0]
                    t2 = list(x[2])
                    t2[j] = "i%d" % rnd.choice(sorted(down))
                    hot = hot_for(t2, x[3], x[4], keep=True, affected=j)
                    line = "isetbases|%d|%s" % (i, " ".join(map(str, bs)))
                    emit(hot, line)
                    continue
                i = rnd.choice(cand)
                m2 = [j for j in cand if len([b for b in ib[j] if b]) >= 2]
                if m2 and rnd.random() < 0.5:
                    i = rnd.choice(m2)
                down = {j for j in range(1, n + 1) if i in c03.reach(ib, j)}
                pool = [j for j in range(1, n + 1) if j not in down]
                for _ in range(8):
                    cur = [b for b in ib[i] if b]
                    if len(cur) >= 2 and rnd.random() < 0.5:
                        bs = cur[:]
                        while bs == cur:
                            rnd.shuffle(bs)
                    else:
                        bs = rnd.sample(pool, min(len(pool), rnd.choice([0, 1, 1, 2])))
                    b2 = dict(ib)
                    b2[i] = bs or [0]
                    if all(c03.cpython_mirror_mro(b2, j) is not None for j in down):
                        break
                else:
                    continue
                ib[i] = bs or [0]
                hot = hot_for(place("i%d" % rnd.choice(sorted(down)), toks), p, name, keep=True)
                line = "isetbases|%d|%s" % (i, " ".join(map(str, bs)))
            elif k == "classdecl":
                c = rnd.choice(list(cb))
                xs = rnd.sample(range(1, n + 1), rnd.randint(1, 2))
                kind = rnd.choice(["add", "add", "add", "only", "first"])
                ifkeys = [(x, j) for x in live for j, t in enumerate(x[2]) if t[0] == "i" and x[0] in ("reg", "sub")]
                if ifkeys and rnd.random() < 0.5:
                    # declare, on a class, the interface a live key requires at some position; ask with an instance of
                    # that class (or its specification) in that position
                    x, j = rnd.choice(ifkeys)
                    kk = int(x[2][j][1:])
                    os2 = [o for o in objs if c in [inv_cls[z] for z in pycls[objs[o]].__mro__[:-1]]]
                    t2 = list(x[2])
                    t2[j] = "o%d" % rnd.choice(os2) if os2 and rnd.random() < 0.7 else "c%d" % c
                    hot = hot_for(t2, x[3], x[4], keep=True, affected=j)
                    line = "%s|%d|%d" % (rnd.choice(["add", "add", "only", "first"]), c, kk)
                    emit(hot, line)
                    continue
                os_ = [o for o in objs if c in [inv_cls[x] for x in pycls[objs[o]].__mro__[:-1]]]
                if os_:
                    o = rnd.choice(os_)
                    t = "o%d" % o if rnd.random() < 1 - P.get("superobj", 0.3) else "s%d.%d" % (rnd.choice(mro_after(o)), o)
                    hot = hot_for(place(t, toks), p, name, keep=True)
                line = "%s|%d|%s" % (kind, c, " ".join(map(str, xs[:1] if kind == "first" else xs)))
            elif k == "objdecl":
                o = rnd.choice(list(objs))
                x = rnd.randint(1, n)
                kind = rnd.choice(["dp", "dp", "also", "also", "nl"])
                hot = hot_for(place("o%d" % o, toks), p, name, keep=True)
                line = "%s|%d|%d" % (kind, o, x)
            elif k == "rbases":
                down = {j for j in range(nr) if r in c03.reach(rb, j)}
                cand = [j for j in range(nr) if j not in down]
                for _ in range(6):
                    bs = rnd.sample(cand, min(len(cand), rnd.choice([0, 1, 1, 2])))
                    b2 = dict(rb)
                    b2[r] = bs
                    if all(c03.lin(b2, j) is not None for j in down):
                        break
                else:
                    bs = []
                    b2 = dict(rb)
                    b2[r] = bs
                    if not all(c03.lin(b2, j) is not None for j in down):
                        continue
                rb[r] = bs
                line = "rbases|%d|%s" % (r, " ".join(map(str, bs)))
            elif k == "rebuild":
                line = "rebuild|%d" % r
            if not emit(hot, line):
                continue
            for _ in range(P.get("extra", 2)):
                t3 = [keytok() for _ in range(rnd.choice([1, 1, 2]))]
                if live and rnd.random() < 0.6:
                    lk = rnd.choice(live)
                    t3 = list(lk[2])
                    if t3 and rnd.random() < 0.5:
                        t3[rnd.randrange(len(t3))] = objtok()
                L.extend(queries(rnd.randrange(nr), t3, rnd.choice(PROV), rnd.choice(NAMES))[:2])
            for _ in range(P.get("provq", 1)):
                L.append("prov|%s" % keytok(P.get("provkinds")))
        L.extend(carry)
        del carry[:]
        # HANDLERS (`provided=None` subscriptions) by construction (seeded change o05a: `unsubscribe` of a handler bumping the generation
        # without `changed()` was invisible, every subscription of this stream had a provided interface): two handlers under one key,
        # `subscriptions(required, None)` warm in every registry of the chain, one of them unsubscribed with no other mutation in
        # between, the same queries again
        hr = rnd.randrange(nr)
        hts = " ".join(keytok() for _ in range(rnd.choice((1, 1, 2))))
        hv, hv2 = val(), val()
        L.append("sub|%d|%s|N|%d %d" % (hr, hts, hv[0], hv[1]))
        L.append("sub|%d|%s|N|%d %d" % (hr, hts, hv2[0], hv2[1]))
        L.extend("subs|%d|%s|N" % (q, hts) for q in range(nr))
        L.append("unsub|%d|%s|N|%s" % (hr, hts, "N" if rnd.random() < 0.3 else "%d %d" % hv))
        L.extend("subs|%d|%s|N" % (q, hts) for q in range(nr))

        def no_empty_key(l):
            # the empty declaration is used as a LOOKUP key only (the model stands it for a specification nothing is registered under)
            f = l.split("|")
            if f[0] in ("reg", "unreg", "sub", "unsub"):
                f[2] = " ".join("i0" if t == "e" else t for t in f[2].split())
                return "|".join(f)
            return l
        return [no_empty_key(l) for l in L]


def twin_stream(prop, profile, nscripts, ops):
    """-> callback for regcommon.run_property: histories with declaration / hierarchy changes on the real code, every
    lookup of the kinds in `ops` also put to a never-queried registry chain that received the same mutations"""
    from .. import core, runner

    def run(chk, tier):
        rnd = core.rng(prop, 7)
        gen = WorldGen(rnd, tier, profile)
        scripts = [gen.script(i % 2) for i in range(nscripts[tier])]
        lines = [l for s in scripts for l in s]
        res = runner.run_impl_parallel("world", lines, [("c", ["twin"]), ("py", ["twin"])])
        fails = []
        for m, out in zip(("c", "py"), res):
            if isinstance(out, core.ImplBroken):
                fails.append(dict(mode=m, script=[], message="world stream could not be executed: %s" % str(out)[-300:], observed="", layer="world"))
                continue
            chk.count("world_stream_lines_%s" % m, len(lines))
            for i, (l, o) in enumerate(zip(lines, out)):
                if l.split("|")[0] in ops:
                    if m == "c":
                        chk.count("world_stream_queries")
                    if "TWIN-DIFF" in o or o.startswith("err") or "other:" in o or "?" in o:
                        s, e = runner.script_of(lines, i)
                        fails.append(dict(mode=m, script=lines[s:e], message="after declaration / hierarchy changes %s returned %s" % (l, o), observed=o, layer="world"))
                        break
        return fails
    return run


STALE_PROFILE = dict(weights=[1, 0.2, 0.3, 0.1, 3, 5, 1.5, 0.1, 0], nregs=(1, 2), extra=1, provq=4, arity=[1, 2], nclasses=(2, 5),
                     keyweights=(0.15, 0.25, 0.3, 0.3), provkinds=(0.15, 0.35, 0.25, 0.25), superobj=0.5, scen_hit=0.02, scen_rbases=0, scen_rebuild=0, scen_cold_super=0.08, scen_shared_decl=0.08)


def stale_stream(prop, markers, nscripts, what):
    """-> (fails, counters): histories of class / instance declaration calls and interface re-basing interleaved with
    lookups through super proxies; after every step the executor compares, for class, instance and super-proxy
    specifications, the cached views with what the current __bases__ links and iteration give (markers = which views)"""
    from .. import core, runner

    def run(chk, tier):
        rnd = core.rng(prop, 11)
        gen = WorldGen(rnd, tier, STALE_PROFILE)
        scripts = [gen.script(0) for i in range(nscripts[tier])]
        lines = [l for s in scripts for l in s]
        res = runner.run_impl_parallel("world", lines, [("c", ["stale"]), ("py", ["stale"])])
        fails = []
        for m, out in zip(("c", "py"), res):
            if isinstance(out, core.ImplBroken):
                fails.append(dict(mode=m, script=[], message="world stream could not be executed: %s" % str(out)[-300:], observed="", layer="world"))
                continue
            chk.count("world_stream_lines_%s" % m, len(lines))
            for i, (l, o) in enumerate(zip(lines, out)):
                if l.startswith("prov|"):
                    if m == "c":
                        chk.count("world_stream_specifications_checked")
                        chk.count("world_stream_kind_" + l[5])
                    if any(k in o for k in markers) or o.startswith("err"):
                        s, e = runner.script_of(lines, i)
                        fails.append(dict(mode=m, script=lines[s:e], message="after declaration / hierarchy changes, %s of %s: %s" % (what, l[5:], o), observed=o, layer="world",
                                          executor_args=["stale"]))
                        break
        return fails
    return run


def report_world(chk, fails_world):
    """record the first world-stream failure as a violation (the replay names the layer and the executor arguments)"""
    for f in fails_world[:1]:
        chk.violation("%s [mode=%s]" % (f["message"], f["mode"]),
                      dict(kind="history", mode=f["mode"], script=f["script"], observed=f["observed"], expected_by="spec", minimised=False,
                           layer="world", executor_args=f.get("executor_args", ["twin"])))


def replay_world(prop, rep, path):
    from .. import core
    script, mode, args = rep["script"], rep.get("mode", "c"), rep.get("executor_args", ["twin"])
    out = core.run_impl("world", script, mode, args)
    for l, o in zip(script, out):
        print("%-44s impl: %s" % (l, o))
    if any(("-STALE" in o or "TWIN-DIFF" in o or o.startswith("err")) for o in out):
        print("VIOLATION property=%s replay=%s" % (prop, path))
        return 1
    print("replay passes on the current tree")
    return 0


REENTRY_EPS = ["lookup", "lookup1", "lookupAll", "subscriptions", "queryAdapter", "adapter_hook", "queryMultiAdapter"]


def reentry_stage(chk, eps, scenarios=("stale", "stale-pre", "stale-rebase", "midwalk", "shrink", "delhook", "notifyhook")):
    """the re-entrancy scenarios of the C11 executor that end in a CACHED wrong answer (an answer computed across a
    mutation must not be served afterwards): what C05 / C07 / C08 demand of the caches, beyond sequential histories"""
    from .. import core
    lines = []
    for fl in ("push", "verifying"):
        for ep in eps:
            for sc in scenarios:
                if sc == "midwalk" and ep in ("lookupAll", "subscriptions"):
                    continue
                lines.append("%s %s %s" % (sc, fl, ep))
    # ... and a MUTATOR interrupted by lookups: rebuild() takes everything out and puts it back; whatever a lookup made in between
    # answers, nothing computed then may be served once rebuild() has returned (every 4th point; the C11 check visits all)
    lines += ["inmut push same rebuild reenter 4 0", "inmut push below1 rebuild reenter 4 1", "inmut verifying below1 rebuild reenter 4 2",
              "inmut push mixed rebuild reenter 4 3", "inmut push below2 replace reenter 4 0"]
    fails = []
    for m in ("c", "py"):
        try:
            out = core.run_impl("reentry", lines, m)
        except core.ImplBroken as e:
            fails.append(dict(mode=m, script=[], message="re-entrancy scenarios could not be executed: %s" % str(e)[-300:], observed="", layer="reentry"))
            continue
        chk.count("reentry_scenarios_%s" % m, len(lines))
        for l, o in zip(lines, out):
            if not o.startswith("ok"):
                fails.append(dict(mode=m, script=[l], message="%s -> %s" % (l, o), observed=o, layer="reentry"))
                break
    return fails


def report_reentry(chk, fails):
    for f in fails[:1]:
        chk.violation("%s [mode=%s]" % (f["message"], f["mode"]),
                      dict(kind="schedule", mode=f["mode"], script=f["script"], observed=f["observed"], expected_by="spec", minimised=True, layer="reentry"))


def replay_reentry(prop, rep, path):
    from .. import core
    out = core.run_impl("reentry", rep["script"], rep.get("mode", "c"))
    for l, o in zip(rep["script"], out):
        print("%-44s impl: %s" % (l, o))
    if any(not o.startswith("ok") for o in out):
        print("VIOLATION property=%s replay=%s" % (prop, path))
        return 1
    print("replay passes on the current tree")
    return 0
