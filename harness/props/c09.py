"""C09 — registration bookkeeping reflects exactly the net effect of the history."""
from . import regcommon

THEOREMS = ["ZI.Registry.find_update", "ZI.Registry.find_remove", "ZI.Registry.remove_flag", "ZI.Registry.kget_set", "ZI.Registry.kget_erase", "ZI.Lv.find_update", "ZI.Lv.find_remove"]
PROFILE = dict(weights=[5, 2.5, 3, 1.5, 0.3, 0.7, 0.5], queries=["lookup", "lookupAll", "subs", "book"], nregs=(1, 2), extra_queries=1,
               arity=[0, 1, 1, 2, 2], steps=(8, 30))


def check(tier):
    return regcommon.run_property(
        "C09", tier, THEOREMS, PROFILE, dict(quick=160, thorough=3000),
        "register/unregister/subscribe/unsubscribe/rebuild histories with overwrites, repeated identical registrations, equal-but-distinct values, register(None), "
        "removals emptying nested containers; registered/subscribed/allRegistrations/allSubscriptions after every step; clones by replay and rebuild() compared on lookups; "
        "distinct_nontrivial = registered() queries judged against the flat map",
        "registered_queries",
        "registry-layer correspondence (ZI.Registry register/unregister/.../rebuild vs adapter.py)")


def replay(path):
    return regcommon.replay("C09", path)
