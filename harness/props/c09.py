"""C09 — registration bookkeeping reflects exactly the net effect of the history."""
from . import regcommon

THEOREMS = ["ZI.Registry.find_update", "ZI.Registry.find_remove", "ZI.Registry.remove_flag", "ZI.Registry.kget_set", "ZI.Registry.kget_erase", "ZI.Lv.find_update", "ZI.Lv.find_remove",
            # whole-registry refinement (ZI/Props/C09Reg.lean)
            "ZI.Registry.changed_sameData", "ZI.Registry.registered_register", "ZI.Registry.registered_unregister", "ZI.Registry.subsFind_subscribe",
            "ZI.Registry.subsLeaf_unsubscribe", "ZI.Registry.subsFind_unsubscribe_other", "ZI.Registry.subscribed_eq", "ZI.Registry.C09_provided",
            "ZI.Registry.C09_provided_le", "ZI.Registry.C09_pruned", "ZI.Registry.qsort_perm", "ZI.Registry.mem_allRegistrations_iff",
            "ZI.Registry.allRegistrations_registered", "ZI.Registry.allSubscriptions_leaf", "ZI.Registry.count_allSubscriptions",
            "ZI.Registry.C09_rebuild_registered", "ZI.Registry.C09_rebuild_subsLeaf", "ZI.Registry.C09_rebuild", "ZI.Registry.provided_leak",
            # replaying the enumerations into an EMPTY registry (ZI/Props/C09Clone.lean)
            "ZI.Registry.C09_clone_registered", "ZI.Registry.C09_clone_subsLeaf", "ZI.Registry.C09_clone", "ZI.Registry.cloneInto_unfold"]
PROFILE = dict(weights=[5, 2.5, 3, 1.5, 0.3, 0.7, 0.5], queries=["lookup", "lookupAll", "subs", "book"], nregs=(1, 2), extra_queries=1,
               arity=[0, 1, 1, 2, 2], steps=(8, 30))


def check(tier):
    return regcommon.run_property(
        "C09", tier, THEOREMS, PROFILE, dict(quick=500, thorough=3000),
        "register/unregister/subscribe/unsubscribe/rebuild histories with overwrites, repeated identical registrations, equal-but-distinct values, register(None), "
        "removals emptying nested containers; registered/subscribed/allRegistrations/allSubscriptions after every step; clones by replay and rebuild() compared on lookups; "
        "distinct_nontrivial = registered() queries judged against the flat map",
        "registered_queries",
        "registry-layer correspondence (ZI.Registry register/unregister/.../rebuild vs adapter.py)")


def replay(path):
    return regcommon.replay("C09", path)
