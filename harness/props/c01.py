"""C01 — providedBy / implementedBy report exactly the declared and inherited interfaces.

Lean: ZI/Props/C01.lean (witness that the pinned factory violated the sandwich; repaired-model theorems).
Tie: declarations-layer correspondence (ZI.Classes, repaired Provides factory) against both twins.
Oracle: the *sandwich* specification (must-report = named and not redundant when named; may-report = everything
named), the closure equation on the implementation's own answers, agreement of the four query forms, and
independence of unrelated objects."""
import re

from .. import core, runner
from . import spectwin
from . import c03

THEOREMS = ["ZI.Classes.C01_asis_violates", "ZI.Classes.C01_repaired_witness", "ZI.Graph2.C02_implied",
            # history theorems on ZI.Classes2 (same logic on the proved graph model; cross-checked against ZI.Classes by the driver on every line)
            "ZI.C01.C01_exact", "ZI.C01.C01_exact_exec", "ZI.C01.sim_step", "ZI.C01.sim_run", "ZI.C01.C01_sandwich", "ZI.C01.C01_sandwich_upper",
            "ZI.C01.C01_sandwich_lower", "ZI.C01.C01_kept_persists", "ZI.C01.C01_independent", "ZI.C01.C01_independent_real",
            "ZI.C01.C01_noLonger_error", "ZI.C01.C01_nonvacuous", "ZI.C01.implB_iff", "ZI.C01.provB_iff"]


def gen_script(rnd, tier):
    big = tier == "thorough"
    L = ["reset :"]
    n = rnd.randint(2, 6 if big else 5)
    ibases = {0: []}
    for i in range(1, n + 1):
        for _ in range(8):
            bs = rnd.sample(range(1, i), min(i - 1, rnd.choice([0, 1, 1, 2])))
            b2 = dict(ibases)
            b2[i] = bs or [0]
            if c03.cpython_mirror_mro(b2, i) is not None:
                break
        else:
            bs = []
        ibases[i] = bs or [0]
        L.append("iface %d : %s" % (i, " ".join(map(str, bs))))
    pycls = {0: object}
    cbases = {}
    objs = {}

    def new_class():
        c = len(cbases) + 1
        bs = rnd.sample(list(cbases), min(len(cbases), rnd.choice([0, 1, 1, 2, 2])))
        try:
            pycls[c] = type("G%d" % c, tuple(pycls[b] for b in bs) or (object,), {})
        except TypeError:
            bs = []
            pycls[c] = type("G%d" % c, (object,), {})
        cbases[c] = bs
        L.append("class %d : %s" % (c, " ".join(map(str, bs))))

    named = {}          # class -> interfaces named by class declarations so far

    def ancestors(c):
        return c03.reach(cbases, c) - {0}

    def new_obj():
        o = len(objs) + 1
        c = rnd.choice(list(cbases))
        if objs and rnd.random() < 0.5:
            c = rnd.choice(list(objs.values()))          # several instances of one class share declarations
        objs[o] = c
        L.append("inst %d : %d" % (o, c))

    def observe():
        for o in objs:
            L.append("prov %d :" % o)
            L.append("direct %d :" % o)
        for c in cbases:
            L.append("impl %d :" % c)
        if rnd.random() < 0.35:
            for o in objs:
                L.append("plist %d :" % o)
            for c in cbases:
                L.append("ilist %d :" % c)

    new_class()
    new_obj()
    last_tuple = {}
    if rnd.random() < 0.3:
        # shared-declaration scenarios: the same direct declaration made on two instances of one class, with a class
        # declaration change on the class or one of its ancestors in between (what is redundant changes under a
        # declaration object that is shared through a cache)
        for _ in range(rnd.randint(1, 3)):
            new_class()
        for rounds in range(rnd.randint(1, 4)):
            k = rnd.choice(list(cbases))
            chain = sorted(ancestors(k))
            o1 = len(objs) + 1
            objs[o1] = k
            L.append("inst %d : %d" % (o1, k))
            o2 = len(objs) + 1
            objs[o2] = k
            L.append("inst %d : %d" % (o2, k))
            t = rnd.sample(range(1, n + 1), rnd.randint(1, min(2, n)))
            swap = len(t) == 2 and rnd.random() < 0.4
            if swap:
                # the class (chain) implements ONE of the two named interfaces when the first declaration is made, and -- after an
                # *only* declaration -- exactly the OTHER one when the second is made: as many redundant names, other names
                L.append("add %d : %d" % (rnd.choice(chain), t[1]))
                observe()
            elif rnd.random() < 0.7:
                L.append("add %d : %s" % (rnd.choice(chain), " ".join(map(str, t if rnd.random() < 0.7 else rnd.sample(range(1, n + 1), 1)))))
                observe()
            L.append("dp %d : %s" % (o1, " ".join(map(str, t))))
            observe()
            a = rnd.choice(chain)
            xs = rnd.sample(range(1, n + 1), rnd.randint(1, min(2, n)))
            kind = rnd.choice(["only", "only", "add", "first"])
            if swap:
                a, xs, kind = k, [t[0]], "only"
            L.append("%s %d : %s" % (kind, a, " ".join(map(str, xs[:1] if kind == "first" else xs))))
            observe()
            if rnd.random() < 0.3:
                L.append("dp %d : %s" % (o1, " ".join(map(str, rnd.sample(range(1, n + 1), 1)))))   # first holder lets go
                observe()
            L.append("dp %d : %s" % (o2, " ".join(map(str, t))))
            observe()
    for step in range(rnd.randint(4, 45 if big else 25)):
        r = rnd.random()
        if r < 0.1:
            new_class()
        elif r < 0.22:
            new_obj()
        elif r < 0.52:
            c = rnd.choice(list(cbases))
            if objs and rnd.random() < 0.5:
                # a class some live instance inherits from: the declaration change reaches existing objects
                c = rnd.choice(sorted(ancestors(rnd.choice(list(objs.values())))))
            xs = rnd.sample(range(1, n + 1), rnd.randint(1, min(3, n)))
            kind = rnd.choice(["add", "add", "only", "only", "first", "add d", "only d"])
            named.setdefault(c, []).extend(xs)
            if kind == "first":
                xs = xs[:1]
            L.append("%s %d%s : %s" % (kind.split()[0], c, " d" if kind.endswith(" d") else "", " ".join(map(str, xs))))
        else:
            o = rnd.choice(list(objs))
            xs = rnd.sample(range(1, n + 1), rnd.randint(1, min(2, n)))
            kind = rnd.choice(["dp", "dp", "dp", "also", "nl"])
            # instances sharing a declaration tuple: reuse the tuple another instance of the same class used
            key = objs[o]
            inherited = sorted({x for a in ancestors(key) for x in named.get(a, [])})
            if inherited and rnd.random() < 0.4:
                # name what the class (chain) declares: redundant now, perhaps not after a later class declaration
                xs = rnd.sample(inherited, min(len(inherited), rnd.randint(1, 2)))
            if kind == "dp" and key in last_tuple and rnd.random() < 0.5:
                xs = last_tuple[key]
            if kind == "dp":
                last_tuple[key] = xs
                L.append("dp %d%s : %s" % (o, " d" if rnd.random() < 0.2 else "", " ".join(map(str, xs))))      # ` d`: spelled provider(...)(ob)
                if rnd.random() < 0.15:
                    # ... and the CLASS object is given directly provided interfaces of its own (`@provider`): nothing else changes
                    L.append("cprov %d%s : %s" % (objs[o], rnd.choice(["", " d"]), " ".join(map(str, rnd.sample(range(1, n + 1), rnd.randint(0, min(2, n)))))))
                if rnd.random() < 0.2:
                    # ... or its METACLASS gets a declaration (after the class's own specification has long been computed)
                    L.append("mprov %d%s : %s" % (objs[o], rnd.choice(["", " d"]), " ".join(map(str, rnd.sample(range(1, n + 1), rnd.randint(1, min(2, n)))))))
            elif kind == "also":
                L.append("also %d : %s" % (o, " ".join(map(str, xs))))
            else:
                L.append("nl %d : %d" % (o, xs[0]))
        observe()
    return L


def oracle(chk, lines, outs):
    bad = []
    st = None
    for i, (line, out) in enumerate(zip(lines, outs)):
        cmd, _, rest = line.partition(":")
        f = cmd.split()
        a = [int(x) for x in rest.split()]
        op = f[0]
        if op == "reset":
            st = dict(ib={0: []}, pyb={0: []}, dlo={0: []}, dhi={0: []}, inh={0: True}, olo={}, ohi={}, cls={}, ans={}, pending=None)
            continue
        S = st

        def closure(xs):
            res = set()
            for x in xs:
                res |= c03.reach(S["ib"], x)
            return res

        def impl(c, d):
            res = closure(d[c])
            if S["inh"][c]:
                for b in S["pyb"][c]:
                    res |= impl(b, d)
            return res | {0}

        def subclasses(c):
            return {k for k in S["pyb"] if c in c03.reach(S["pyb"], k)}

        if op in ("cprov", "mprov"):
            chk.count("class_objects_given_directly_provided_interfaces" if op == "cprov" else "metaclass_declarations")
            if "CPROV-BAD" in out:
                bad.append((i, "%s: %s" % (line, out.split("CPROV-BAD")[1].strip())))
            continue
        if out.startswith("err ") or "MISMATCH" in out or out == "bad":
            bad.append((i, "%s -> %s" % (line, out)))
            continue
        if op == "iface":
            S["ib"][int(f[1])] = a or [0]
        elif op == "class":
            c = int(f[1])
            S["pyb"][c] = a or [0]
            S["dlo"][c] = []
            S["dhi"][c] = []
            S["inh"][c] = True
        elif op == "inst":
            o = int(f[1])
            S["olo"][o] = []
            S["ohi"][o] = []
            S["cls"][o] = a[0]
        elif op in ("add", "only", "first"):
            c = int(f[1])
            if op == "only":
                S["inh"][c] = False
                S["dlo"][c] = list(a)
                S["dhi"][c] = list(a)
            else:
                hi_now = impl(c, S["dhi"])
                S["dlo"][c] = S["dlo"][c] + [x for x in a if x not in hi_now]
                S["dhi"][c] = S["dhi"][c] + list(a)
            sub = subclasses(c)
            S["ans"] = {k: v for k, v in S["ans"].items() if k[0] in ("prov", "impl", "direct")}
            S["pending"] = ("class", sub, {o for o, k in S["cls"].items() if k in sub}, dict(S["ans"]), i)
        elif op in ("dp", "also", "nl"):
            o = int(f[1])
            hi_cls = impl(S["cls"][o], S["dhi"])
            if op == "dp":
                S["olo"][o] = [x for x in a if x not in hi_cls]
                S["ohi"][o] = list(a)
            elif op == "also":
                S["olo"][o] = [x for x in S["olo"][o] + list(a) if x not in hi_cls]
                S["ohi"][o] = S["ohi"][o] + list(a)
            else:
                x = a[0]
                S["olo"][o] = [d for d in S["olo"][o] if x not in c03.reach(S["ib"], d) and d not in hi_cls]
                S["ohi"][o] = [d for d in S["ohi"][o] if x not in c03.reach(S["ib"], d)]
            S["ans"] = {k: v for k, v in S["ans"].items() if k[0] in ("prov", "impl", "direct")}
            S["pending"] = ("obj", set(), {o}, dict(S["ans"]), i)
        elif op in ("prov", "impl", "direct", "plist", "ilist"):
            x = int(f[1])
            got = [int(t) for t in out.split()]
            chk.count("answers_checked")
            key = (op, x)
            pend = S["pending"]
            if pend is not None and key in pend[3]:
                related = (x in pend[2]) if op in ("prov", "direct", "plist") else (x in pend[1])
                if pend[3][key] != got:
                    if related:
                        if not ((op in ("prov", "direct", "plist") and pend[0] == "obj")):
                            chk.count("answers_changed_for_another_object")
                    else:
                        bad.append((i, "declaration at line %d (%s) changed %s of unrelated %s %d: %s -> %s" % (
                            pend[4], lines[pend[4]], op, "object" if op in ("prov", "direct", "plist") else "class", x, pend[3][key], got)))
            S["ans"][key] = got
            if op == "prov":
                lo = closure(S["olo"][x]) | impl(S["cls"][x], S["dlo"])
                hi = closure(S["ohi"][x]) | impl(S["cls"][x], S["dhi"])
                gs = set(got)
                if not lo <= gs:
                    bad.append((i, "providedBy(object %d) misses %s: declared and not redundant when declared" % (x, sorted(lo - gs))))
                if not gs <= hi:
                    bad.append((i, "providedBy(object %d) reports %s, never declared or inherited" % (x, sorted(gs - hi))))
                if lo == hi:
                    chk.count("exactly_determined")
                # closure equation on the implementation's own answers
                d = S["ans"].get(("direct", x))
                ic = S["ans"].get(("impl", S["cls"][x]))
                if d is not None and ic is not None and pend is None:
                    pass
            elif op == "impl":
                lo = impl(x, S["dlo"])
                hi = impl(x, S["dhi"])
                gs = set(got)
                if not lo <= gs:
                    bad.append((i, "implementedBy(class %d) misses %s: declared and not redundant when declared" % (x, sorted(lo - gs))))
                if not gs <= hi:
                    bad.append((i, "implementedBy(class %d) reports %s, never declared or inherited" % (x, sorted(gs - hi))))
            elif op == "direct":
                pv = S["ans"].get(("prov", x))
                if pv is not None and not closure(got) <= set(pv):
                    bad.append((i, "directlyProvidedBy(object %d) = %s is not contained in providedBy = %s" % (x, got, pv)))
            elif op == "plist":
                pv = S["ans"].get(("prov", x))
                if pv is not None and set(pv) != closure(got) | {0}:
                    bad.append((i, "flattened() of providedBy(object %d) %s is not the closure of its iteration %s" % (x, pv, got)))
                if len(set(got)) != len(got):
                    bad.append((i, "iteration of providedBy(object %d) has duplicates: %s" % (x, got)))
            elif op == "ilist":
                pv = S["ans"].get(("impl", x))
                if pv is not None and set(pv) != closure(got) | {0}:
                    bad.append((i, "flattened() of implementedBy(class %d) %s is not the closure of its iteration %s" % (x, pv, got)))
    return bad


def msg_kind(msg):
    return re.sub(r"[0-9\[\]\(\)', ]+", "#", msg)[:60]


class _Null:
    def count(self, *a, **k):
        pass


def still_fails(script, mode, kind):
    try:
        out = core.run_impl("classes", script, mode)
        return any(msg_kind(m) == kind for _, m in oracle(_Null(), script, out))
    except Exception:
        return False


CORPUS = [
    # stale shared Provides: @implementer(IA) class K; directlyProvides(K(), IA); classImplementsOnly(K, IB); directlyProvides(k2, IA)
    ["reset :", "iface 1 :", "iface 2 :", "class 1 :", "add 1 : 1", "inst 1 : 1", "inst 2 : 1", "dp 1 : 1", "prov 1 :",
     "only 1 : 2", "dp 2 : 1", "prov 2 :", "direct 2 :", "impl 1 :"],
]


def check(tier):
    chk = core.Check("C01", tier)
    chk.obligations(THEOREMS, ["C01_exact for histories outside guard G-nodup (a direct declaration naming an interface twice, e.g. alsoProvides of an "
                               "interface that is already directly provided) and with interface re-basing: evaluated by the sandwich oracle only",
                               "formal equivalence ZI.Classes = ZI.Classes2 (checked by the driver on every line of every run instead)"])
    rnd = core.rng("C01")
    nscripts = {"quick": 800, "thorough": 6000}[tier]
    scripts = [list(s) for s in CORPUS] + [gen_script(rnd, tier) for _ in range(nscripts)]
    lines = [l for s in scripts for l in s]
    impl, model, divs = runner.correspond(chk, "classes", lines, model_args=["fixed"], label="classes")
    fails = []
    for m, outs in impl.items():
        if outs is None:
            continue
        for idx, msg in oracle(chk if m == "c" else _Null(), lines, outs):
            s, e = runner.script_of(lines, idx)
            fails.append(dict(mode=m, script=lines[s:e], message=msg, observed=outs[idx]))
    seen = set()
    for f in fails:
        k = msg_kind(f["message"])
        if k in seen:
            continue
        seen.add(k)
        if len(seen) > 3:
            break
        script = runner.ddmin(f["script"], lambda s: still_fails(s, f["mode"], k), budget=30)
        chk.violation("%s [mode=%s]" % (f["message"], f["mode"]),
                      dict(kind="history", mode=f["mode"], script=script, observed=f["observed"], expected_by="spec", minimised=True))
    # "for every object": objects of every storage shape (with a __dict__, fully slotted, seen through super) on the real code
    for f in spectwin.run(chk, tier, rnd, want=("c01",))[:2]:
        fails.append(f)
        chk.violation(f["message"], dict(kind="input", mode=f["mode"], layer="spectwin", script=f["script"], observed=f["observed"], expected=f["expected"],
                                         expected_by="spec", minimised=True))
    if not fails:
        runner.report_divergences(chk, divs, "declarations-layer correspondence (ZI.Classes vs declarations.py, C fast paths)",
                                  "sandwich oracle accepted all %d answers" % chk.counters.get("answers_checked", 0))
        core.lean_failure_violation(chk)
    # how much of the generated histories lies inside the guards of C01_exact (decided by the driver with the theorem's own WFop)
    wfl = []
    for sc in scripts:
        wfl += list(sc) + ["wf :"]
    try:
        mo = core.run_model("classes", wfl, ["fixed"])
        rows = [x.split() for x in mo if x.startswith("wf ")]
        chk.counters["histories_wellformed_to_the_end"] = sum(1 for r in rows if r[1] == "true")
        chk.counters["histories_total"] = len(rows)
        chk.counters["ops_issued_inside_theorem_guards"] = sum(int(r[2]) for r in rows)
        chk.counters["ops_total"] = sum(int(r[3]) for r in rows)
        chk.counters["shadow_model_disagreements"] = sum(1 for x in mo if "MODELDIFF2" in x)
        chk.counters["abstract_spec_disagreements"] = sum(1 for x in mo if "SPECDIFF" in x)
    except core.Infra as e:       # pragma: no cover
        chk.counters["wf_stats_error"] = str(e)[-200:]
    ops = {}
    for l in lines:
        k = l.split(" ", 1)[0]
        ops[k] = ops.get(k, 0) + 1
    chk.counters["op_histogram"] = ops
    chk.samples.append(scripts[1][:30])
    return chk.finish(len(lines), chk.counters.get("answers_changed_for_another_object", 0),
                      "random interface DAGs, class DAGs with multiple inheritance, instances (incl. instances sharing a declaration tuple), all declaration calls "
                      "(function and decorator forms) interleaved with subclass/instance creation and queries after every step; distinct_nontrivial = answers that changed "
                      "for an object/class other than the one named by the declaration (inherited effect)")


def replay(path):
    rep = runner.load_replay(path)
    script = rep["script"]
    mode = rep.get("mode", "c")
    if rep.get("layer") == "spectwin":
        if spectwin.replay_script(script, "C01"):
            print("VIOLATION property=C01 replay=%s" % path)
            return 1
        print("replay passes on the current tree")
        return 0
    out = core.run_impl("classes", script, mode)
    bad = oracle(_Null(), script, out)
    model = core.run_model("classes", script, ["fixed"])
    for l, o, m in zip(script, out, model):
        print("%-28s impl: %s%s" % (l, o, "" if o == m else "   MODEL: " + m))
    for i, msg in bad:
        print("ORACLE line %d: %s" % (i, msg))
    if bad or out != model:
        print("VIOLATION property=C01 replay=%s" % path)
        return 1
    print("replay passes on the current tree")
    return 0
