"""C12 — interfaces have a total, hash-consistent, process-independent order.

Lean: ZI/Props/C12.lean (operator protocol over interfaces / Implements / None / foreign objects, both twins, sorting).
Tie: every comparison, hash relation and sort of generated operand sets is executed on both twins under three hash
seeds and compared with the model of that twin (methodC / methodPy).
Oracle: the statement itself, evaluated in the harness on (name, module) tuples."""
import itertools

from .. import core, runner

THEOREMS = ["ZI.Order.C12_eq_iff", "ZI.Order.C12_hash", "ZI.Order.C12_trichotomy", "ZI.Order.C12_lt_irrefl",
            "ZI.Order.C12_lt_trans", "ZI.Order.C12_derived", "ZI.Order.C12_none_last", "ZI.Order.C12_mixed_order",
            "ZI.Order.C12_impl_identity", "ZI.Order.C12_twin", "ZI.Order.C12_lt_by_key", "ZI.Order.C12_sort",
            "ZI.Order.c_eq_py", "ZI.Order.py_trichotomy"]

NAMES = ["", "I", "IA", "IB", "IAA", "a", "a.b", "m", "z", "é", "Ω", "Í", "\U0001F600x", "Z", "_"]
MODS = ["", "m", "m.n", "n", "zope.interface.declarations", "é", "a", "z", "M"]
OPS = ["lt", "le", "gt", "ge", "eq", "ne"]
SEEDS = ["0", "1", "4242"]


def enc(s):
    return "-" if s == "" else ",".join(str(ord(c)) for c in s)


def gen_script(rnd, tier):
    L = ["reset"]
    ops = {}          # id -> (kind, key)
    n = rnd.randint(5, 9)
    keys = []
    for i in range(1, n + 1):
        r = rnd.random()
        if keys and r < 0.3:
            k = rnd.choice(keys)                      # equal key, distinct object
        elif keys and r < 0.55:
            k0 = rnd.choice(keys)                     # same name other module / same module other name
            k = (k0[0], rnd.choice(MODS)) if rnd.random() < 0.5 else (rnd.choice(NAMES), k0[1])
        else:
            k = (rnd.choice(NAMES), rnd.choice(MODS))
        kind = rnd.choice("IIIIIMMFP" if i > 2 else "II")
        if kind == "I":
            keys.append(k)
            ops[i] = ("I", k)
            L.append("def %d I %s %s" % (i, enc(k[0]), enc(k[1])))
        elif kind == "M":
            if rnd.random() < 0.3 and keys:
                # a class whose specification key collides with nothing but is close to an interface name
                k = (rnd.choice(NAMES) or "C", rnd.choice(MODS))
            ik = ((k[1] or "?") + "." + (k[0] or "?"), "zope.interface.declarations")
            ops[i] = ("M", ik)
            L.append("def %d M %s %s" % (i, enc(k[0]), enc(k[1])))
        elif kind == "F":
            ops[i] = ("F", k)
            L.append("def %d F %s %s" % (i, enc(k[0]), enc(k[1])))
        else:
            ops[i] = ("P", None)
            L.append("def %d P" % i)
    ids = [str(i) for i in ops] + ["N"]
    for a, b in itertools.product(ids, ids):
        for op in OPS:
            L.append("cmp %s %s %s" % (op, a, b))
        L.append("heq %s %s" % (a, b))
    sortable = [str(i) for i, (k, _) in ops.items() if k in "IM"] + ["N"]
    for _ in range(3):
        xs = [rnd.choice(sortable) for _ in range(rnd.randint(2, 10))]
        if rnd.random() < 0.5:
            xs = list(dict.fromkeys(xs))
        while xs.count("N") > 1:          # `None < None` is a TypeError of Python's own
            xs.remove("N")
        L.append("sort " + " ".join(xs))
    return L, ops


def spec_answer(op, a, b, ops):
    """what the statement demands for `a op b`; None = the statement does not say"""
    ka = ops.get(a) if a != "N" else ("N", None)
    kb = ops.get(b) if b != "N" else ("N", None)
    A, B = ka[0], kb[0]
    if A in "IM" and B in "IM":
        x, y = ka[1], kb[1]
        if op in ("eq", "ne"):
            if A == "I" and B == "I":
                e = x == y
            elif A == "M" and B == "M":
                e = a == b
            else:
                return None
            return e if op == "eq" else not e
        return dict(lt=x < y, le=x <= y, gt=x > y, ge=x >= y)[op]
    if A in "IM" and B == "N":
        return op in ("lt", "le", "ne")
    if A == "N" and B in "IM":
        return op in ("gt", "ge", "ne")
    return None


def oracle(chk, lines, outs, opsets):
    bad = []
    si = -1
    for i, (line, out) in enumerate(zip(lines, outs)):
        f = line.split()
        if f[0] == "reset":
            si += 1
            ops = {str(k): v for k, v in opsets[si].items()}
            continue
        if out.startswith("err") or out.startswith("nonbool") or out == "bad":
            bad.append((i, "%s -> %s" % (line, out)))
            continue
        if f[0] == "cmp":
            want = spec_answer(f[1], f[2], f[3], ops)
            if want is not None:
                chk.count("answers_judged")
                if out != ("1" if want else "0"):
                    bad.append((i, "%s %s %s gives %s, the (name, module) order demands %s [%r vs %r]" % (
                        f[2], f[1], f[3], out, want, ops.get(f[2]), ops.get(f[3]))))
                a, b = ops.get(f[2]), ops.get(f[3])
                if a and b and a[0] in "IM" and b[0] in "IM" and a[1] != b[1] and f[1] == "lt" and a[1][0] != b[1][0] and \
                        (a[1][0] < b[1][0]) != (a[1][1] < b[1][1]):
                    chk.count("pairs_name_and_module_order_disagree")
        elif f[0] == "heq":
            if "HASH-INCONSISTENT" in out:
                bad.append((i, "%s: equal objects with different hash / not found in dict or set" % line))
            a, b = ops.get(f[1]), ops.get(f[2])
            if a and b and a[0] == "I" and b[0] == "I" and a[1] == b[1] and not out.startswith("1"):
                bad.append((i, "interfaces %s and %s have equal keys %r and different hashes" % (f[1], f[2], a[1])))
        elif f[0] == "sort":
            got = out.split()
            inp = f[1:]
            if sorted(got) != sorted(inp):
                bad.append((i, "sorted() result %s is not a permutation of %s" % (got, inp)))
            else:
                ks = [(1, ()) if g == "N" else (0, ops[g][1]) for g in got]
                if any(ks[j] > ks[j + 1] for j in range(len(ks) - 1)):
                    bad.append((i, "sorted() result %s is not ordered by (name, module) with None last: %s" % (got, ks)))
                chk.count("sorts_judged")
    return bad


class _Null:
    def count(self, *a, **k):
        pass


def run_all(chk, lines, modes=("c", "py"), seeds=SEEDS):
    outs = {}
    divs = []
    models = {m: core.run_model("order", lines, [m]) for m in modes}
    for m in modes:
        for hs in seeds:
            try:
                out = core.run_impl("order", lines, m, env_extra={"PYTHONHASHSEED": hs})
            except core.ImplBroken as e:
                divs.append(dict(mode=m, index=-1, line="", impl="<implementation could not be run: %s>" % str(e)[-1200:], model="", script=[], label="order"))
                continue
            outs[(m, hs)] = out
            chk.count("lines_%s" % m, len(lines))
            for i in core.first_diffs(lines, [o.split(" HASH")[0] for o in out], models[m], limit=5):
                s, e = runner.script_of(lines, min(i, len(lines) - 1))
                defs = [l for l in lines[s:e] if l.startswith(("reset", "def"))]
                divs.append(dict(mode=m, index=i, line=lines[i] if i < len(lines) else "<length>", impl=out[i] if i < len(out) else "<missing>",
                                 model=models[m][i] if i < len(models[m]) else "<missing>", script=defs + [lines[i]] if i < len(lines) else defs,
                                 label="order seed=%s" % hs))
    return outs, divs


def check(tier):
    chk = core.Check("C12", tier)
    chk.obligations(THEOREMS)
    rnd = core.rng("C12")
    nscripts = {"quick": 30, "thorough": 500}[tier]
    scripts, opsets = [], []
    for _ in range(nscripts):
        s, o = gen_script(rnd, tier)
        scripts.append(s)
        opsets.append(o)
    lines = [l for s in scripts for l in s]
    outs, divs = run_all(chk, lines)
    fails = []
    ref = None
    for (m, hs), out in outs.items():
        for idx, msg in oracle(chk if (m, hs) == ("c", SEEDS[0]) else _Null(), lines, out, opsets):
            s, e = runner.script_of(lines, idx)
            fails.append(dict(mode=m, seed=hs, script=[l for l in lines[s:e] if l.startswith(("reset", "def"))] + [lines[idx]], message=msg, observed=out[idx]))
        # process / hash seed / implementation independence: every run must give the same answers
        if ref is None:
            ref = ((m, hs), out)
        else:
            for i in core.first_diffs(lines, out, ref[1], limit=3):
                if i < len(lines):
                    s, e = runner.script_of(lines, i)
                    fails.append(dict(mode=m, seed=hs, script=[l for l in lines[s:e] if l.startswith(("reset", "def"))] + [lines[i]],
                                      message="answer depends on implementation / hash seed: %s gives %r under %s and %r under %s" % (
                                          lines[i], out[i], (m, hs), ref[1][i], ref[0]), observed=out[i]))
    seen = set()
    for f in fails:
        k = f["message"].split(" gives ")[0][:40] if "demands" not in f["message"] else f["message"].split()[1] + f["mode"]
        if k in seen or len(seen) >= 3:
            continue
        seen.add(k)
        chk.violation("%s [mode=%s PYTHONHASHSEED=%s]" % (f["message"], f["mode"], f["seed"]),
                      dict(kind="input", mode=f["mode"], hashseed=f["seed"], script=f["script"], observed=f["observed"], expected_by="spec", minimised=True))
    if not fails:
        runner.report_divergences(chk, divs, "comparison-layer correspondence (ZI.Order.methodC / methodPy vs IB_richcompare / NameAndModuleComparisonMixin); theorem ZI.Order.C12_twin",
                                  "statement oracle accepted all %d judged answers" % chk.counters.get("answers_judged", 0))
        core.lean_failure_violation(chk)
    chk.samples.append(scripts[0][:12] + scripts[0][-3:])
    chk.counters["hash_seeds"] = SEEDS
    return chk.finish(len(lines) * len(outs), chk.counters.get("pairs_name_and_module_order_disagree", 0),
                      "operand sets of 5-9 objects (interfaces incl. equal-key distinct objects, class specifications, foreign objects with and without "
                      "__name__/__module__, None) over a pool of empty / prefix-related / non-ASCII names and modules; ALL ordered pairs x 6 operators + hash relation, "
                      "and sorts of shuffled mixed lists; each batch on 2 implementations x 3 PYTHONHASHSEED values; distinct_nontrivial = '<' comparisons of "
                      "pairs whose names and modules are ordered oppositely (the case a module-before-name comparison gets wrong)")


def replay(path):
    rep = runner.load_replay(path)
    script = rep["script"]
    mode = rep.get("mode", "c")
    out = core.run_impl("order", script, mode, env_extra={"PYTHONHASHSEED": str(rep.get("hashseed", "0"))})
    model = core.run_model("order", script, [mode])
    bad = 0
    ops = {}
    for l in script:
        f = l.split()
        if f[0] == "def":
            def dec(s):
                return "" if s == "-" else "".join(chr(int(t)) for t in s.split(","))
            if f[2] == "P":
                ops[f[1]] = ("P", None)
            else:
                k = (dec(f[3]), dec(f[4]))
                if f[2] == "M":
                    k = ((k[1] or "?") + "." + (k[0] or "?"), "zope.interface.declarations")
                ops[f[1]] = (f[2], k)
    for l, o, m in zip(script, out, model):
        f = l.split()
        note = ""
        if f[0] == "cmp":
            want = spec_answer(f[1], f[2], f[3], ops)
            if want is not None and o != ("1" if want else "0"):
                note = "   SPEC demands %s" % want
                bad += 1
        if o.split(" HASH")[0] != m:
            note += "   MODEL: " + m
            bad += 1
        print("%-40s impl: %s%s" % (l, o, note))
    if bad:
        print("VIOLATION property=C12 replay=%s" % path)
        return 1
    print("replay passes on the current tree")
    return 0
