"""C12 — interfaces have a total, hash-consistent, process-independent order.

Lean: ZI/Props/C12.lean (operator protocol over interfaces / Implements / None / foreign objects with and without comparison
methods of their own / interfaces the constructor left None-named, both twins, sorting).
Tie: every comparison, hash relation and sort of generated operand sets is executed on both twins under three hash
seeds and compared with the model of that twin (methodC / methodPy).
Oracle: the statement itself, evaluated in the harness on (name, module) tuples."""
import itertools
import re

from .. import core, runner

THEOREMS = ["ZI.Order.C12_eq_iff", "ZI.Order.C12_hash", "ZI.Order.C12_trichotomy", "ZI.Order.C12_lt_irrefl",
            "ZI.Order.C12_lt_trans", "ZI.Order.C12_derived", "ZI.Order.C12_none_last", "ZI.Order.C12_mixed_order",
            "ZI.Order.C12_impl_identity", "ZI.Order.C12_twin", "ZI.Order.C12_lt_by_key", "ZI.Order.C12_sort",
            "ZI.Order.c_eq_py", "ZI.Order.py_trichotomy",
            "ZI.Order.C12_defers", "ZI.Order.C12_reflected", "ZI.Order.C12_proxy", "ZI.Order.C12_sentinel",
            "ZI.Order.C12_anon_order", "ZI.Order.C12_anon_eq_iff", "ZI.Order.C12_anon_hash", "ZI.Order.C12_anon_none_last",
            "ZI.Order.C12_sort_anon", "ZI.Order.mkIface_cases"]

NAMES = ["", "I", "IA", "IB", "IAA", "a", "a.b", "m", "z", "é", "Ω", "Í", "\U0001F600x", "Z", "_", "a\tb", "I\u00a0A"]
# names with a blank: `Element.__init__` files a *docless* one as the docstring and leaves `__name__` None, so the final
# pair is (None, module); with a docstring the name is kept.  (NAMES has near misses: a tab, a no-break space.)
BLANK_NAMES = ["a b", " ", "I A", "IA ", "é Ω", "a b c", "  "]
MODS = ["", "m", "m.n", "n", "zope.interface.declarations", "é", "a", "z", "M", "?", "\u65e5", "\u672c"]
OPS = ["lt", "le", "gt", "ge", "eq", "ne"]
SWAP = dict(lt="gt", le="ge", gt="lt", ge="le", eq="eq", ne="ne")
LIB = "IMA"           # operands whose comparison methods are the library's: interface, class specification, None-named interface
STRNAMED = "IMFW"     # operands that carry (a proxy: stand for) a *string* __name__
SEEDS = ["0", "1", "4242"]


COLLIDE = [(("a.b", "c"), ("b", "c.a")), (("I", "m.n"), ("n.I", "m")), (("x.y.z", "p"), ("z", "p.x.y"))]


def enc(s):
    return "-" if s == "" else ",".join(str(ord(c)) for c in s)


def final_kind(kind, name):
    """the operand class of `def <id> I|D name module`: "A" = the constructor leaves `__name__` None"""
    return "A" if kind == "I" and " " in name else "I"


def outside(ka, kb):
    """a None-named interface against an operand with a string name: `(None, m) < ('x', m)` is a TypeError of Python's own;
    the property quantifies over name/module *strings*, these pairs are outside its domain (counted, not judged)"""
    return (ka[0] == "A" and kb[0] in STRNAMED) or (kb[0] == "A" and ka[0] in STRNAMED)


def gen_script(rnd, tier, cmpx=False):
    """`cmpx`: also emit the comparisons of pairs outside the domain (as `cmpx` lines: executed, reported, never judged)"""
    L = ["reset"]
    ops = {}          # id -> (kind, key)
    n = rnd.randint(6, 10)
    keys = []
    anons = []        # (text, module) of the None-named interfaces
    mkeys = []        # (name, module) of the classes whose specifications are operands
    collide = rnd.randint(1, len(COLLIDE)) if rnd.random() < 0.3 else 0
    for i in range(1, n + 1):
        r = rnd.random()
        if keys and r < 0.3:
            k = rnd.choice(keys)                      # equal key, distinct object
        elif keys and r < 0.55:
            k0 = rnd.choice(keys)                     # same name other module / same module other name
            k = (k0[0], rnd.choice(MODS)) if rnd.random() < 0.5 else (rnd.choice(NAMES), k0[1])
        else:
            k = (rnd.choice(NAMES), rnd.choice(MODS))
        kind = rnd.choice("IIIIIIMMMFPWSB" if i > 2 else "IIIB")
        if collide and i <= 2:
            # two different (name, module) pairs whose dotted concatenation module + "." + name is the same string
            k, kind = COLLIDE[collide - 1][i - 1], "I"
        if i == n and len(mkeys) == 1:
            kind = "M"            # every script with a class specification has a second one under the same key (below)
        if anons and kind in "IMF" and rnd.random() < 0.3:
            kind = "B"
        if kind == "B":
            # an interface whose name has a blank: docless (None-named; biased towards another text in the module of an
            # earlier one: equal final pairs from different constructor arguments) or with a docstring (keeps the name)
            if anons and rnd.random() < 0.6:
                t0, m0 = rnd.choice(anons)
                k = (rnd.choice(BLANK_NAMES), m0) if rnd.random() < 0.8 else (t0, m0)
            else:
                k = (rnd.choice(BLANK_NAMES), k[1])
            kind = "D" if rnd.random() < 0.25 else "I"
        elif kind == "I" and rnd.random() < 0.1:
            kind = "D"
        if kind == "W" and not any(v[0] == "I" for v in ops.values()):
            kind = "S"
        if kind in "ID":
            fk = final_kind(kind, k[0])
            if fk == "A":
                anons.append(k)
                ops[i] = ("A", (None, k[1]))
            else:
                keys.append(k)
                ops[i] = ("I", k)
            if fk == "I" and kind == "I" and rnd.random() < 0.25:
                kind = "C" if rnd.random() < 0.4 else "C2"          # with methods of its own (first / second level)
            L.append("def %d %s %s %s" % (i, kind, enc(k[0]), enc(k[1])))
        elif kind == "M":
            if mkeys and (rnd.random() < 0.5 or (i == n and len(mkeys) == 1)):
                # two DISTINCT classes of one name in one module (a class factory, a re-executed class statement)
                k = rnd.choice(mkeys)
            elif rnd.random() < 0.3 and keys:
                # a class whose specification key collides with nothing but is close to an interface name
                k = (rnd.choice(NAMES) or "C", rnd.choice(MODS))
            mkeys.append(k)
            ik = ((k[1] or "?") + "." + (k[0] or "?"), "zope.interface.declarations")
            ops[i] = ("M", ik)
            L.append("def %d M %s %s" % (i, enc(k[0]), enc(k[1])))
        elif kind == "F":
            ops[i] = ("F", k)
            L.append("def %d F %s %s" % (i, enc(k[0]), enc(k[1])))
        elif kind == "W":
            # a transparent proxy of an earlier interface, biased towards one whose key another interface shares
            cands = [j for j, v in ops.items() if v[0] == "I"]
            dup = [j for j in cands if sum(1 for v in ops.values() if v == ops[j]) > 1]
            t = rnd.choice(dup if dup and rnd.random() < 0.5 else cands)
            ops[i] = ("W", t)
            L.append("def %d W %d" % (i, t))
        elif kind == "S":
            e, o = rnd.choice([(1, "n"), (1, "n"), (0, "n"), (1, "0"), (0, "1"), (1, "1")])   # (1, n) = unittest.mock.ANY
            ops[i] = ("S", (bool(e), None if o == "n" else o == "1"))
            L.append("def %d S %d %s" % (i, e, o))
        else:
            ops[i] = ("P", None)
            L.append("def %d P" % i)
    ids = [str(i) for i in ops] + ["N"]
    desc = {str(i): v for i, v in ops.items()}
    desc["N"] = ("N", None)
    for a, b in itertools.product(ids, ids):
        if outside(desc[a], desc[b]):
            if cmpx:
                for op in OPS:
                    L.append("cmpx %s %s %s" % (op, a, b))
            continue
        for op in OPS:
            L.append("cmp %s %s %s" % (op, a, b))
        L.append("heq %s %s" % (a, b))
    sortable = [str(i) for i, (k, _) in ops.items() if k in "IM"] + ["N"]
    anon_ids = [str(i) for i, (k, _) in ops.items() if k == "A"] + ["N"]
    for _ in range(3):
        pool = anon_ids if len(anon_ids) > 2 and rnd.random() < 0.4 else sortable
        xs = [rnd.choice(pool) for _ in range(rnd.randint(2, 10))]
        if rnd.random() < 0.5:
            xs = list(dict.fromkeys(xs))
        while xs.count("N") > 1:          # `None < None` is a TypeError of Python's own
            xs.remove("N")
        L.append("sort " + " ".join(xs))
    return L, ops


def for_model(lines):
    """an interface with methods of its own is, for the comparison model, an interface (same key, same class of operand)"""
    return [re.sub(r"^(def \d+) C2? ", r"\1 I ", l) for l in lines]


def parse_defs(script):
    """operand descriptors from the `def` lines of a script (what `gen_script` returns as `ops`)"""
    def dec(s):
        return "" if s == "-" else "".join(chr(int(t)) for t in s.split(","))
    ops = {}
    for l in script:
        f = l.split()
        if f[0] != "def":
            continue
        if f[2] == "P":
            ops[f[1]] = ("P", None)
        elif f[2] == "W":
            ops[f[1]] = ("W", int(f[3]))
        elif f[2] == "S":
            ops[f[1]] = ("S", (f[3] == "1", None if f[4] == "n" else f[4] == "1"))
        else:
            k = (dec(f[3]), dec(f[4]))
            if f[2] == "M":
                ops[f[1]] = ("M", ((k[1] or "?") + "." + (k[0] or "?"), "zope.interface.declarations"))
            elif f[2] == "F":
                ops[f[1]] = ("F", k)
            elif final_kind(f[2], k[0]) == "A":
                ops[f[1]] = ("A", (None, k[1]))
            else:
                ops[f[1]] = ("I", k)
    return ops


def spec_answer(op, a, b, ops):
    """what the statement demands for `a op b`; None = the statement does not say"""
    ka = ops.get(a) if a != "N" else ("N", None)
    kb = ops.get(b) if b != "N" else ("N", None)
    if ka is None or kb is None or outside(ka, kb):
        return None
    A, B = ka[0], kb[0]
    if A in "IM" and B in "IM":
        x, y = ka[1], kb[1]
        if op in ("eq", "ne"):
            if A == "I" and B == "I":
                e = x == y
            elif A == "M" and B == "M":
                e = a == b
            else:
                return None
            return e if op == "eq" else not e
        return dict(lt=x < y, le=x <= y, gt=x > y, ge=x >= y)[op]
    if A == "A" and B == "A":
        # the pairs are (None, module): equal names, the modules decide
        x, y = ka[1][1], kb[1][1]
        return dict(lt=x < y, le=x <= y, gt=x > y, ge=x >= y, eq=x == y, ne=x != y)[op]
    if A in LIB and B == "N":
        return op in ("lt", "le", "ne")
    if A == "N" and B in LIB:
        return op in ("gt", "ge", "ne")
    # nameless foreign operands with comparison methods of their own: "reflected comparisons agree", so the foreign
    # operand's answer stands whichever side it is on
    if A in LIB and B == "S" or A == "S" and B in LIB:
        e, o = (kb if B == "S" else ka)[1]
        if op in ("eq", "ne"):
            return e if op == "eq" else not e
        return o                                   # None: no ordering method either side -> not judged here (see reflected)
    if op in ("eq", "ne") and (A in LIB and B == "W" or A == "W" and B in LIB):
        # a transparent proxy answers what its target answers
        if B == "W":
            return spec_answer(op, a, str(kb[1]), ops)
        return spec_answer(op, str(ka[1]), b, ops)
    return None


def oracle(chk, lines, outs, opsets):
    bad = []
    si = -1
    ans = {}

    def pair_laws():
        """`!=` is the negation of `==` and reflected comparisons agree — for every pair with a library operand on at
        least one side, whatever the other operand is (all ordered pairs x all operators were asked)"""
        for (op, a, b), (i, got) in ans.items():
            ka, kb = ops.get(a, ("N", None)), ops.get(b, ("N", None))
            if ka[0] not in LIB and kb[0] not in LIB:
                continue
            foreign = ka[0] in "WS" or kb[0] in "WS"
            rev = ans.get((SWAP[op], b, a))
            if rev is not None and (a, b) <= (b, a):
                chk.count("reflected_judged")
                if foreign:
                    chk.count("reflected_judged_vs_foreign_with_own_methods")
                if rev[1] != got:
                    bad.append((i, "reflected comparisons disagree: %s %s %s gives %s but %s %s %s gives %s [%r vs %r]" % (
                        a, op, b, got, b, SWAP[op], a, rev[1], ka, kb)))
            if op == "eq":
                ne = ans.get(("ne", a, b))
                if ne is not None:
                    chk.count("negation_judged")
                    if {got, ne[1]} != {"0", "1"}:
                        bad.append((ne[0], "!= is not the negation of ==: %s == %s gives %s and %s != %s gives %s [%r vs %r]" % (
                            a, b, got, a, b, ne[1], ka, kb)))
        ans.clear()

    for i, (line, out) in enumerate(zip(lines, outs)):
        f = line.split()
        if f[0] == "reset":
            pair_laws()
            si += 1
            ops = {str(k): v for k, v in opsets[si].items()}
            chk.count("operands_none_named", sum(1 for v in ops.values() if v[0] == "A"))
            chk.count("operands_proxy", sum(1 for v in ops.values() if v[0] == "W"))
            chk.count("operands_sentinel", sum(1 for v in ops.values() if v[0] == "S"))
            mods = [v[1][1] for v in ops.values() if v[0] == "A"]
            if len(mods) != len(set(mods)):
                chk.count("scripts_with_equal_none_named_pairs")
            continue
        if f[0] == "cmpx":
            # outside the domain (None-named interface vs string-named operand): executed, never judged
            chk.count("pairs_outside_domain_none_vs_str_name")
            continue
        if out.startswith("err") or out.startswith("nonbool") or out == "bad":
            bad.append((i, "%s -> %s" % (line, out)))
            continue
        if f[0] == "def" and f[2] in ("I", "D", "C", "C2"):
            want = "ok name=" + ("None" if ops[f[1]][0] == "A" else f[3])
            if out != want:
                bad.append((i, "%s: the constructor reports %s, expected %s" % (line, out, want)))
        elif f[0] == "cmp":
            ans[(f[1], f[2], f[3])] = (i, out)
            want = spec_answer(f[1], f[2], f[3], ops)
            if want is not None:
                chk.count("answers_judged")
                a, b = ops.get(f[2], ("N", None)), ops.get(f[3], ("N", None))
                if a[0] == "A" or b[0] == "A":
                    chk.count("answers_judged_none_named")
                if a[0] in "WS" or b[0] in "WS":
                    chk.count("answers_judged_vs_foreign_with_own_methods")
                if out != ("1" if want else "0"):
                    bad.append((i, "%s %s %s gives %s, the (name, module) order demands %s [%r vs %r]" % (
                        f[2], f[1], f[3], out, want, ops.get(f[2]), ops.get(f[3]))))
                a, b = ops.get(f[2]), ops.get(f[3])
                if a and b and a[0] in "IM" and b[0] in "IM" and a[1] != b[1] and f[1] == "lt" and a[1][0] != b[1][0] and \
                        (a[1][0] < b[1][0]) != (a[1][1] < b[1][1]):
                    chk.count("pairs_name_and_module_order_disagree")
        elif f[0] == "heq":
            if "HASH-INCONSISTENT" in out:
                bad.append((i, "%s: equal objects with different hash / not found in dict or set" % line))
            a, b = ops.get(f[1]), ops.get(f[2])
            if a and b and a[0] in "IA" and b[0] == a[0] and a[1] == b[1]:
                chk.count("equal_pairs_hash_judged")
                if a[0] == "A" and f[1] != f[2]:
                    chk.count("equal_pairs_hash_judged_none_named_distinct")
                if not out.startswith("1"):
                    bad.append((i, "interfaces %s and %s have equal keys %r and different hashes" % (f[1], f[2], a[1])))
        elif f[0] == "sort":
            got = out.split()
            inp = f[1:]
            if sorted(got) != sorted(inp):
                bad.append((i, "sorted() result %s is not a permutation of %s" % (got, inp)))
            else:
                # (None, module) pairs sort among themselves by module: "" stands for the shared None
                ks = [(1, ()) if g == "N" else (0, ("", ops[g][1][1]) if ops[g][0] == "A" else ops[g][1]) for g in got]
                if any(ks[j] > ks[j + 1] for j in range(len(ks) - 1)):
                    bad.append((i, "sorted() result %s is not ordered by (name, module) with None last: %s" % (got, ks)))
                chk.count("sorts_judged")
                if any(g != "N" and ops[g][0] == "A" for g in got):
                    chk.count("sorts_judged_none_named")
    pair_laws()
    return bad


class _Null:
    def count(self, *a, **k):
        pass


def run_all(chk, lines, modes=("c", "py"), seeds=SEEDS):
    outs = {}
    divs = []
    models = {m: core.run_model("order", for_model(lines), [m]) for m in modes}
    for m in modes:
        for hs in seeds:
            try:
                out = core.run_impl("order", lines, m, env_extra={"PYTHONHASHSEED": hs})
            except core.ImplBroken as e:
                divs.append(dict(mode=m, index=-1, line="", impl="<implementation could not be run: %s>" % str(e)[-1200:], model="", script=[], label="order"))
                continue
            # comparisons outside the domain: record what the implementation does, then take them out of every comparison
            for i, l in enumerate(lines):
                if l.startswith("cmpx") and i < len(out):
                    if hs == seeds[0]:
                        k = "outside_domain_answers_%s" % m
                        chk.counters.setdefault(k, {})
                        chk.counters[k][out[i].split(":")[0]] = chk.counters[k].get(out[i].split(":")[0], 0) + 1
                    out[i] = "outside"
            outs[(m, hs)] = out
            chk.count("lines_%s" % m, len(lines))
            for i in core.first_diffs(lines, [o.split(" HASH")[0] for o in out], models[m], limit=5):
                s, e = runner.script_of(lines, min(i, len(lines) - 1))
                defs = [l for l in lines[s:e] if l.startswith(("reset", "def"))]
                divs.append(dict(mode=m, index=i, line=lines[i] if i < len(lines) else "<length>", impl=out[i] if i < len(out) else "<missing>",
                                 model=models[m][i] if i < len(models[m]) else "<missing>", script=defs + [lines[i]] if i < len(lines) else defs,
                                 label="order seed=%s" % hs))
    return outs, divs


def related(line):
    """a comparison line together with its reflected form and the ==/!= pair (what the pair laws are about)"""
    f = line.split()
    if f[0] != "cmp":
        return [line]
    res = [line, "cmp %s %s %s" % (SWAP[f[1]], f[3], f[2])]
    if f[1] in ("eq", "ne"):
        other = "ne" if f[1] == "eq" else "eq"
        res += ["cmp %s %s %s" % (other, f[2], f[3]), "cmp %s %s %s" % (other, f[3], f[2])]
    return list(dict.fromkeys(res))


def check(tier):
    chk = core.Check("C12", tier)
    chk.obligations(THEOREMS)
    rnd = core.rng("C12")
    nscripts = {"quick": 90, "thorough": 500}[tier]
    scripts, opsets = [], []
    for _ in range(nscripts):
        s, o = gen_script(rnd, tier, cmpx=True)
        scripts.append(s)
        opsets.append(o)
    lines = [l for s in scripts for l in s]
    for s in scripts:
        docless = {}
        for l in s:
            f = l.split()
            if f[0] == "def" and f[2] == "I" and 32 in [int(t) for t in f[3].split(",") if t != "-"]:
                docless.setdefault(f[4], set()).add(f[3])
        if any(len(v) > 1 for v in docless.values()):
            chk.count("scripts_with_equal_none_named_pairs_from_different_texts")
    outs, divs = run_all(chk, lines)
    fails = []
    ref = None
    for (m, hs), out in outs.items():
        for idx, msg in oracle(chk if (m, hs) == ("c", SEEDS[0]) else _Null(), lines, out, opsets):
            s, e = runner.script_of(lines, idx)
            fails.append(dict(mode=m, seed=hs, script=[l for l in lines[s:e] if l.startswith(("reset", "def"))] + related(lines[idx]), message=msg, observed=out[idx]))
        # process / hash seed / implementation independence: every run must give the same answers
        if ref is None:
            ref = ((m, hs), out)
        else:
            for i in core.first_diffs(lines, out, ref[1], limit=3):
                if i < len(lines):
                    s, e = runner.script_of(lines, i)
                    fails.append(dict(mode=m, seed=hs, script=[l for l in lines[s:e] if l.startswith(("reset", "def"))] + [lines[i]],
                                      message="answer depends on implementation / hash seed: %s gives %r under %s and %r under %s" % (
                                          lines[i], out[i], (m, hs), ref[1][i], ref[0]), observed=out[i]))
    seen = set()
    for f in fails:
        k = f["message"].split(" gives ")[0][:40] if "demands" not in f["message"] else f["message"].split()[1] + f["mode"]
        if k in seen or len(seen) >= 3:
            continue
        seen.add(k)
        chk.violation("%s [mode=%s PYTHONHASHSEED=%s]" % (f["message"], f["mode"], f["seed"]),
                      dict(kind="input", mode=f["mode"], hashseed=f["seed"], script=f["script"], observed=f["observed"], expected_by="spec", minimised=True))
    if not fails:
        runner.report_divergences(chk, divs, "comparison-layer correspondence (ZI.Order.methodC / methodPy vs IB_richcompare / NameAndModuleComparisonMixin); theorem ZI.Order.C12_twin",
                                  "statement oracle accepted all %d judged answers" % chk.counters.get("answers_judged", 0))
        core.lean_failure_violation(chk)
    core.source_obligation_violation(chk, core.source_obligations(chk, ["mixinCompare_src_eq"]), fails)
    chk.samples.append(scripts[0][:12] + scripts[0][-3:])
    chk.counters["hash_seeds"] = SEEDS
    return chk.finish(len(lines) * len(outs), chk.counters.get("pairs_name_and_module_order_disagree", 0),
                      "operand sets of 6-10 objects (interfaces incl. equal-key distinct objects, built docless or with a docstring, incl. names with a blank "
                      "that the docless constructor turns into None-named interfaces with equal final pairs from different texts; class specifications; foreign "
                      "objects with and without __name__/__module__; nameless foreign objects with comparison methods of their own: transparent proxies of an "
                      "interface and constant-answer sentinels (mock.ANY); None) over a pool of empty / prefix-related / non-ASCII names and modules; ALL ordered "
                      "pairs x 6 operators + hash relation (None-named vs string-named pairs are outside the domain: executed, counted, not judged), the pair laws "
                      "(!= negates ==, reflected comparisons agree) on every pair with a library operand, and sorts of shuffled mixed lists; each batch on 2 implementations x 3 PYTHONHASHSEED values; distinct_nontrivial = '<' comparisons of "
                      "pairs whose names and modules are ordered oppositely (the case a module-before-name comparison gets wrong)")


def replay(path):
    rep = runner.load_replay(path)
    script = rep["script"]
    mode = rep.get("mode", "c")
    out = core.run_impl("order", script, mode, env_extra={"PYTHONHASHSEED": str(rep.get("hashseed", "0"))})
    model = core.run_model("order", for_model(script), [mode])
    bad = 0
    if not script or script[0] != "reset":
        script = ["reset"] + list(script)
        out = ["ok"] + list(out)
        model = ["ok"] + list(model)
    out = ["outside" if l.startswith("cmpx") else o for l, o in zip(script, out)]
    notes = {}
    for i, msg in oracle(_Null(), script, out, [parse_defs(script)]):
        notes.setdefault(i, []).append("SPEC: " + msg)
    for i, (l, o, m) in enumerate(zip(script, out, model)):
        if o.split(" HASH")[0] != m:
            notes.setdefault(i, []).append("MODEL: " + m)
        bad += len(notes.get(i, ()))
        print("%-40s impl: %s%s" % (l, o, "".join("   " + x for x in notes.get(i, ()))))
    if bad:
        print("VIOLATION property=C12 replay=%s" % path)
        return 1
    print("replay passes on the current tree")
    return 0
