"""The declaration-query twins stream (C10, C01): providedBy / getObjectSpecification / implementedBy on REAL objects of every
shape the code distinguishes (where `__providedBy__`, `__provides__`, the class's `__provides__`, `__class__` and `extends`
are absent, specifications, proxies of specifications, junk, or raise), with and without a direct declaration, instances
with a `__dict__` and fully slotted ones, `super` proxies, classes of every declaration style, builtins, callables.

Lean: ZI/SpecTwin.lean models each twin separately over the *view* of the probes; ZI/Props/C10.lean proves them equal
(C10_providedBy_twin, C10_getObjectSpecification_twin, C10_implementedBy_twin).  Tie: the executor probes the view of each
real object, the driver evaluates both twins on it, and each implementation must answer as its own twin.  Oracles: the two
implementations agree with each other (C10), and a direct declaration that succeeded on an ordinary object is reported by
`I.providedBy(ob)` and `providedBy(ob)` (C01)."""
from .. import core

THEOREMS = ["ZI.SpecTwin.C10_providedBy_twin", "ZI.SpecTwin.C10_getObjectSpecification_twin", "ZI.SpecTwin.C10_implementedBy_twin",
            "ZI.SpecTwin.C10_sbProvidedBy_twin", "ZI.SpecTwin.C10_osd_get_twin", "ZI.SpecTwin.C10_cpb_get_twin", "ZI.SpecTwin.C10_providedBy_twin_pinned", "ZI.SpecTwin.C10_providedBy_pinned_diverges"]

CONT = ["dict", "slots", "slotsnp", "super"]
PB = ["absent", "desc", "descwarm", "junk", "proxy", "spec", "raiseA", "raiseO", "extraise"]
PR = ["absent", "junk", "none", "proxy", "raise"]
CP = ["absent", "same", "other", "raise"]
CM = ["ok", "attrerr"]
DECL = ["no", "dp"]
CL = ["plain", "declared", "oldstyle", "nonespec", "builtin", "super", "callable", "instance", "object"]


def gen_lines(rnd, tier):
    """the complete product in the thorough tier; in the quick tier the ordinary shapes completely and a sample of the rest"""
    full = [(a, b, c, d, e, f) for a in CONT for b in PB for c in PR for d in CP for e in CM for f in DECL]
    if tier == "thorough":
        pick = full
    else:
        ordinary = [x for x in full if x[3] == "absent" and x[4] == "ok"]
        rest = [x for x in full if not (x[3] == "absent" and x[4] == "ok")]
        pick = ordinary + rnd.sample(rest, 500)
    lines = ["ob %s %s %s %s %s %s" % x for x in pick]
    lines += ["cl %s %d" % (k, j) for k in CL for j in range(8)]
    rnd.shuffle(lines)
    return lines


def _split(o):
    """-> (pb view line, pb result, gos view line, gos result, decl, holds, listed) or ('ib', view, result, again)"""
    if o.startswith("pb "):
        a = o.split(" | ")
        v1, r1 = a[0].split(" => ")
        v2, r2 = a[1][4:].split(" => ")
        d = a[2].split()
        return ("pb", v1, r1.strip(), "pb " + v2, r2.strip(), d[1], d[3], d[5])
    if o.startswith("ib "):
        v, r = o.split(" => ")
        rr = r.split()
        return ("ib", v, rr[0], rr[2])
    return ("bad", o)


def run(chk, tier, rnd, want=("c10", "c01")):
    """-> list of failures dict(prop, mode, script, message, observed, expected, kind); counters go to chk"""
    lines = gen_lines(rnd, tier)
    fails = []
    outs = {}
    for m in ("c", "py"):
        try:
            outs[m] = core.run_impl("spectwin", lines, m)
        except core.ImplBroken as e:
            fails.append(dict(prop="C10", mode=m, script=lines[:1], message="the %s implementation cannot run the declaration-query stream: %s" % (m, str(e)[-300:]),
                              observed="<no answer>", expected="", kind="crash"))
            outs[m] = None
    chk.count("spectwin_objects", len(lines))
    parsed = {}
    for m in ("c", "py"):
        if outs[m] is None:
            continue
        P = [_split(o) for o in outs[m]]
        parsed[m] = P
        # the model's verdict on every probed view
        ins, where = [], []
        for i, p in enumerate(P):
            if p[0] == "pb":
                ins += [p[1], p[3]]
                where.append(i)
            elif p[0] == "ib":
                ins.append(p[1])
                where.append(i)
            else:
                fails.append(dict(prop="C10", mode=m, script=[lines[i]], message="executor could not build / probe %s: %s" % (lines[i], outs[m][i][:200]),
                                  observed=outs[m][i], expected="", kind="executor"))
        mo = core.run_model("spectwin", ins)
        k = 0
        key = "c" if m == "c" else "py"
        for i in where:
            p = P[i]
            if p[0] == "pb":
                m1 = dict(x.split("=", 1) for x in mo[k].split())
                m2 = dict(x.split("=", 1) for x in mo[k + 1].split())
                k += 2
                e1, e2 = m1[key], m2["gosc" if m == "c" else "gospy"]
                chk.count("spectwin_twin_answers_" + m, 2)
                if m1["c"] != m1["py"] or m2["gosc"] != m2["gospy"]:
                    chk.count("views_outside_twin_theorem_guard", 1)       # only possible if SpecHasExtends fails for a real object
                if m1["cpinned"] != m1["py"]:
                    chk.count("views_on_which_the_pinned_C_code_diverged", 1)
                if e1 not in p[2].split("="):
                    fails.append(dict(prop="C10", mode=m, script=[lines[i]], kind="model",
                                      message="providedBy on the object built by `%s` (view `%s`): the %s implementation answers %s, its twin model %s" % (
                                          lines[i], p[1], m, p[2], e1), observed=p[2], expected=e1))
                if e2 not in p[4].split("="):
                    fails.append(dict(prop="C10", mode=m, script=[lines[i]], kind="model",
                                      message="getObjectSpecification on the object built by `%s` (view `%s`): the %s implementation answers %s, its twin model %s" % (
                                          lines[i], p[3], m, p[4], e2), observed=p[4], expected=e2))
            else:
                mm = dict(x.split("=", 1) for x in mo[k].split())
                k += 1
                chk.count("spectwin_twin_answers_" + m, 1)
                if mm[key] != p[2]:
                    fails.append(dict(prop="C10", mode=m, script=[lines[i]], kind="model",
                                      message="implementedBy on `%s` (view `%s`): the %s implementation answers %s, its twin model %s" % (lines[i], p[1], m, p[2], mm[key]),
                                      observed=p[2], expected=mm[key]))
                if p[3] not in ("same",) and not p[3].startswith("!"):
                    fails.append(dict(prop="C01", mode=m, script=[lines[i]], kind="oracle",
                                      message="implementedBy(%s) twice: second call %s" % (lines[i], p[3]), observed=p[3], expected="same"))
        # C01 on the real objects: a direct declaration that succeeded on an ordinary object is reported
        for i, p in enumerate(P):
            if p[0] == "pb" and p[5] == "ok" and p[6] != "-":
                chk.count("spectwin_direct_declarations_judged_" + m, 1)
                if p[6] != "1" or p[7] != "1":
                    fails.append(dict(prop="C01", mode=m, script=[lines[i]], kind="oracle",
                                      message="directlyProvides(ob, IDecl) succeeded on the object built by `%s` but IDecl.providedBy(ob) -> %s, IDecl in providedBy(ob) -> %s [mode=%s]" % (
                                          lines[i], p[6], p[7], m), observed="%s %s" % (p[6], p[7]), expected="1 1"))
    # C10 directly: the two implementations on the same recipe (same view) answer alike
    if "c" in parsed and "py" in parsed:
        for i, (a, b) in enumerate(zip(parsed["c"], parsed["py"])):
            if a[0] != b[0] or a[0] == "bad":
                continue
            if a[0] == "pb":
                same_view = a[1] == b[1] and a[3] == b[3]
                ra = (set(a[2].split("=")), set(a[4].split("=")), a[5:])
                rb = (set(b[2].split("=")), set(b[4].split("=")), b[5:])
                agree = bool(ra[0] & rb[0]) and bool(ra[1] & rb[1]) and ra[2] == rb[2]
            else:
                same_view = a[1] == b[1]
                agree = a[2:] == b[2:]
            if same_view:
                chk.count("spectwin_direct_comparisons", 1)
            if same_view and not agree:
                fails.append(dict(prop="C10", mode="c-vs-py", script=[lines[i]], kind="direct",
                                  message="`%s`: C accelerator answers %r, Python reference answers %r" % (lines[i], outs["c"][i][:300], outs["py"][i][:300]),
                                  observed=outs["c"][i], expected=outs["py"][i]))
    return [f for f in fails if f["prop"].lower() in want or f["kind"] in ("crash", "executor")]


def replay_script(script, prop):
    """re-run recipe lines; -> number of problems"""
    class _Chk:
        counters = {}

        def count(self, k, n=1):
            pass
    import random
    lines = script

    def gen(rnd, tier):
        return lines
    global gen_lines
    saved = gen_lines
    gen_lines = gen
    try:
        fails = run(_Chk(), "quick", random.Random(0), want=("c10", "c01"))
    finally:
        gen_lines = saved
    for f in fails:
        print(f["message"])
    return len(fails)
