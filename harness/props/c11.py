"""C11 — lookups stay memory-safe and atomic when other code mutates the registry.

(1) Ownership protocol and detachment, proved and tied by TRANSLATION: tools/cextract.py regenerates, from the current C
    source, the ownership IR (ZI.Own) of _lookup / _lookupAll / _subscriptions / _verify and the fetch-callback-store IR
    (ZI.Detach) of the three lookup functions, plus the iteration mode of the Python loops run by changed(); Lean decides
    `check prog = true` for each against the built library.  Theorems ZI.Own.check_sound (no freed object is ever read or
    written, for every environment behaviour at callbacks) and ZI.Detach.check_sound (no answer older than the live cache is
    ever stored into it).
(2) Runtime tie and failing-input search: re-entrancy injection through public extension points (overridden _uncached_*,
    lazy `required`, __providedBy__ descriptors, raising factories, specifications whose unsubscribe looks up) on both
    flavours and twins; the thorough tier adds a thread stress.
PARTIAL: thread schedules finer than callback granularity in the pure-Python twin, free-threaded builds and allocator
behaviour beyond the dict free list are not exhibited by the model."""
import os
import re
import subprocess
import sys
import threading

from .. import core, runner

THEOREMS = ["ZI.Own.check_sound", "ZI.Own.safe_op", "ZI.Own.inv_step", "ZI.Detach.check_sound", "ZI.Detach.safe_store", "ZI.Detach.rel_step"]
GEN_THEOREMS = ["own_lookup", "own_lookupAll", "own_subscriptions", "own_verify", "detach_lookup", "detach_lookupAll", "detach_subscriptions", "loops_snapshot"]
EPS = ["lookup", "lookup1", "lookupAll", "subscriptions", "queryAdapter", "adapter_hook", "queryMultiAdapter"]


def translate(chk):
    """regenerate the IR from the current sources and let Lean decide the obligations; -> list of unmet obligations"""
    src = os.path.join(core.REPO, "src", "zope", "interface", "_zope_interface_coptimizations.c")
    d = core.scratch_dir("zi-c11-")
    gen = os.path.join(d, "COwnGen.lean")
    p = subprocess.run([sys.executable, os.path.join(core.VERIF, "tools", "cextract.py"), src], capture_output=True, text=True)
    if p.returncode != 0:
        return ["translator failed (fails closed): " + (p.stderr or p.stdout)[-400:]], ""
    open(gen, "w").write(p.stdout)
    q = subprocess.run(["lake", "env", "lean", gen], cwd=core.LEAN_DIR, capture_output=True, text=True)
    unmet = []
    text = q.stdout + q.stderr
    for t in GEN_THEOREMS:
        if ("theorem %s " % t) not in p.stdout:
            unmet.append("obligation %s was not generated" % t)
    if "FAIL-CLOSED" in p.stdout:
        unmet.append("unclassified C statements: " + "; ".join(l for l in p.stdout.splitlines() if "FAIL-CLOSED" in l)[:400])
    if q.returncode != 0:
        import re
        for m in re.finditer(r"COwnGen\.lean:(\d+):\d+: error", text):
            ln = p.stdout.splitlines()[int(m.group(1)) - 1]
            unmet.append("obligation no longer checks: " + ln[:120])
        if not unmet:
            unmet.append("lean failed on the generated obligations: " + text[-300:])
    chk.count("generated_obligations", len(GEN_THEOREMS))
    chk.count("generated_obligations_discharged", len(GEN_THEOREMS) - len(unmet))
    return unmet, p.stdout


def scenarios(tier):
    L = []
    for fl in ("push", "verifying"):
        for ep in EPS:
            L.append("stray %s %s" % (fl, ep))
            L.append("stale %s %s" % (fl, ep))
            L.append("stale-pre %s %s" % (fl, ep))
            if ep in ("queryAdapter", "adapter_hook", "queryMultiAdapter", "lookup"):
                L.append("leak %s %s" % (fl, ep))
            if ep in ("lookup", "lookupAll", "subscriptions"):
                L.append("lazyreq %s %s" % (fl, ep))
            if ep in ("queryAdapter", "adapter_hook"):
                L.append("descr %s %s" % (fl, ep))
            if ep in ("lookup", "lookup1", "queryAdapter", "adapter_hook", "queryMultiAdapter"):
                L.append("midwalk %s %s" % (fl, ep))
            L.append("shrink %s %s" % (fl, ep))
        L.append("pychanged %s lookup" % fl)
    return L


STRESS = r'''
import sys, threading, time, os
ov = os.environ["ZI_OVERLAY"]
import zope
zope.__path__ = [os.path.join(ov, "zope")] + list(zope.__path__)
from zope.interface import Interface, implementer
from zope.interface.adapter import AdapterRegistry, VerifyingAdapterRegistry
sys.setswitchinterval(1e-6)
class IR(Interface): pass
class IR2(IR): pass
class IP(Interface): pass
@implementer(IR2)
class Ob: pass
errors = []
for Reg in (AdapterRegistry, VerifyingAdapterRegistry):
    base = Reg(); reg = Reg((base,))
    base.register((IR,), IP, "", lambda o: "a")
    stop = time.time() + float(sys.argv[1])
    def looker():
        ob = Ob()
        try:
            while time.time() < stop:
                r = reg.queryAdapter(ob, IP, "")
                if r not in ("a", "b"): errors.append("wrong answer %r" % (r,)); return
                reg.lookup((IR2,), IP, ""); list(reg.lookupAll((IR2,), IP)); reg.subscriptions((IR2,), IP)
        except Exception as e:
            errors.append("lookup thread: %s %s" % (type(e).__name__, e))
    def mutator():
        n = 0
        try:
            while time.time() < stop:
                n += 1
                reg.register((IR2,), IP, "", (lambda o: "b"))
                reg.unregister((IR2,), IP, "")
                base.subscribe((IR,), IP, n); base.unsubscribe((IR,), IP, n)
        except Exception as e:
            errors.append("mutator: %s %s" % (type(e).__name__, e))
    ts = [threading.Thread(target=looker) for _ in range(3)] + [threading.Thread(target=mutator)]
    [t.start() for t in ts]; [t.join() for t in ts]
import re
kinds = sorted({re.sub(r" at 0x[0-9a-f]+", "", e) for e in errors})
print("STRESS-ERRORS" if errors else "STRESS-OK", kinds[:10])
'''


def stress(seconds):
    ov = core.build_overlay()
    res = {}
    for m in ("c", "py"):
        env = dict(os.environ, ZI_OVERLAY=ov["path"], PURE_PYTHON="1" if m == "py" else "0")
        try:
            p = subprocess.run([core.PY, "-c", STRESS, str(seconds)], capture_output=True, text=True, env=env, timeout=seconds * 4 + 120)
            res[m] = ("rc=%d " % p.returncode) + (p.stdout.strip().splitlines() or [""])[-1][:300]
        except subprocess.TimeoutExpired:
            res[m] = "timeout"
    return res


def check(tier):
    chk = core.Check("C11", tier)
    chk.obligations(THEOREMS, ["C11_atomic (step-granularity interleavings of one mutator with any number of lookups) — stated in DESIGN.md, exercised by the "
                               "stale / stale-pre scenarios and the thread stress only"])
    unmet, gen_src = translate(chk)
    lines = scenarios(tier)
    fails = []
    for m in ("c", "py"):
        try:
            out = core.run_impl("reentry", lines, m)
        except core.ImplBroken as e:
            # a crash of the interpreter inside a scenario IS the failing input
            bad = runner.isolate_crash("reentry", lines, m) if False else None
            for l in lines:
                try:
                    core.run_impl("reentry", [l], m, timeout=60)
                except core.ImplBroken as e2:
                    fails.append(dict(mode=m, script=[l], message="the interpreter crashed or hung in scenario %r: %s" % (l, str(e2)[-200:]), observed="<crash>"))
                    break
            continue
        chk.count("scenarios_%s" % m, len(lines))
        for l, o in zip(lines, out):
            if o != "ok":
                fails.append(dict(mode=m, script=[l], message="%s -> %s" % (l, o), observed=o))
    if tier == "thorough":
        res = stress(20)
        chk.counters["thread_stress"] = res
        for m, r in res.items():
            if r.startswith("rc=0 STRESS-ERRORS"):
                import ast
                try:
                    kinds = ast.literal_eval(r[len("rc=0 STRESS-ERRORS"):].strip())
                except Exception:  # noqa
                    kinds = [r]
                # the recorded finding: the per-specification dependents count corrupted by a lookup thread's _subscribe racing
                # with changed() -> KeyError(<weakref to the lookup object>) out of Specification.unsubscribe
                known_re = re.compile(r"^(lookup thread|mutator): KeyError <weakref; to '(Verifying)?AdapterLookup'>$")
                if kinds and all(known_re.match(k) for k in kinds):
                    chk.violation("known", dict(), sig="threads-dependents-count-keyerror")
                    chk.counters["known_finding_thread_stress_%s" % m] = kinds
                    continue
            if not r.startswith("rc=0 STRESS-OK"):
                fails.append(dict(mode=m, script=["<thread stress: 3 lookup threads vs 1 mutator, switch interval 1us, 20 s per flavour>"],
                                  message="thread stress: %s" % r, observed=r))
    seen = set()
    for f in fails:
        k = f["script"][0].split()[0] + f["mode"]
        if k in seen or len(seen) >= 4:
            continue
        seen.add(k)
        chk.violation("%s [mode=%s]" % (f["message"], f["mode"]),
                      dict(kind="schedule", mode=f["mode"], script=f["script"], observed=f["observed"], expected_by="spec", minimised=True))
    if unmet and not fails:
        chk.violation("proof obligations regenerated from the current sources no longer check: " + " | ".join(unmet)[:900] +
                      "; the re-entrancy scenarios found no failing schedule",
                      dict(kind="obligation", theorem_or_correspondence=unmet, generated=gen_src[:3000]), failing_input=False)
    elif unmet:
        chk.notes.append("unmet generated obligations: " + " | ".join(unmet)[:600])
    if not fails and not unmet:
        core.lean_failure_violation(chk)
    chk.samples.extend(lines[:6])
    ev = chk.finish(len(lines) * 2, len(lines),
                    "translation: the ownership IR of 4 C functions and the fetch/callback/store IR of 3, plus the iteration mode of the Python loops in changed(), "
                    "regenerated from the current sources and decided by Lean (8 generated obligations); runtime: 9 re-entrancy scenarios x 2 registry flavours x up to 7 "
                    "entry points x 2 twins (stray write through a dangling cache pointer, stale answer after a mutation inside the uncached computation, mutation before "
                    "the computation, reference leaks on failing factories / unhashable provided, lazy `required`, mutating __providedBy__, re-entered changed()); "
                    "thorough adds a 4-thread stress per flavour and twin; distinct_nontrivial = scenarios",
                    dict(obligations=len(THEOREMS) + len(GEN_THEOREMS), discharged=(chk.lean or {}).get("discharged", 0) + len(GEN_THEOREMS) - len(unmet),
                         generated_from="src/zope/interface/_zope_interface_coptimizations.c, adapter.py, interface.py (tools/cextract.py)"))
    return ev


def replay(path):
    rep = runner.load_replay(path)
    script = rep.get("script") or []
    mode = rep.get("mode", "c")
    if rep.get("kind") == "obligation" or not script or script[0].startswith("<"):
        chk = core.Check("C11", "quick")
        unmet, _ = translate(chk)
        print("\n".join(unmet) or "all generated obligations check on the current tree")
        if unmet:
            print("VIOLATION property=C11 replay=%s" % path)
            return 1
        return 0
    out = core.run_impl("reentry", script, mode)
    bad = 0
    for l, o in zip(script, out):
        print("%-40s %s" % (l, o))
        bad += o != "ok"
    if bad:
        print("VIOLATION property=C11 replay=%s" % path)
        return 1
    print("replay passes on the current tree")
    return 0
