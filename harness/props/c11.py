"""C11 — lookups stay memory-safe and atomic when other code mutates the registry.

(1) Ownership protocol and detachment, proved and tied by TRANSLATION: tools/cextract.py regenerates, from the current C
    source, the ownership IR (ZI.Own) of _lookup / _lookupAll / _subscriptions / _verify and the fetch-callback-store IR
    (ZI.Detach) of the three lookup functions, plus the iteration mode of the Python loops run by changed(); Lean decides
    `check prog = true` for each against the built library.  Theorems ZI.Own.check_sound (no freed object is ever read or
    written, for every environment behaviour at callbacks) and ZI.Detach.check_sound (no answer older than the live cache is
    ever stored into it).
(2) Runtime tie and failing-input search: re-entrancy injection through public extension points (overridden _uncached_*,
    lazy `required`, __providedBy__ descriptors, raising factories, specifications whose unsubscribe looks up) on both
    flavours and twins; the thorough tier adds a thread stress.
(3) The dual schedules — a MUTATOR interrupted by lookups (`inmut`): every point of register / unregister / subscribe /
    unsubscribe / rebuild at which other Python code can run (the calls into the documented storage hooks _sequenceType,
    _mappingType, _providedType, _leafSequenceType), crossed with where the lookups go (the registry itself, registries one
    and two levels below, verifying ones) and who makes them (re-entrant code, a second thread the mutator is forced to
    yield to at that point).  Oracle: a ledger of what the scenario registered.  The mutators' own step sequences are
    translated from adapter.py (tools/cextract.py) into the IR of ZI.Mutator and Lean decides that each one leaves no
    stale cache entry behind (theorem ZI.Mutator.wipes_sound: changed() after the last write on every path).
PARTIAL: thread schedules finer than callback granularity in the pure-Python twin, free-threaded builds and allocator
behaviour beyond the dict free list are not exhibited by the model."""
import os
import re
import subprocess
import sys
import threading

from .. import core, runner

THEOREMS = ["ZI.Own.check_sound", "ZI.Own.safe_op", "ZI.Own.inv_step", "ZI.Own.checkL_imp_check", "ZI.Own.lstep_count", "ZI.Own.checkL_balanced", "ZI.Own.C11_balanced",
            "ZI.Own.leak_rejected", "ZI.Own.balanced_accepted", "ZI.Detach.check_sound", "ZI.Detach.safe_store", "ZI.Detach.rel_step",
            "ZI.Mutator.wipes_sound", "ZI.Mutator.post_sound", "ZI.Mutator.step_sound",
            "ZI.Resub.check_sound", "ZI.Resub.cached_is_subscribed", "ZI.Resub.old_order_rejected", "ZI.Resub.new_order_accepted", "ZI.Resub.old_order_witness"]
GEN_THEOREMS = ["own_subcache", "own_getcache", "own_lookup", "own_lookup1", "own_lookupAll", "own_subscriptions", "own_verify", "detach_lookup", "detach_lookupAll", "detach_subscriptions", "loops_snapshot",
                "mutators_wipe", "changed_resubscribes"]
EPS = ["lookup", "lookup1", "lookupAll", "subscriptions", "queryAdapter", "adapter_hook", "queryMultiAdapter"]


def translate(chk):
    """regenerate the IR from the current sources and let Lean decide the obligations; -> list of unmet obligations"""
    src = os.path.join(core.REPO, "src", "zope", "interface", "_zope_interface_coptimizations.c")
    d = core.scratch_dir("zi-c11-")
    gen = os.path.join(d, "COwnGen.lean")
    p = subprocess.run([sys.executable, os.path.join(core.VERIF, "tools", "cextract.py"), src], capture_output=True, text=True)
    if p.returncode != 0:
        return ["translator failed (fails closed): " + (p.stderr or p.stdout)[-400:]], ""
    open(gen, "w").write(p.stdout)
    q = subprocess.run(["lake", "env", "lean", gen], cwd=core.LEAN_DIR, capture_output=True, text=True)
    unmet = []
    text = q.stdout + q.stderr
    for t in GEN_THEOREMS:
        if ("theorem %s " % t) not in p.stdout:
            unmet.append("obligation %s was not generated" % t)
    if "FAIL-CLOSED" in p.stdout:
        unmet.append("unclassified C statements: " + "; ".join(l for l in p.stdout.splitlines() if "FAIL-CLOSED" in l)[:400])
    if q.returncode != 0:
        import re
        for m in re.finditer(r"COwnGen\.lean:(\d+):\d+: error", text):
            ln = p.stdout.splitlines()[int(m.group(1)) - 1]
            unmet.append("obligation no longer checks: " + ln[:120])
            if "mutators_wipe" in ln:
                bad = re.findall(r'\("mp_(\w+)", false\)', text)
                unmet[-1] += " [a lookup running at a hook of %s can leave an answer in a cache that the rest of the mutator outdates: on some path the last write is not followed by an effective self.changed()]" % ", ".join(bad)
        if not unmet:
            unmet.append("lean failed on the generated obligations: " + text[-300:])
    chk.count("generated_obligations", len(GEN_THEOREMS))
    chk.count("generated_obligations_discharged", len(GEN_THEOREMS) - len(unmet))
    return unmet, p.stdout


def scenarios(tier):
    L = []
    for fl in ("push", "verifying"):
        for ep in EPS:
            L.append("stray %s %s" % (fl, ep))
            L.append("stale %s %s" % (fl, ep))
            L.append("stale-pre %s %s" % (fl, ep))
            L.append("stale-rebase %s %s" % (fl, ep))
            L.append("leak2 %s %s" % (fl, ep))
            L.append("delhook %s %s" % (fl, ep))
            L.append("notifyhook %s %s" % (fl, ep))
            L.append("delleak %s %s" % (fl, ep))
            L.append("provleak %s %s" % (fl, ep))
            L.append("mixrebase %s %s" % (fl, ep))
            for who in ("provided", "required", "name"):
                L.append("hashhook %s %s %s" % (fl, ep, who))
            if fl == "verifying":
                L.append("genhook %s %s" % (fl, ep))
                L.append("eqhook %s %s" % (fl, ep))
            if ep in ("queryAdapter", "adapter_hook", "queryMultiAdapter"):
                L.append("superself %s %s" % (fl, ep))
            if ep in ("queryAdapter", "adapter_hook", "queryMultiAdapter", "lookup"):
                L.append("leak %s %s" % (fl, ep))
            if ep in ("lookup", "lookupAll", "subscriptions"):
                L.append("lazyreq %s %s" % (fl, ep))
                L.append("leak3 %s %s" % (fl, ep))
            if ep in ("queryAdapter", "adapter_hook"):
                L.append("descr %s %s" % (fl, ep))
            if ep in ("lookup", "lookup1", "queryAdapter", "adapter_hook", "queryMultiAdapter"):
                L.append("midwalk %s %s" % (fl, ep))
            L.append("shrink %s %s" % (fl, ep))
            L.append("midrebase %s %s" % (fl, ep))
        L.append("pychanged %s lookup" % fl)
    return L + inmut_lines(tier)


MUTATORS = ["register", "replace", "unregister", "unregister-last", "subscribe", "subscribe-new", "unsubscribe", "unsubscribe-last", "rebuild"]
COMBOS = [(fl, pl, how) for fl in ("push", "verifying") for pl in ("same", "below1", "below2", "mixed") for how in ("reenter", "thread")
          if not (pl == "mixed" and fl == "verifying")]       # `mixed`: verifying registries below an invalidating one
QUICK_STRIDE = 5


def inmut_lines(tier):
    """mutator x (flavour, placement of the lookups, re-entrant / thread) x point of the mutator.  thorough: every point for every
    combination; quick: the combinations take turns — combination i visits the points k with (k + i + seed) % 5 == 0, so that every
    point of every mutator is visited by two or three of the fourteen combinations"""
    stride = 1 if tier == "thorough" else QUICK_STRIDE
    return ["inmut %s %s %s %s %d %d" % (fl, pl, mu, how, stride, (i + core.seed()) % stride)
            for mu in MUTATORS for i, (fl, pl, how) in enumerate(COMBOS)]


def inmut_stats(chk, mode, lines, out):
    """evidence for the `inmut` class: how many points each mutator has, how many were visited, what was asked there"""
    pts, visited = {}, {}
    for l, o in zip(lines, out):
        f = l.split()
        if f[0] != "inmut" or not o.startswith("ok "):
            continue
        st = dict(kv.split("=") for kv in o.split()[1:])
        mu, stride, off, P = f[3], int(f[5]), int(f[6]), int(st["points"])
        pts[mu] = max(pts.get(mu, 0), P)
        visited.setdefault(mu, set()).update(k for k in range(1, P + 1) if (k + off) % stride == 0)
        chk.count("inmut_lines_%s" % mode)
        chk.count("inmut_interrupted_mutator_runs_%s" % mode, int(st["runs"]))
        chk.count("inmut_lookups_judged_%s" % mode, int(st["lookups"]))
        chk.count("inmut_%s_runs_%s" % (f[4], mode), int(st["runs"]))
        chk.count("inmut_runs_lookups_%s_%s" % ("same" if f[2] == "same" else "below", mode), int(st["runs"]))
        # lookups inside rebuild() that saw a registry holding only part of the registrations (neither the state before
        # nor the state after the whole rebuild; judged per elementary re-registration): made visible, not hidden
        chk.count("inmut_rebuild_partial_answers_%s" % mode, int(st["partial"]))
    chk.counters["inmut_points_per_mutator_%s" % mode] = dict(sorted(pts.items()))
    chk.counters["inmut_points_visited_%s" % mode] = {mu: len(v) for mu, v in sorted(visited.items())}
    blind = [mu for mu in MUTATORS if mu in pts and len(visited.get(mu, ())) < pts[mu]] + [mu for mu in MUTATORS if mu not in pts]
    if blind and not any(not o.startswith("ok") for o in out):
        chk.notes.append("inmut (%s): not every point of %s was visited" % (mode, ", ".join(blind)))


STRESS = r'''
import sys, threading, time, os
ov = os.environ["ZI_OVERLAY"]
import zope
zope.__path__ = [os.path.join(ov, "zope")] + list(zope.__path__)
from zope.interface import Interface, implementer
from zope.interface.adapter import AdapterRegistry, VerifyingAdapterRegistry
sys.setswitchinterval(1e-6)
class IR(Interface): pass
class IR2(IR): pass
class IP(Interface): pass
@implementer(IR2)
class Ob: pass
errors = []
for Reg in (AdapterRegistry, VerifyingAdapterRegistry):
    base = Reg(); reg = Reg((base,))
    base.register((IR,), IP, "", lambda o: "a")
    stop = time.time() + float(sys.argv[1])
    def looker():
        ob = Ob()
        try:
            while time.time() < stop:
                r = reg.queryAdapter(ob, IP, "")
                if r not in ("a", "b"): errors.append("wrong answer %r" % (r,)); return
                reg.lookup((IR2,), IP, ""); list(reg.lookupAll((IR2,), IP)); reg.subscriptions((IR2,), IP)
        except Exception as e:
            errors.append("lookup thread: %s %s" % (type(e).__name__, e))
    def mutator():
        n = 0
        try:
            while time.time() < stop:
                n += 1
                reg.register((IR2,), IP, "", (lambda o: "b"))
                reg.unregister((IR2,), IP, "")
                base.subscribe((IR,), IP, n); base.unsubscribe((IR,), IP, n)
        except Exception as e:
            errors.append("mutator: %s %s" % (type(e).__name__, e))
    ts = [threading.Thread(target=looker) for _ in range(3)] + [threading.Thread(target=mutator)]
    [t.start() for t in ts]; [t.join() for t in ts]
import re
kinds = sorted({re.sub(r" at 0x[0-9a-f]+", "", e) for e in errors})
print("STRESS-ERRORS" if errors else "STRESS-OK", kinds[:10])
'''


def stress(seconds):
    ov = core.build_overlay()
    res = {}
    for m in ("c", "py"):
        env = dict(os.environ, ZI_OVERLAY=ov["path"], PURE_PYTHON="1" if m == "py" else "0")
        try:
            p = subprocess.run([core.PY, "-c", STRESS, str(seconds)], capture_output=True, text=True, env=env, timeout=seconds * 4 + 120)
            res[m] = ("rc=%d " % p.returncode) + (p.stdout.strip().splitlines() or [""])[-1][:300]
        except subprocess.TimeoutExpired:
            res[m] = "timeout"
    return res


def check(tier):
    chk = core.Check("C11", tier)
    chk.obligations(THEOREMS, ["C11_atomic (step-granularity interleavings of one mutator with any number of lookups) — stated in DESIGN.md; its second half (after "
                               "the mutator completes every cache entry is a post-state answer) is ZI.Mutator.wipes_sound for complete lookups at the mutator's "
                               "hooks, tied by translation of adapter.py; the first half (pre- or post-state answers) is exercised by the stale / stale-pre / inmut "
                               "scenarios and the thread stress only"])
    lines = scenarios(tier)
    fails = []

    def run_mode(m):
        """-> (output lines or None, failures)"""
        try:
            return core.run_impl("reentry", lines, m), []
        except core.ImplBroken:
            # a crash of the interpreter inside a scenario IS the failing input
            for l in lines:
                try:
                    core.run_impl("reentry", [l], m, timeout=60)
                except core.ImplBroken as e2:
                    return None, [dict(mode=m, script=[l], message="the interpreter crashed or hung in scenario %r: %s" % (l, str(e2)[-200:]), observed="<crash>")]
            return None, []
    # the translation (a Lean process) and the two twins' executors are independent processes: run them side by side
    from concurrent.futures import ThreadPoolExecutor
    with ThreadPoolExecutor(max_workers=3) as ex:
        ft = ex.submit(translate, chk)
        core.build_overlay()
        fm = [(m, ex.submit(run_mode, m)) for m in ("c", "py")]
        unmet, gen_src = ft.result()
        results = [(m, f_.result()) for m, f_ in fm]
    for m, (out, broken) in results:
        fails.extend(broken)
        if out is None:
            continue
        chk.count("scenarios_%s" % m, len(lines))
        inmut_stats(chk, m, lines, out)
        for l, o in zip(lines, out):
            if o != "ok" and not o.startswith("ok "):
                k = re.search(r"point (\d+) of", o) if l.startswith("inmut ") else None
                if k:       # the replay interrupts the mutator at the failing point only: (k + offset) % stride == 0 for that k alone
                    l = " ".join(l.split()[:5] + ["1000000", str(1000000 - int(k.group(1)))])
                fails.append(dict(mode=m, script=[l], message="%s -> %s" % (l, o), observed=o))
    if tier == "thorough":
        res = stress(20)
        chk.counters["thread_stress"] = res
        for m, r in res.items():
            if r.startswith("rc=0 STRESS-ERRORS"):
                import ast
                try:
                    kinds = ast.literal_eval(r[len("rc=0 STRESS-ERRORS"):].strip())
                except Exception:  # noqa
                    kinds = [r]
                # the recorded finding: the per-specification dependents count corrupted by a lookup thread's _subscribe racing
                # with changed() -> KeyError(<weakref to the lookup object>) out of Specification.unsubscribe
                known_re = re.compile(r"^(lookup thread|mutator): KeyError <weakref; to '(Verifying)?AdapterLookup'>$")
                if kinds and all(known_re.match(k) for k in kinds):
                    chk.violation("known", dict(), sig="threads-dependents-count-keyerror")
                    chk.counters["known_finding_thread_stress_%s" % m] = kinds
                    continue
            if not r.startswith("rc=0 STRESS-OK"):
                fails.append(dict(mode=m, script=["<thread stress: 3 lookup threads vs 1 mutator, switch interval 1us, 20 s per flavour>"],
                                  message="thread stress: %s" % r, observed=r))
    seen = set()
    for f in fails:
        k = f["script"][0].split()[0] + f["mode"]
        if k in seen or len(seen) >= 4:
            continue
        seen.add(k)
        chk.violation("%s [mode=%s]" % (f["message"], f["mode"]),
                      dict(kind="schedule", mode=f["mode"], script=f["script"], observed=f["observed"], expected_by="spec", minimised=True))
    if unmet and not fails:
        chk.violation("proof obligations regenerated from the current sources no longer check: " + " | ".join(unmet)[:900] +
                      "; the re-entrancy scenarios found no failing schedule",
                      dict(kind="obligation", theorem_or_correspondence=unmet, generated=gen_src[:3000]), failing_input=False)
    elif unmet:
        chk.notes.append("unmet generated obligations: " + " | ".join(unmet)[:600])
    if not fails and not unmet:
        core.lean_failure_violation(chk)
    chk.samples.extend(lines[:6])
    ev = chk.finish(len(lines) * 2, len(lines),
                    "translation: the ownership IR of 4 C functions and the fetch/callback/store IR of 3, plus the iteration mode of the Python loops in changed(), "
                    "regenerated from the current sources and decided by Lean (9 generated obligations); runtime: 9 re-entrancy scenarios x 2 registry flavours x up to 7 "
                    "entry points x 2 twins (stray write through a dangling cache pointer, stale answer after a mutation inside the uncached computation, mutation before "
                    "the computation, reference leaks on failing factories / unhashable provided, lazy `required`, mutating __providedBy__, re-entered changed()); "
                    "mutators interrupted by lookups (inmut): 9 mutator calls x every point at which they call into the documented storage hooks x lookups on the same "
                    "registry / 1-2 levels below / verifying below x re-entrant / forced thread switch, every entry point judged against a ledger during and after "
                    "(quick: each point visited by 2-3 of the 14 combinations, thorough: by all), and the step IR of the mutators translated from adapter.py (mutators_wipe); "
                    "thorough adds a 4-thread stress per flavour and twin; distinct_nontrivial = scenarios",
                    dict(obligations=len(THEOREMS) + len(GEN_THEOREMS), discharged=(chk.lean or {}).get("discharged", 0) + len(GEN_THEOREMS) - len(unmet),
                         generated_from="src/zope/interface/_zope_interface_coptimizations.c, adapter.py, interface.py (tools/cextract.py)"))
    return ev


def replay(path):
    rep = runner.load_replay(path)
    script = rep.get("script") or []
    mode = rep.get("mode", "c")
    if rep.get("kind") == "obligation" or not script or script[0].startswith("<"):
        chk = core.Check("C11", "quick")
        unmet, _ = translate(chk)
        print("\n".join(unmet) or "all generated obligations check on the current tree")
        if unmet:
            print("VIOLATION property=C11 replay=%s" % path)
            return 1
        return 0
    out = core.run_impl("reentry", script, mode)
    bad = 0
    for l, o in zip(script, out):
        print("%-40s %s" % (l, o))
        bad += o != "ok" and not o.startswith("ok ")
    if bad:
        print("VIOLATION property=C11 replay=%s" % path)
        return 1
    print("replay passes on the current tree")
    return 0
