"""C14 — calling an interface follows the PEP 246 adaptation order.

Lean: ZI/Props/C14.lean.  Tie: the complete product of __conform__ behaviours x provided x hook lists (length 0-3 quick,
0-5 sampled thorough) x alternate x custom __adapt__ is executed on both twins; result AND the log of what was called
are compared with callC / callPy.  Oracle: the statement's precedence list evaluated directly in the harness; with a
real registry's adapter_hook installed the result is compared with registry.queryAdapter."""
import itertools

from .. import core, runner

THEOREMS = ["ZI.Adapt.C14_order", "ZI.Adapt.C14_conform_wins", "ZI.Adapt.C14_raise_attr", "ZI.Adapt.C14_raise_conform",
            "ZI.Adapt.C14_provided", "ZI.Adapt.C14_hooks", "ZI.Adapt.C14_alternate", "ZI.Adapt.C14_custom",
            "ZI.Adapt.C14_registry", "ZI.Adapt.C14_twin", "ZI.Adapt.callPy_spec", "ZI.Adapt.runHooks_spec"]

CONFS = ["a", "E", "A11", "n", "v21", "r12", "Q13"]
HOOKS = ["n", "v3%d", "r4%d", "N", "Q5%d", "S6%d"]          # S: raises a StopIteration subclass
ALTS = ["-", "77", "0"]
CUSTOMS = ["-", "n", "v55", "r56", "Q57", "In", "Iv58"]
# __conform__ shapes beyond a bound method: raising TypeError from its body (T), a plain function stored on the
# instance (i...), the object being a class whose unbound __conform__ cannot be called with the interface alone (U)
CONFS2 = ["T14", "in", "iv22", "ir15", "iT16", "iQ17", "U", "K",
          # the adapted object is a class whose __conform__ is callable on the class itself: classmethod (k), staticmethod (s), metaclass method (m)
          # the adapted object is a super object super(C, c): it provides what the classes AFTER C implement (Ya: declared
          # there), not what C (Yd) or the instance (Yi) declares
          "Ya", "Yd", "Yi",
          # the adapted object is a tuple (0, 1, 2 items): one object, never an argument list
          "t0", "t1", "t2",
          "kn", "kv23", "kr18", "kT19", "sn", "sv24", "sr20", "mn", "mv25", "mQ26"]


def normcf(cf):
    if cf in ("U", "K", "t0", "t1", "t2"):
        return "a"
    if cf[0] in "iksm":
        cf = cf[1:]
    return "r" + cf[1:] if cf[0] == "T" else cf


def gen_lines(rnd, tier):
    L = []
    maxlen = 3
    hooklists = ["-"]
    for n in range(1, maxlen + 1):
        for combo in itertools.product(range(len(HOOKS)), repeat=n):
            hooklists.append(",".join(HOOKS[c] % k if "%" in HOOKS[c] else HOOKS[c] for k, c in enumerate(combo)))
    for cf in CONFS:
        for prov in "01":
            for hs in hooklists:
                for alt in ALTS:
                    for cu in CUSTOMS:
                        L.append("call %s %s %s %s %s" % (cf, prov, hs, alt, cu))
    for cf in ["p71", "p72"]:
        for hs in ["-", "n", "v30"]:
            for alt in ALTS:
                for cu in CUSTOMS:
                    L.append("call %s 0 %s %s %s" % (cf, hs, alt, cu))
    for cf in CONFS2:
        for prov in "01":
            for hs in ["-", "n", "v30", "r40", "n,v31"]:
                for alt in ALTS:
                    for cu in CUSTOMS:
                        L.append("call %s %s %s %s %s" % (cf, prov, hs, alt, cu))
    # registry hook installed: the result must equal registry.queryAdapter
    for cf in ["a", "E", "n", "Ya", "Yd", "t0", "t1", "t2"]:
        for t in ["R0", "Rn", "Rv61", "W0", "Wn", "Wv62"]:
            for alt in ALTS:
                for pre in ["", "n,"]:
                    L.append("call %s 0 %s%s %s -" % (cf, pre, t, alt))
    if tier == "thorough":
        for _ in range(20000):
            n = rnd.randint(4, 6)
            hs = ",".join((HOOKS[c] % k if "%" in HOOKS[c] else HOOKS[c]) for k, c in enumerate(rnd.choices(range(len(HOOKS)), weights=[4, 1, 1, 2, 1, 1], k=n)))
            L.append("call %s %s %s %s %s" % (rnd.choice(CONFS + CONFS2), rnd.choice("01"), hs, rnd.choice(ALTS), rnd.choice(CUSTOMS)))
    return L


def pcase(f):
    """a stand-in specification whose truth test raises: the provided check is reached (and raises) unless a custom __adapt__ replaces it"""
    return f[1][0] == "p"


def effective(line):
    """a super object provides what the classes after the named one implement: declarations on the named class or on the
    instance do not count"""
    f = line.split()
    if f[1][0] == "Y":
        f[2] = f[2] if f[1] == "Ya" else "0"
        f[1] = "a"
    if pcase(f):
        # (with a custom __adapt__ the built-in provided check is never made; otherwise it raises before any hook)
        f[1] = "a" if f[5] != "-" else "A" + f[1][1:]
        f[2] = "0"
    return " ".join(f)


def to_model(line):
    """the model has no registry: a registry hook is the hook returning what queryAdapter finds; `E` (AttributeError
    from the attribute access) is the absent case of the statement"""
    f = line.split()
    def tok(t):
        if t in ("R0", "Rn", "N", "W0", "Wn"):
            return "n"
        if t.startswith("Rv") or t.startswith("Wv"):
            return "v" + t[2:]
        return "r" + t[1:] if t[0] in "QS" else t
    f = effective(line).split()
    hs = ",".join(tok(t) for t in f[3].split(","))
    cf = normcf(f[1])
    cf = "a" if cf == "E" else ("r" + cf[1:] if cf[0] == "Q" else cf)
    cu = f[5][1:] if f[5][0] == "I" else f[5]
    return "call %s %s %s %s %s" % (cf, f[2], hs, f[4], "r" + cu[1:] if cu[0] == "Q" else cu)


def spec(line):
    """the statement, evaluated directly: (result, log)"""
    f = effective(line).split()
    cf, prov, hs, alt, cu = f[1:6]
    cf = normcf(cf)
    log = []
    if cf.startswith("A"):
        return "exc " + cf[1:], log
    if cf not in ("a", "E"):
        log.append("c")
        if cf.startswith("v"):
            return "val " + cf[1:], log
        if cf[0] in "rQ":
            return "exc " + cf[1:], log
    if cu[0] == "I":
        cu = cu[1:]
    if cu != "-":
        log.append("x")
        if cu.startswith("v"):
            return "val " + cu[1:], log
        if cu[0] in "rQ":
            return "exc " + cu[1:], log
    else:
        if prov == "1":
            return "self", log
        for k, t in enumerate([] if hs == "-" else hs.split(",")):
            log.append("h%d" % k)
            if t.startswith("v") or t.startswith("Rv") or t.startswith("Wv"):
                return "val " + t.lstrip("RWv"), log
            if t[0] in "rQS":
                return "exc " + t[1:], log
    if alt != "-":
        return "val " + alt, log
    return "cna", log


def judge(chk, lines, outs):
    bad = []
    for i, (l, o) in enumerate(zip(lines, outs)):
        res, _, rest = o.partition(" | ")
        q = None
        if " Q:" in rest:
            rest, _, q = rest.partition(" Q:")
        log = [t for t in rest.split() if t != "p"]
        want, wlog = spec(l)
        chk.count("calls_judged")
        if "WRONG-ARG" in log:
            bad.append((i, "%s: __conform__/hook/__adapt__ was called with the wrong arguments" % l))
        elif res != want:
            bad.append((i, "%s: result %s, the adaptation order demands %s" % (l, res, want)))
        elif log != wlog:
            bad.append((i, "%s: steps executed %s, expected exactly %s (later steps must not run once an earlier one succeeds)" % (l, log, wlog)))
        if q is not None:
            chk.count("registry_hook_calls")
            if q != res:
                bad.append((i, "%s: I(obj) gave %s but registry.queryAdapter(obj, I) gives %s" % (l, res, q)))
        if len(wlog) >= 3:
            chk.count("calls_with_3_or_more_steps")
    return bad


class _Null:
    def count(self, *a, **k):
        pass


def check(tier):
    chk = core.Check("C14", tier)
    chk.obligations(THEOREMS)
    rnd = core.rng("C14")
    lines = gen_lines(rnd, tier)
    mlines = [to_model(l) for l in lines]
    divs, fails = [], []
    for m in ("c", "py"):
        model = core.run_model("adapt", mlines, [m])
        try:
            out = core.run_impl("adapt", lines, m)
        except core.ImplBroken as e:
            divs.append(dict(mode=m, index=-1, line="", impl="<implementation could not be run: %s>" % str(e)[-1200:], model="", script=[], label="adapt"))
            continue
        chk.count("lines_%s" % m, len(lines))
        norm = [o.split(" Q:")[0].replace(" p ", " ").replace("| p", "|").rstrip() for o in out]
        mnorm = [" ".join(t for t in x.split(" ") if t != "p").rstrip() for x in model]
        norm = [" ".join(t for t in x.split(" ") if t != "p").rstrip() for x in norm]
        for i in core.first_diffs(lines, norm, mnorm, limit=5):
            divs.append(dict(mode=m, index=i, line=lines[i] if i < len(lines) else "<length>", impl=out[i] if i < len(out) else "<missing>",
                             model=model[i] if i < len(model) else "<missing>", script=[lines[i]] if i < len(lines) else [], label="adapt"))
        for idx, msg in judge(chk if m == "c" else _Null(), lines, out):
            fails.append(dict(mode=m, script=[lines[idx]], message=msg, observed=out[idx]))
    seen = set()
    for f in fails:
        k = f["message"].split(": ", 1)[1][:25]
        if k in seen or len(seen) >= 3:
            continue
        seen.add(k)
        chk.violation("%s [mode=%s]" % (f["message"], f["mode"]),
                      dict(kind="input", mode=f["mode"], script=f["script"], observed=f["observed"], expected_by="spec", minimised=True))
    if not fails:
        runner.report_divergences(chk, divs, "adaptation-layer correspondence (ZI.Adapt.callC / callPy vs IB__call__ / InterfaceBase.__call__); theorems C14_order, C14_twin",
                                  "statement oracle accepted all %d calls" % chk.counters.get("calls_judged", 0))
        core.lean_failure_violation(chk)
    chk.samples.extend([lines[7], lines[len(lines) // 2], lines[-1]])
    return chk.finish(len(lines) * 2, chk.counters.get("calls_with_3_or_more_steps", 0),
                      "COMPLETE product: 7 __conform__ behaviours (absent, AttributeError from access, other exception from access, returns None, returns value, raises, raises AttributeError from its body) "
                      "x provided x all hook lists of length 0-3 over {None, value, raises, None after a nested adaptation, raises AttributeError} x alternate {absent, value, None} x custom __adapt__ {absent, None, value, raises} "
                      "+ real-registry hook cases (+ sampled hook lists of length 4-6 in the thorough tier), both twins; distinct_nontrivial = calls in which at least "
                      "three steps of the protocol must run", dict(exhaustive=(tier == "quick")))


def replay(path):
    rep = runner.load_replay(path)
    script = rep["script"]
    mode = rep.get("mode", "c")
    out = core.run_impl("adapt", script, mode)
    model = core.run_model("adapt", [to_model(l) for l in script], [mode])
    bad = judge(_Null(), script, out)
    for l, o, m in zip(script, out, model):
        print("%-40s impl: %s   model: %s   spec: %s" % (l, o, m, spec(l)))
    for i, msg in bad:
        print("ORACLE:", msg)
    if bad:
        print("VIOLATION property=C14 replay=%s" % path)
        return 1
    print("replay passes on the current tree")
    return 0
