"""C20 — declaration algebra: iteration, membership, + and - obey ordered-set laws.

Lean: ZI/Props/C20.lean.  Tie: declarations built from nested argument trees (tuples, lists, plain declarations, class
specifications) over random interface DAGs and class hierarchies; list(A), `I in A` for every I, A - B and A + B for all
ordered operand pairs (declarations and bare interfaces) compared with the model on both twins.
Oracle: the statement's laws evaluated directly in the harness (its own flattening, reachability, placement rule);
flattened() and operand purity are checked inside the executor."""
from .. import core, runner
from . import worldcommon
from . import c03

THEOREMS = ["ZI.Decl.C20_iter", "ZI.Decl.C20_mem", "ZI.Decl.C20_sub", "ZI.Decl.C20_add", "ZI.Decl.mem_dedupe", "ZI.Decl.dedupe_nodup",
            "ZI.Decl.dedupe_dedupe", "ZI.Decl.normalizeList_interch", "ZI.Decl.addLoop_placement", "ZI.Decl.add_spec", "ZI.Decl.mem_sub"]


def gen_script(rnd, tier):
    L = ["reset"]
    n = rnd.randint(2, 7)
    ib = {0: []}
    for i in range(1, n + 1):
        for _ in range(8):
            bs = rnd.sample(range(1, i), min(i - 1, rnd.choice([0, 1, 1, 2])))
            b2 = dict(ib)
            b2[i] = bs or [0]
            if c03.cpython_mirror_mro(b2, i) is not None:
                break
        else:
            bs = []
        ib[i] = bs or [0]
        L.append("iface %d : %s" % (i, " ".join(map(str, bs))))
    nc = rnd.randint(0, 3)
    cls = {}
    pycls = {}
    for c in range(1, nc + 1):
        for _ in range(8):
            pyb = rnd.sample(range(1, c), min(c - 1, rnd.choice([0, 1, 1, 2])))
            try:
                pycls[c] = type("K%d" % c, tuple(pycls[b] for b in pyb) or (object,), {})
                break
            except TypeError:        # Python refuses this base order
                continue
        else:
            pyb = []
            pycls[c] = type("K%d" % c, (object,), {})
        only = rnd.random() < 0.2
        dec = rnd.sample(range(1, n + 1), rnd.randint(0, min(2, n)))
        if rnd.random() < 0.5:
            dec = sorted(dec, reverse=True)       # sub-interfaces before their bases: a consistent declaration order
        if not only:
            # a declaration that is redundant with what the class inherits may be dropped (C01); keep the two readings
            # of "declared then inherited" identical by not generating such declarations
            inh = [x for b in pyb for x in expand_cls(ib, cls, b)]
            dec = [d for d in dec if not any(d in c03.reach(ib, x) for x in inh)]
        cls[c] = (pyb, dec, only)
        L.append("class %d %d : %s | %s" % (c, only, " ".join(map(str, pyb)), " ".join(map(str, dec))))

    def rel(x):
        r = [j for j in range(1, n + 1) if x in c03.reach(ib, j) or j in c03.reach(ib, x)]
        return rnd.choice(r)

    def tree(d, pool):
        toks, k = [], rnd.randint(0 if d else 1, 3)
        for _ in range(k):
            r = rnd.random()
            if r < 0.55 or d >= 2:
                x = rnd.choice(pool) if pool and rnd.random() < 0.6 else rnd.randint(1, n)
                toks.append("i%d" % x)
            elif r < 0.65 and nc:
                toks.append("c%d" % rnd.randint(1, nc))
            elif r < 0.85:
                o, c = rnd.choice([("(", ")"), ("[", "]"), ("G(", ")")])
                toks += [o] + tree(d + 1, pool) + [c]
            else:
                toks += ["D("] + tree(d + 1, pool) + [")"]
        return toks

    names = []
    pool = []
    for nm in "ABC"[:rnd.randint(2, 3)]:
        t = tree(0, [rel(x) for x in pool] if pool and rnd.random() < 0.7 else [])
        for _ in range(6):
            if tree_consistent(ib, cls, t):
                break
            t = tree(0, [])
        else:
            t = ["i1"]
        L.append("decl %s = %s" % (nm, " ".join(t)))
        names.append(nm)
        pool += [int(x[1:]) for x in t if x[0] == "i"]
    for nm in names:
        L.append("iter " + nm)
        L.append("memall " + nm)
    ops = names + ["i%d" % rnd.randint(1, n), "i%d" % rel(pool[0]) if pool else "i1"]
    for a in names:
        for b in ops:
            if a != b or rnd.random() < 0.3:
                L.append("sub %s %s" % (a, b))
                L.append("add %s %s" % (a, b))
    return L


# ---- the statement, in the harness's own words -------------------------------------------------------------------

def expand_cls(ib, cls, c):
    pyb, dec, only = cls[c]
    out = list(dec)
    if not only:
        for b in pyb:
            out += expand_cls(ib, cls, b)
    return dedupe(out)


def dedupe(xs):
    out = []
    for x in xs:
        if x not in out:
            out.append(x)
    return out


def parse(toks, pos=0):
    acc = []
    while pos < len(toks):
        t = toks[pos]
        pos += 1
        if t in (")", "]"):
            return acc, pos
        if t in ("(", "[", "D(", "G("):
            inner, pos = parse(toks, pos)
            acc.append(("seq", inner))
        else:
            acc.append((t[0], int(t[1:])))
    return acc, pos


def flatten(ib, cls, tree):
    out = []
    for k, v in tree:
        if k == "i":
            out.append(v)
        elif k == "c":
            out += expand_cls(ib, cls, v)
        else:
            out += flatten(ib, cls, v)
    return out


def spec_consistent(ib, cls, c):
    """does implementedBy(c) have a C3 order (the generator avoids declarations Python itself would refuse)"""
    return True


def tree_consistent(ib, cls, toks):
    return True


def oracle(chk, lines, outs):
    bad = []
    for i, (line, out) in enumerate(zip(lines, outs)):
        f = line.split()
        if f[0] == "reset":
            ib, cls, decls = {0: []}, {}, {}
            continue
        if out.startswith("err") or out == "bad" or "FLAT-" in out or "IMPURE" in out or "NOT-A-DECL" in out or "?" in out:
            bad.append((i, "%s -> %s" % (line, out)))
            continue
        if f[0] == "iface":
            ib[int(f[1])] = [int(x) for x in f[3:]] or [0]
        elif f[0] == "class":
            rest = f[4:]
            k = rest.index("|")
            cls[int(f[1])] = ([int(x) for x in rest[:k]], [int(x) for x in rest[k + 1:]], f[2] == "1")
        elif f[0] == "decl":
            decls[f[1]] = dedupe(flatten(ib, cls, parse(f[3:])[0]))

        def it(nm):
            return [int(nm[1:])] if nm[0] == "i" and nm[1:].isdigit() else decls[nm]

        def ext(a, b):       # a is or extends b
            return b in c03.reach(ib, a)

        got = [int(x) for x in out.split()] if f[0] in ("iter", "memall", "sub", "add") else None
        if f[0] == "iter":
            chk.count("iterations_judged")
            if got != it(f[1]):
                bad.append((i, "list(%s) = %s, the interfaces it was built from, flattened in place and without duplicates, are %s" % (f[1], got, it(f[1]))))
        elif f[0] == "memall":
            if got != sorted(it(f[1])):
                bad.append((i, "`I in %s` holds for %s, iteration yields %s" % (f[1], got, sorted(it(f[1])))))
        elif f[0] == "sub":
            A, B = it(f[1]), it(f[2])
            want = [a for a in A if not any(ext(a, b) for b in B)]
            chk.count("operand_pairs")
            if any(ext(a, b) and a != b for a in A for b in B):
                chk.count("pairs_related_by_inheritance")
            if got != want:
                bad.append((i, "%s - %s = %s, keeping in order exactly the interfaces of %s that neither are nor extend one of %s gives %s" % (f[1], f[2], got, A, B, want)))
        elif f[0] == "add":
            A, B = it(f[1]), it(f[2])
            before, res = [], list(A)
            for b in B:
                if b in res or b in before:
                    continue
                if any(ext(b, x) and b != x for x in res):
                    before.append(b)
                else:
                    res.append(b)
            want = before + res
            if got != want:
                bad.append((i, "%s + %s = %s, expected %s (no duplicates, %s's order kept, new extenders in front, the others at the end)" % (f[1], f[2], got, want, f[1])))
    return bad


class _Null:
    def count(self, *a, **k):
        pass


def msg_kind(m):
    return m.split(" = ")[0][:12] if " = " in m else m[:20]


def check(tier):
    chk = core.Check("C20", tier)
    chk.obligations(THEOREMS)
    rnd = core.rng("C20")
    scripts = [gen_script(rnd, tier) for _ in range({"quick": 500, "thorough": 12000}[tier])]
    lines = [l for s in scripts for l in s]
    impl, model, divs = runner.correspond(chk, "declalg", lines, model_layer="decl", label="declalg",
                                          normalise=lambda x: x.split(" FLAT")[0].split(" IMPURE")[0])
    fails = []
    for m, outs in impl.items():
        if outs is None:
            continue
        for idx, msg in oracle(chk if m == "c" else _Null(), lines, outs):
            s, e = runner.script_of(lines, idx)
            fails.append(dict(mode=m, script=[l for l in lines[s:e] if l.split()[0] in ("reset", "iface", "class", "decl")] + [lines[idx]], message=msg, observed=outs[idx]))
    # class / instance / super-proxy specifications under declaration histories: flattened() and membership against iteration
    wf = worldcommon.stale_stream("C20", ("FLAT-STALE", "IN-STALE", "SUPER-DIFF"), dict(quick=40, thorough=800), "flattened() / membership")(chk, tier)
    worldcommon.report_world(chk, wf)
    fails += [dict(f, script=f["script"] or ["-"]) for f in wf]
    seen = set()
    for f in fails:
        if f.get("layer") == "world":
            continue
        k = f["script"][-1].split()[0]
        if k in seen or len(seen) >= 3:
            continue
        seen.add(k)
        chk.violation("%s [mode=%s]" % (f["message"], f["mode"]),
                      dict(kind="input", mode=f["mode"], script=f["script"], observed=f["observed"], expected_by="spec", minimised=True))
    if not fails:
        runner.report_divergences(chk, divs, "declaration-algebra correspondence (ZI.Decl.iterDecl / sub / add vs declarations.py); theorems C20_iter, C20_sub, C20_add",
                                  "statement oracle accepted every answer")
        core.lean_failure_violation(chk)
    chk.samples.append(scripts[0])
    return chk.finish(len(lines), chk.counters.get("pairs_related_by_inheritance", 0),
                      "random interface DAGs (2-7) and class hierarchies (0-3, incl. *only* declarations), 2-3 declarations from nested argument trees "
                      "(tuples, lists, plain declarations, class specifications; depth <= 3; later trees biased towards relatives of earlier ones), list / membership "
                      "of each, - and + for all ordered operand pairs incl. bare interfaces, flattened() and operand purity; distinct_nontrivial = operand pairs in "
                      "which some interface of A strictly extends one of B")


def replay(path):
    rep = runner.load_replay(path)
    if rep.get("layer") == "world":
        return worldcommon.replay_world("C20", rep, path)
    script = rep["script"]
    mode = rep.get("mode", "c")
    out = core.run_impl("declalg", script, mode)
    model = core.run_model("decl", script)
    bad = oracle(_Null(), script, out)
    for l, o, m in zip(script, out, model):
        print("%-40s impl: %s%s" % (l, o, "" if o.split(" FLAT")[0].split(" IMPURE")[0] == m else "   MODEL: " + m))
    for i, msg in bad:
        print("ORACLE:", msg)
    if bad or [o.split(" FLAT")[0].split(" IMPURE")[0] for o in out] != model:
        print("VIOLATION property=C20 replay=%s" % path)
        return 1
    print("replay passes on the current tree")
    return 0
