"""C20 — declaration algebra: iteration, membership, + and - obey ordered-set laws.

Lean: ZI/Props/C20.lean.  Tie: declarations built from nested argument trees (tuples, lists, plain declarations, class
specifications) over random interface DAGs and class hierarchies; list(A), `I in A` for every I, A - B and A + B for all
ordered operand pairs (declarations and bare interfaces), and the order of A.flattened() for declarations, class
specifications, sums and differences, compared with the model on both twins.  The interface DAGs include (40 % of the scripts)
interfaces without a C3 order, biased towards hierarchies whose legacy orders disagree with the order of an ancestor, and
declarations that name an ancestor of an interface they already name (`implementer(IDerived, IBase)`).
Oracle: the statement's laws evaluated directly in the harness (its own flattening, reachability, placement rule; for
flattened(): members, validity, textbook C3 of the declaration whenever it exists, else the documented order: C3 over the
bases' orders, the legacy order where that merge is stuck, Interface last); operand purity is checked inside the executor."""
from .. import core, runner
from . import worldcommon
from . import c03

THEOREMS = ["ZI.Decl.C20_iter", "ZI.Decl.C20_mem", "ZI.Decl.C20_sub", "ZI.Decl.C20_add", "ZI.Decl.mem_dedupe", "ZI.Decl.dedupe_nodup",
            "ZI.Decl.dedupe_dedupe", "ZI.Decl.normalizeList_interch", "ZI.Decl.addLoop_placement", "ZI.Decl.add_spec", "ZI.Decl.mem_sub",
            "ZI.Decl.C20_flattened", "ZI.Decl.C20_flattened_c3"]


def odd_bases(rnd, ib, i):
    """a base list for interface i that zope.interface accepts and Python would refuse for classes (no C3 order: the
    interface gets its legacy order), or one that sets such a list up for a later interface; None = no such shape yet"""
    anc = {b: sorted(c03.reach(ib, b) - {b, 0}) for b in range(1, i)}
    shape = rnd.choice("aabcdd")
    if shape == "d":          # an ancestor before its descendant, and another ancestor of that one mentioned again behind it
        cands = [(a, b, x) for b in anc for a in anc[b] for x in anc[b] if a not in c03.reach(ib, x) and x not in c03.reach(ib, a)]
        if not cands:
            shape = "a"
        else:
            a, b, x = rnd.choice(cands)
            down = [j for j in range(1, i) if x in c03.reach(ib, j) and b not in c03.reach(ib, j) and j not in c03.reach(ib, b)]
            return [a, b, rnd.choice(down) if down and rnd.random() < 0.4 else x]
    if shape == "a":          # an ancestor listed before its descendant, possibly among other bases
        cands = [b for b in anc if anc[b]]
        if not cands:
            return None
        b = rnd.choice(cands)
        bs = [rnd.choice(anc[b]), b]
        if i > 3 and rnd.random() < 0.5:
            x = rnd.choice([j for j in range(1, i) if j not in bs])
            bs.insert(rnd.randint(0, 2), x)
        return bs
    if shape == "b":          # the base list of an earlier interface, permuted: the two orders contradict each other
        cands = [b for b in range(1, i) if len(ib[b]) >= 2]
        if not cands:
            return None
        bs = list(ib[rnd.choice(cands)])
        rnd.shuffle(bs)
        return bs
    if i < 3:
        return None
    return rnd.sample(range(1, i), min(i - 1, rnd.choice([2, 2, 3])))      # anything goes


def subseq(a, b):
    it = iter(b)
    return all(x in it for x in a)


def disagreeing_ancestors(ib, only=None):
    """{i: the strict ancestors of interface i whose own resolution order is not embedded in i's}.  C3 is monotonic, so this
    takes an interface without a C3 order (its legacy order need not respect the orders of its bases)."""
    g = spec_graph(ib, {}, [])
    memo, stuck = {}, set()
    out = {}
    for i in ([only] if only else [k for k in ib if k]):
        oi = documented_order(g, i, memo, stuck)
        out[i] = [b for b in oi[1:] if b and not subseq(documented_order(g, b, memo, stuck), oi)]
    return out


def gen_script(rnd, tier):
    L = ["reset"]
    # "all interface DAGs": also those in which some interfaces have no C3 order (`mixed`)
    mixed = rnd.random() < 0.4
    n = rnd.randint(5, 8) if mixed else rnd.randint(2, 7)
    ib = {0: []}
    for i in range(1, n + 1):
        bs = None
        if mixed and i >= 3 and rnd.random() < 0.6:
            for _ in range(10):          # preferably a list that makes the interface's order disagree with an ancestor's
                cand = odd_bases(rnd, ib, i)
                if cand is None:
                    continue
                bs = cand
                b2 = dict(ib)
                b2[i] = bs
                if disagreeing_ancestors(b2, i)[i]:
                    break
        if bs is None:
            for _ in range(8):
                bs = rnd.sample(range(1, i), min(i - 1, rnd.choice([0, 1, 2, 2] if mixed else [0, 1, 1, 2])))
                b2 = dict(ib)
                b2[i] = bs or [0]
                if c03.cpython_mirror_mro(b2, i) is not None:
                    break
            else:
                bs = []
        ib[i] = bs or [0]
        L.append("iface %d : %s" % (i, " ".join(map(str, bs))))
    dis = disagreeing_ancestors(ib) if mixed else {}
    nonmono = [i for i in dis if dis[i]]
    nc = rnd.randint(0, 3)
    cls = {}
    pycls = {}
    for c in range(1, nc + 1):
        for _ in range(8):
            pyb = rnd.sample(range(1, c), min(c - 1, rnd.choice([0, 1, 1, 2])))
            try:
                pycls[c] = type("K%d" % c, tuple(pycls[b] for b in pyb) or (object,), {})
                break
            except TypeError:        # Python refuses this base order
                continue
        else:
            pyb = []
            pycls[c] = type("K%d" % c, (object,), {})
        only = rnd.random() < 0.2
        dec = rnd.sample(range(1, n + 1), rnd.randint(0, min(2, n)))
        if rnd.random() < 0.5:
            dec = sorted(dec, reverse=True)       # sub-interfaces before their bases: a consistent declaration order
        if nonmono and rnd.random() < 0.3:        # implementer(ISub, IBase) where ISub's order disagrees with IBase's
            dec = [rnd.choice(nonmono)]
            dec.append(rnd.choice(dis[dec[0]]))
        if not only:
            # a declaration that is redundant with what the class inherits may be dropped (C01); keep the two readings
            # of "declared then inherited" identical by not generating such declarations
            inh = [x for b in pyb for x in expand_cls(ib, cls, b)]
            dec = [d for d in dec if not any(d in c03.reach(ib, x) for x in inh)]
        cls[c] = (pyb, dec, only)
        L.append("class %d %d : %s | %s" % (c, only, " ".join(map(str, pyb)), " ".join(map(str, dec))))

    # "in any order relative to subclass creation": a class with subclasses is given a further declaration LATER -- typically an
    # interface one of its subclasses already declares itself (the subclass then names it AND inherits it; iteration still yields it once)
    late = []
    for c in range(1, nc + 1):
        subs = [k for k in cls if c in cls[k][0]]
        if not subs or rnd.random() < 0.45:
            continue
        have = expand_cls(ib, cls, c)
        below = [d for k in cls if k != c and c in class_anc(cls, k) for d in cls[k][1]]
        # ... naming nothing the class already implies (it would be dropped, C01) and nothing that extends an interface the class
        # declares itself (classImplements puts such an interface IN FRONT of the earlier ones: "declared" is then not call order)
        cand = [d for d in (below if below and rnd.random() < 0.8 else range(1, n + 1))
                if not any(d in c03.reach(ib, x) for x in have) and not any(b in c03.reach(ib, d) for b in cls[c][1])]
        if not cand:
            continue
        d = rnd.choice(cand)
        pyb, dec, only = cls[c]
        cls[c] = (pyb, dec + [d], only)
        late.append(c)
        L.append("cimpl %d : %d" % (c, d))
    for c in range(1, nc + 1):
        if late or rnd.random() < 0.3:
            L.append("iter c%d" % c)
            L.append("memall c%d" % c)

    def rel(x):
        r = [j for j in range(1, n + 1) if x in c03.reach(ib, j) or j in c03.reach(ib, x)]
        return rnd.choice(r)

    def tree(d, pool, cur=None):
        cur = [] if cur is None else cur          # the interfaces named so far anywhere in this tree
        toks, k = [], rnd.randint(0 if d else 1, 3)
        for _ in range(k):
            r = rnd.random()
            if r < 0.55 or d >= 2:
                x = rnd.choice(pool) if pool and rnd.random() < 0.6 else rnd.randint(1, n)
                if nonmono and rnd.random() < 0.25:
                    x = rnd.choice(nonmono)
                if cur and rnd.random() < (0.4 if mixed else 0.2):
                    # implementer(IDerived, IBase): an interface that is redundant with one already named (mostly an ancestor)
                    y = rnd.choice(cur)
                    up = sorted(c03.reach(ib, y) - {y, 0})
                    if dis.get(y) and rnd.random() < 0.6:
                        up = dis[y]
                    x = rnd.choice(up) if up and rnd.random() < 0.75 else rel(y)
                if rnd.random() < 0.04:
                    x = 0             # `Interface` itself named in a declaration: everything extends it
                cur.append(x)
                toks.append("i%d" % x)
            elif r < 0.65 and nc:
                toks.append("c%d" % rnd.randint(1, nc))
            elif r < 0.85:
                o, c = rnd.choice([("(", ")"), ("[", "]"), ("G(", ")")])
                toks += [o] + tree(d + 1, pool, cur) + [c]
            else:
                toks += ["D("] + tree(d + 1, pool, cur) + [")"]
        return toks

    names = []
    pool = []
    for nm in "ABC"[:rnd.randint(2, 3)]:
        t = tree(0, [rel(x) for x in pool] if pool and rnd.random() < 0.7 else [])
        for _ in range(6):
            if tree_consistent(ib, cls, t):
                break
            t = tree(0, [])
        else:
            t = ["i1"]
        L.append("decl %s = %s" % (nm, " ".join(t)))
        names.append(nm)
        pool += [int(x[1:]) for x in t if x[0] == "i"]
    for _ in range(rnd.randint(1, 2)):
        # the same arguments given to directlyProvides (interfaces and CLASS SPECIFICATIONS, flat), read back with directlyProvidedBy
        for _ in range(6):
            t = [("c%d" % rnd.randint(1, nc)) if nc and rnd.random() < 0.4 else "i%d" % rnd.randint(1, n) for _ in range(rnd.randint(1, 4))]
            if tree_consistent(ib, cls, t):
                L.append("dpby = " + " ".join(t))
                break
    for nm in names:
        L.append("iter " + nm)
        L.append("memall " + nm)
        L.append("flat " + nm)
    for c in range(1, nc + 1):
        if rnd.random() < 0.5:
            L.append("flat c%d" % c)
    ops = names + ["i%d" % rnd.randint(1, n), "i%d" % rel(pool[0]) if pool else "i1"]
    for a in names:
        for b in ops:
            if a != b or rnd.random() < 0.3:
                L.append("sub %s %s" % (a, b))
                if rnd.random() < 0.15:
                    L.append("flat %s - %s" % (a, b))
                L.append("add %s %s" % (a, b))
                if rnd.random() < 0.35:
                    L.append("flat %s + %s" % (a, b))
    return L


# ---- the statement, in the harness's own words -------------------------------------------------------------------

def class_anc(cls, k):
    out = set()
    for b in cls[k][0]:
        out |= {b} | class_anc(cls, b)
    return out


def expand_cls(ib, cls, c):
    pyb, dec, only = cls[c]
    out = list(dec)
    if not only:
        for b in pyb:
            out += expand_cls(ib, cls, b)
    return dedupe(out)


def dedupe(xs):
    out = []
    for x in xs:
        if x not in out:
            out.append(x)
    return out


def parse(toks, pos=0):
    acc = []
    while pos < len(toks):
        t = toks[pos]
        pos += 1
        if t in (")", "]"):
            return acc, pos
        if t in ("(", "[", "D(", "G("):
            inner, pos = parse(toks, pos)
            acc.append(("decl" if t == "D(" else "seq", inner))
        else:
            acc.append((t[0], int(t[1:])))
    return acc, pos


def flatten(ib, cls, tree):
    out = []
    for k, v in tree:
        if k == "i":
            out.append(v)
        elif k == "c":
            out += expand_cls(ib, cls, v)
        else:
            out += flatten(ib, cls, v)
    return out


# ---- resolution order (for flattened()): the specification graph and two independent references ------------------
OBJ, TOP = 1000, 2000        # node numbers: interface i = i (0 = Interface), implementedBy(object) = 1000, class c = 1000 + c, the declaration = 2000


def atoms(ib, cls, tree):
    """the declaration's direct bases: interfaces and class specifications as named, nested sequences flattened in place,
    a nested plain declaration replaced by its interfaces"""
    out = []
    for k, v in tree:
        if k == "i":
            out.append(v)
        elif k == "c":
            out.append(OBJ + v)
        elif k == "decl":
            out += dedupe(flatten(ib, cls, v))
        else:
            out += atoms(ib, cls, v)
    return out


def spec_graph(ib, cls, top):
    g = {0: [], OBJ: [], TOP: list(top)}
    for i, bs in ib.items():
        if i:
            g[i] = list(bs) or [0]
    for c, (pyb, dec, only) in cls.items():
        g[OBJ + c] = list(dec) + ([] if only else [OBJ + b for b in pyb] or [OBJ])
    return g


def legacy_order(g, x):
    """the pre-5.0 order: depth-first, bases left to right, of everything listed more than once the LAST mention kept"""
    flat = []

    def walk(o):
        flat.append(o)
        for b in g[o]:
            walk(b)
    walk(x)
    return [o for k, o in enumerate(flat) if o not in flat[k + 1:]]


def root_last(order):
    return order if order[-1] == 0 else [o for o in order if o != 0] + [0]


def documented_order(g, x, memo, stuck):
    """the resolution order as the library documents it: C3 over the resolution orders of the direct bases and the list of
    direct bases; the legacy order of the object when that merge cannot continue; Interface last.  `stuck` collects the
    objects that got their legacy order."""
    if x not in memo:
        if x == 0:
            memo[x] = [0]
        else:
            m = c03.textbook_merge([documented_order(g, b, memo, stuck) for b in g[x]] + [list(g[x])])
            if m is None:
                stuck.add(x)
            memo[x] = root_last([x] + m if m is not None else legacy_order(g, x))
    return memo[x]


def c3_order(g, x):
    """textbook C3 of the hierarchy in which Interface is the root of everything (None: there is none)"""
    gm = {k: (list(v) or [0]) if k else [] for k, v in g.items()}
    return c03.lin(gm, x)


def judge_flat(chk, g, node, members, got):
    """`got` = the interfaces yielded by flattened() of specification `node` of g whose iteration yields `members`; returns complaints"""
    chk.count("flat_judged")
    want_set = {0}
    for m in members:
        want_set |= {x for x in c03.reach(g, m) if x < OBJ}
    if len(set(got)) != len(got):
        return ["flattened() yields an interface twice: %s" % got]
    if set(got) != want_set:
        return ["flattened() yields %s, its interfaces %s plus everything they extend are %s" % (got, members, sorted(want_set))]
    pos = {x: k for k, x in enumerate(got)}
    for x in got:
        for b in g[x]:
            if pos[b] < pos[x]:
                return ["flattened() = %s is not a resolution order: %d comes after its base %d" % (got, x, b)]
    if got[-1] != 0:
        return ["flattened() = %s does not end with Interface" % got]
    top = g[node]
    ifs = [a for a in top if a < OBJ]
    if any(b != a and b in c03.reach(g, a) for k, a in enumerate(ifs) for b in ifs[k + 1:]):
        chk.count("flat_ancestor_named_after_descendant")
    if len(set(top)) != len(top):
        chk.count("flat_guard_duplicate_bases")          # G-nodup: validity only (and the model)
        return []
    memo, stuck = {}, set()
    doc = [x for x in documented_order(g, node, memo, stuck) if x < OBJ]
    c3 = c3_order(g, node)
    if c3 is not None:
        chk.count("flat_c3_exists")
        c3 = [x for x in c3 if x < OBJ]
        if c3 != doc:
            raise core.Infra("oracle self-check failed: textbook C3 %s vs documented resolution order %s on %s" % (c3, doc, g))
        if got != c3:
            return ["flattened() = %s, the C3 resolution order of the declaration is %s" % (got, c3)]
        return []
    chk.count("flat_no_c3")
    if node in stuck:
        chk.count("flat_declaration_gets_legacy_order")
        if any(b in stuck for b in top):
            chk.count("flat_merge_stuck_with_legacy_ordered_base")
    else:
        chk.count("flat_c3_merge_over_legacy_ordered_ancestors")
    if any(a in stuck and b != a and b in c03.reach(g, a) for k, a in enumerate(top) for b in top[k + 1:]):
        chk.count("flat_ancestor_named_after_legacy_ordered_descendant")
    if any(b != a and b in c03.reach(g, a) and not subseq(memo[b], memo[a]) for k, a in enumerate(top) for b in top[k + 1:]):
        chk.count("flat_ancestor_named_after_descendant_whose_order_disagrees")
    if got != doc:
        def show(xs):
            return "[%s]" % ", ".join(str(x) if x < OBJ else "implementedBy(object)" if x == OBJ else "c%d" % (x - OBJ) for x in xs)
        return ["flattened() = %s, the resolution order of the declaration is %s (%s)" % (
            got, doc, "no C3 order among its bases' orders %s: legacy order" % ", ".join(show(memo[b]) for b in top) if node in stuck
            else "C3 over its bases' orders %s; legacy-ordered: %s" % (", ".join(show(memo[b]) for b in top), show(sorted(stuck - {TOP}))))]
    return []


def add_law(ext, A, B):
    before, res = [], list(A)
    for b in B:
        if b in res or b in before:
            continue
        if any(ext(b, x) and b != x for x in res):
            before.append(b)
        else:
            res.append(b)
    return before + res


def sub_law(ext, A, B):
    return [a for a in A if not any(ext(a, b) for b in B)]


def spec_consistent(ib, cls, c):
    """does implementedBy(c) have a C3 order (the generator avoids declarations Python itself would refuse)"""
    return True


def tree_consistent(ib, cls, toks):
    return True


def oracle(chk, lines, outs):
    bad = []
    for i, (line, out) in enumerate(zip(lines, outs)):
        f = line.split()
        if f[0] == "reset":
            ib, cls, decls, bases_of = {0: []}, {}, {}, {}
            continue
        if out.startswith("err") or out == "bad" or "FLAT-" in out or "IMPURE" in out or "NOT-A-DECL" in out or "?" in out:
            bad.append((i, "%s -> %s" % (line, out)))
            continue
        if f[0] == "iface":
            ib[int(f[1])] = [int(x) for x in f[3:]] or [0]
            if c03.lin(ib, int(f[1])) is None:
                if all(c03.lin(ib, b) is not None for b in ib[int(f[1])]):
                    chk.count("interfaces_given_a_legacy_order")
                if disagreeing_ancestors(ib, int(f[1]))[int(f[1])]:
                    chk.count("interfaces_whose_order_disagrees_with_an_ancestor")
        elif f[0] == "class":
            rest = f[4:]
            k = rest.index("|")
            cls[int(f[1])] = ([int(x) for x in rest[:k]], [int(x) for x in rest[k + 1:]], f[2] == "1")
        elif f[0] == "cimpl":
            pyb, dec, only = cls[int(f[1])]
            cls[int(f[1])] = (pyb, dec + [int(x) for x in f[3:]], only)
            chk.count("late_class_declarations")
        elif f[0] == "decl":
            decls[f[1]] = dedupe(flatten(ib, cls, parse(f[3:])[0]))
            bases_of[f[1]] = atoms(ib, cls, parse(f[3:])[0])

        def it(nm):
            if nm[0] == "c" and nm[1:].isdigit():
                return expand_cls(ib, cls, int(nm[1:]))
            return [int(nm[1:])] if nm[0] == "i" and nm[1:].isdigit() else decls[nm]

        def ext(a, b):       # a is or extends b
            return b in c03.reach(ib, a)

        if f[0] == "dpby":
            want = [x for x in dedupe(flatten(ib, cls, parse(f[2:])[0])) if x != 0]
            chk.count("directlyProvidedBy_read_back")
            if any(t[0] == "c" for t in f[2:]):
                chk.count("directlyProvides_given_a_class_specification")
            if [int(x) for x in out.split()] != want:
                bad.append((i, "directlyProvides(ob, %s) then directlyProvidedBy(ob) = [%s]; what was given, flattened without duplicates, is %s" % (" ".join(f[2:]), out, want)))
            continue
        got = [int(x) for x in out.split()] if f[0] in ("iter", "memall", "sub", "add", "flat") else None
        if f[0] == "iter":
            chk.count("iterations_judged")
            if 0 in it(f[1]):
                chk.count("declarations_naming_Interface_itself")
            if len(set(got)) != len(got):
                bad.append((i, "list(%s) = %s yields an interface twice" % (f[1], got)))
            elif got != it(f[1]):
                bad.append((i, "list(%s) = %s, the interfaces it was built from, flattened in place and without duplicates, are %s" % (f[1], got, it(f[1]))))
        elif f[0] == "memall":
            if got != sorted(it(f[1])):
                bad.append((i, "`I in %s` holds for %s, iteration yields %s" % (f[1], got, sorted(it(f[1])))))
        elif f[0] == "sub":
            A, B = it(f[1]), it(f[2])
            want = sub_law(ext, A, B)
            chk.count("operand_pairs")
            if any(ext(a, b) and a != b for a in A for b in B):
                chk.count("pairs_related_by_inheritance")
            if got != want:
                bad.append((i, "%s - %s = %s, keeping in order exactly the interfaces of %s that neither are nor extend one of %s gives %s" % (f[1], f[2], got, A, B, want)))
        elif f[0] == "add":
            A, B = it(f[1]), it(f[2])
            want = add_law(ext, A, B)
            if got != want:
                bad.append((i, "%s + %s = %s, expected %s (no duplicates, %s's order kept, new extenders in front, the others at the end)" % (f[1], f[2], got, want, f[1])))
        elif f[0] == "flat":
            # "A.flattened() yields them plus everything they extend in resolution order"
            node, top = TOP, []
            if len(f) == 4:
                members = top = (add_law if f[2] == "+" else sub_law)(ext, it(f[1]), it(f[3]))
            elif f[1][0] == "c":
                node = OBJ + int(f[1][1:])          # a class specification: bases = declared, then the specifications of the class's bases
                members = expand_cls(ib, cls, int(f[1][1:]))
            else:
                top, members = bases_of[f[1]], it(f[1])
            g = spec_graph(ib, cls, top)
            for msg in judge_flat(chk, g, node, members, got):
                bad.append((i, "%s: %s" % (" ".join(f[1:]), msg)))
    return bad


class _Null:
    def count(self, *a, **k):
        pass


def msg_kind(m):
    return m.split(" = ")[0][:12] if " = " in m else m[:20]


def check(tier):
    chk = core.Check("C20", tier)
    chk.obligations(THEOREMS)
    rnd = core.rng("C20")
    scripts = [gen_script(rnd, tier) for _ in range({"quick": 500, "thorough": 12000}[tier])]
    lines = [l for s in scripts for l in s]
    impl, model, divs = runner.correspond(chk, "declalg", lines, model_layer="decl", label="declalg",
                                          normalise=lambda x: x.split(" FLAT")[0].split(" IMPURE")[0])
    fails = []
    for m, outs in impl.items():
        if outs is None:
            continue
        for idx, msg in oracle(chk if m == "c" else _Null(), lines, outs):
            s, e = runner.script_of(lines, idx)
            fails.append(dict(mode=m, script=[l for l in lines[s:e] if l.split()[0] in ("reset", "iface", "class", "decl")] + [lines[idx]], message=msg, observed=outs[idx]))
    # class / instance / super-proxy specifications under declaration histories: flattened() and membership against iteration
    wf = worldcommon.stale_stream("C20", ("FLAT-STALE", "IN-STALE", "SUPER-DIFF"), dict(quick=40, thorough=800), "flattened() / membership")(chk, tier)
    worldcommon.report_world(chk, wf)
    fails += [dict(f, script=f["script"] or ["-"]) for f in wf]
    seen = set()
    for f in fails:
        if f.get("layer") == "world":
            continue
        k = f["script"][-1].split()[0]
        if k in seen or len(seen) >= 3:
            continue
        seen.add(k)
        chk.violation("%s [mode=%s]" % (f["message"], f["mode"]),
                      dict(kind="input", mode=f["mode"], script=f["script"], observed=f["observed"], expected_by="spec", minimised=True))
    if not fails:
        runner.report_divergences(chk, divs, "declaration-algebra correspondence (ZI.Decl.iterDecl / sub / add vs declarations.py); theorems C20_iter, C20_sub, C20_add",
                                  "statement oracle accepted every answer")
        core.lean_failure_violation(chk)
    chk.samples.append(scripts[0])
    return chk.finish(len(lines), chk.counters.get("pairs_related_by_inheritance", 0),
                      "random interface DAGs (2-8; 40 % of the scripts with interfaces that have no C3 order, biased towards legacy orders that disagree with "
                      "an ancestor's order) and class hierarchies (0-3, incl. *only* declarations), 2-3 declarations from nested argument trees "
                      "(tuples, lists, plain declarations, class specifications; depth <= 3; later trees biased towards relatives of earlier ones, tokens towards "
                      "ancestors of interfaces already named), list / membership of each, - and + for all ordered operand pairs incl. bare interfaces, the order "
                      "of flattened() of declarations, class specifications, sums and differences (counters flat_*), operand purity; distinct_nontrivial = operand "
                      "pairs in which some interface of A strictly extends one of B")


def replay(path):
    rep = runner.load_replay(path)
    if rep.get("layer") == "world":
        return worldcommon.replay_world("C20", rep, path)
    script = rep["script"]
    mode = rep.get("mode", "c")
    out = core.run_impl("declalg", script, mode)
    model = core.run_model("decl", script)
    bad = oracle(_Null(), script, out)
    for l, o, m in zip(script, out, model):
        print("%-40s impl: %s%s" % (l, o, "" if o.split(" FLAT")[0].split(" IMPURE")[0] == m else "   MODEL: " + m))
    for i, msg in bad:
        print("ORACLE:", msg)
    if bad or [o.split(" FLAT")[0].split(" IMPURE")[0] for o in out] != model:
        print("VIOLATION property=C20 replay=%s" % path)
        return 1
    print("replay passes on the current tree")
    return 0
