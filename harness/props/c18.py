"""C18 — method descriptions mirror the described function's real signature.

Lean: ZI/Props/C18.lean.  Tie: every generated function is built for real; the fields of its REAL code object are fed
to the model (`fromFunction` over the code layout) and the model's description and rendered string are compared with
zope.interface's, on both twins.  Functions that share a code object but differ in their defaults are described one after
the other.  Oracle: `inspect.signature` of the same callable (names in order, required / defaulted split, defaults,
* and ** names, rendered string); function attributes must come back as tagged values.

Default VALUES: the statement is about every function, so the defaults are also drawn from a pool of value kinds
(`layers/method.VALUE_KINDS`: falsy and ordinary atoms, strings made of the characters the rendering uses, containers,
tuples of every length and tuple subclasses, objects with a repr of their own) -- every kind is swept through every way
of describing a function and every position among the defaults, then mixed at random.  The model is handed `repr` of
each default with its id (its `reprOf`), the oracle renders `name=repr(default)` from `inspect.signature`; the reported
defaults must be the function's own objects, and str() / repr() of the description and `asStructuredText` of the
interface must carry the same rendered signature."""
import itertools
import re

from .. import core, runner
from ..layers.method import VALUE_KINDS

THEOREMS = ["ZI.Method.C18_info", "ZI.Method.C18_method", "ZI.Method.C18_method_star", "ZI.Method.C18_string",
            "ZI.Method.C18_pinned_violates", "ZI.Method.C18_kwonlyFixed_violates"]


def gen_lines(rnd, tier):
    L = []
    first = 100
    for posonly, pos, va, kwonly, kw, nloc in itertools.product(range(3), range(4), (0, 1), range(3), (0, 1), (0, 2)):
        kinds = ["F", "M", "I", "A"]
        if posonly == 0 and pos == 0 and va:
            kinds.append("S")
        for kind in kinds:
            total = posonly + pos + (1 if kind in "MA" else 0)
            nds = sorted({0, 1, total // 2, total - 1 if kind in "MA" else total, total} & set(range(0, total + 1)))
            for ndef in nds:
                if kind in "MA" and ndef == total and total > 0 and rnd.random() < 0.7:
                    continue                   # a default for `self` itself: legal, kept for a sample only
                kwd = "-" if not kwonly else "".join(rnd.choice("01") for _ in range(kwonly))
                first += 7
                L.append("fn %d %d %d %d %d %d %s %d %s %d" % (posonly, pos, va, kwonly, kw, nloc, kind, ndef, kwd, first))
    # default VALUES: every value kind x every way of describing x {the only default, first, middle, last of several,
    # every default}, the other defaults opaque or drawn at random; the shape around them rotates
    names = list(VALUE_KINDS)
    shapes = [(0, 1, 0, 0, 0, 0), (1, 2, 1, 0, 1, 0), (2, 1, 0, 1, 1, 2), (0, 3, 1, 2, 0, 0), (1, 0, 0, 0, 1, 0), (0, 2, 0, 0, 0, 2),
              (2, 2, 1, 1, 1, 0), (0, 4, 0, 1, 0, 0)]
    n = 0
    for vi, v in enumerate(names):
        for kind in "FMI":
            posonly, pos, va, kwonly, kw, nloc = shapes[(vi + n) % len(shapes)]
            n += 1
            npos = posonly + pos                       # parameters that can carry a default (self excluded)
            place = (vi + "FMI".index(kind)) % 5
            ndef = 1 if place == 0 else rnd.randint(1, npos)
            at = {0: 0, 1: 0, 2: ndef // 2, 3: ndef - 1}.get(place)
            vals = [v if (at is None or i == at) else rnd.choice(["D", "D", rnd.choice(names)]) for i in range(ndef)]
            kwd = "-" if not kwonly else "".join(rnd.choice("01") for _ in range(kwonly))
            first += 7
            L.append("fn %d %d %d %d %d %d %s %d %s %d %s" % (posonly, pos, va, kwonly, kw, nloc, kind, ndef, kwd, first, ",".join(vals)))
    for _ in range(1500 if tier == "quick" else 8000):
        posonly, pos, va, kwonly, kw, nloc = rnd.randint(0, 3), rnd.randint(0, 4), rnd.randint(0, 1), rnd.randint(0, 2), rnd.randint(0, 1), rnd.choice((0, 0, 2))
        kind = rnd.choice("FMI")
        total = posonly + pos + (1 if kind == "M" else 0)
        if not total:
            continue
        ndef = rnd.randint(1, total)                   # for a bound method this may include a default for `self` itself
        vals = [rnd.choice(names) if rnd.random() < 0.8 else "D" for i in range(ndef)]
        kwd = "-" if not kwonly else "".join(rnd.choice("01") for _ in range(kwonly))
        first += 7
        L.append("fn %d %d %d %d %d %d %s %d %s %d %s" % (posonly, pos, va, kwonly, kw, nloc, kind, ndef, kwd, first, ",".join(vals)))
    if tier == "thorough":
        for _ in range(30000):
            posonly, pos, va, kwonly, kw, nloc = rnd.randint(0, 4), rnd.randint(0, 6), rnd.randint(0, 1), rnd.randint(0, 4), rnd.randint(0, 1), rnd.randint(0, 3)
            kind = rnd.choice("FMI" + ("S" if posonly == 0 and pos == 0 and va else ""))
            total = posonly + pos + (1 if kind == "M" else 0)
            ndef = rnd.randint(0, total)
            kwd = "-" if not kwonly else "".join(rnd.choice("01") for _ in range(kwonly))
            first += 7
            L.append("fn %d %d %d %d %d %d %s %d %s %d" % (posonly, pos, va, kwonly, kw, nloc, kind, ndef, kwd, first))
    return L


FLAGS = re.compile(" (?:TAGS-WRONG|DEFAULTS-NOT-IDENTICAL|STR-WRONG|DOC-WRONG)")


class _Null:
    def count(self, *a, **k):
        pass


def split3(o):
    p = o.split(" || ")
    return p if len(p) == 3 else None


def judge(chk, lines, outs):
    bad = []
    for i, (l, o) in enumerate(zip(lines, outs)):
        p = split3(o)
        if p is None:
            bad.append((i, "%s -> %s" % (l, o)))
            continue
        got, _, ins = p
        chk.count("descriptions_judged")
        f = l.split()
        vals = [v for v in f[11].split(",") if v != "D"] if len(f) > 11 and f[11] != "-" else []
        if vals:
            chk.count("descriptions_with_valued_defaults")
            chk.count("valued_defaults_described_as_%s" % f[7])
            for v in vals:
                chk.count("default_values_of_class_%s" % VALUE_KINDS[v][0])
                getattr(chk, "kinds_seen", set()).add(v)
            if len(vals) > 1:
                chk.count("descriptions_with_several_valued_defaults")
        if "TAGS-WRONG" in got:
            bad.append((i, "%s: function attributes did not become tagged values: %s" % (l, got)))
            continue
        if int(f[4]) and (int(f[3]) or int(f[5])):
            chk.count("kwonly_with_star_or_dstar")
        core_ = FLAGS.split(got)[0]
        if core_ != ins:
            bad.append((i, "%s: getSignatureInfo/String says [%s], inspect.signature says [%s]" % (l, core_, ins)))
        elif "DEFAULTS-NOT-IDENTICAL" in got:
            bad.append((i, "%s: the defaults getSignatureInfo reports are not the function's own default objects: %s" % (l, got)))
        elif "STR-WRONG" in got or "DOC-WRONG" in got:
            bad.append((i, "%s: str() / repr() of the description or asStructuredText of its interface does not carry the rendered signature: %s" % (l, got)))
    return bad


def check(tier):
    chk = core.Check("C18", tier)
    chk.obligations(THEOREMS)
    rnd = core.rng("C18")
    lines = gen_lines(rnd, tier)
    chk.kinds_seen = set()
    divs, fails = [], []
    for m in ("c", "py"):
        try:
            out = core.run_impl("method", lines, m)
        except core.ImplBroken as e:
            divs.append(dict(mode=m, index=-1, line="", impl="<implementation could not be run: %s>" % str(e)[-1200:], model="", script=[], label="method"))
            continue
        chk.count("lines_%s" % m, len(lines))
        # second stage: the model is fed the real code objects' fields
        idx = [i for i, o in enumerate(out) if split3(o)]
        model = core.run_model("method", [split3(out[i])[1] for i in idx])
        for i, mo in zip(idx, model):
            got = FLAGS.split(split3(out[i])[0])[0]
            if got != mo:
                if len(divs) < 5:
                    divs.append(dict(mode=m, index=i, line=lines[i] + "   [" + split3(out[i])[1] + "]", impl=got, model=mo, script=[lines[i]], label="method"))
        for i, msg in judge(chk if m == "c" else _Null(), lines, out):
            fails.append(dict(mode=m, script=[lines[i]], message=msg, observed=out[i]))
    seen = set()
    for f in fails:
        k = f["script"][0].split()[7] + f["message"][-40:-20]
        if k in seen or len(seen) >= 3:
            continue
        seen.add(k)
        chk.violation("%s [mode=%s]" % (f["message"], f["mode"]),
                      dict(kind="input", mode=f["mode"], script=f["script"], observed=f["observed"], expected_by="spec", minimised=True))
    if not fails:
        runner.report_divergences(chk, divs, "method-description correspondence (ZI.Method.fromFunction / sigString vs interface.py fromFunction / fromMethod / getSignatureString); theorems C18_info, C18_string",
                                  "inspect.signature oracle accepted all %d descriptions" % chk.counters.get("descriptions_judged", 0))
        core.lean_failure_violation(chk)
    chk.counters["distinct_default_value_kinds_described"] = len(chk.kinds_seen)
    chk.counters["default_value_kinds_in_pool"] = len(VALUE_KINDS)
    chk.samples.extend([lines[3], lines[len(lines) // 2], lines[-1]])
    return chk.finish(len(lines) * 2, chk.counters.get("kwonly_with_star_or_dstar", 0),
                      "COMPLETE product posonly 0-2 x positional 0-3 x *args? x keyword-only 0-2 (random default pattern) x **kw? x locals {0,2} x "
                      "{function, bound method, bound method whose self is absorbed by *args, interface method definition} x default counts {0, 1, half, all-but-self, all}; "
                      "functions share code objects and differ in defaults; PLUS default values: every value kind of the pool (atoms incl. falsy ones, strings of "
                      "rendering characters, containers, tuples of length 0/1/2+/nested and tuple subclasses, objects with their own repr) x {function, bound method, "
                      "interface definition} x {only / first / middle / last / every default} and random mixtures, rendered via repr by model (reprOf) and oracle; "
                      "model fed the real code objects' fields; distinct_nontrivial = descriptions of "
                      "functions having keyword-only parameters together with *args or **kw (where the index arithmetic matters)")


def replay(path):
    rep = runner.load_replay(path)
    script = rep["script"]
    mode = rep.get("mode", "c")
    out = core.run_impl("method", script, mode)
    bad = judge(_Null(), script, out)
    ok = True
    for l, o in zip(script, out):
        p = split3(o)
        print(l)
        if p:
            mo = core.run_model("method", [p[1]])[0]
            print("   impl:    %s\n   model:   %s\n   inspect: %s" % (p[0], mo, p[2]))
            ok = ok and p[0] == mo
        else:
            print("   ", o)
    if bad or not ok:
        print("VIOLATION property=C18 replay=%s" % path)
        return 1
    print("replay passes on the current tree")
    return 0
