"""C16 — Components listings, lookups and events stay mutually consistent.

Lean: ZI/Components.lean (the eight register/unregister methods over the registry model, the {provided: {component: count}}
cache with its switch to the non-hashing counter and its re-population from the listing when the volatile cache has gone away -- pickle round trip of a picklable
Components, __init__ run again --, listings, events, the rebuild probe), ZI/Props/C16.lean.
Tie: histories over related provided interfaces, names, components that are identical / equal-but-distinct / unhashable /
unhashable-and-equal-to-a-hashable-one, replacement then removal; after every call the return value, the events, the four
listings, utility and adapter queries, subscriptions and the probe are compared with the model on both twins.
Oracle: the statement's bookkeeping (four flat listings) kept by the harness itself."""
from .. import core, runner

THEOREMS = ["ZI.Components.registerUtility_split", "ZI.Components.slot_free_of_unregistered", "ZI.Components.C16_unregisterUtility", "ZI.Components.C16_registerUtility_events", "ZI.Components.C16_adapters", "ZI.Components.C16_subscriptions",
            "ZI.Components.cacheUnregister_listing", "ZI.Components.C16_pinned_violates",
            "ZI.Components.reload_listings", "ZI.Components.populateCache_counts", "ZI.Components.reload_counts",
            # over ALL histories of the eight methods, queries, re-loads and re-initialisations (ZI/Props/C16Hist.lean)
            "ZI.Components.inv_step", "ZI.Components.inv_run", "ZI.Components.C16_queries", "ZI.Components.C16_counts",
            "ZI.Components.C16_all_utilities", "ZI.Components.C16_probe", "ZI.Components.C16_no_TypeError",
            "ZI.Components.mixed_hashability_breaks", "ZI.Components.exOps_guard"]
NAMES = ["", "a"]
UNAMES = ["", "a", "b"]     # utilities also under a third name (seen by the listing, getUtilitiesFor, getAllUtilitiesRegisteredFor, the probe)
# required specifications: 3 = R1, 4 = R2(R1), 0 = Interface (also spelled None), 5 = implementedBy(K) with K implementing R1
# (also spelled by passing the class K itself; 6 = implementedBy(object), in its resolution order).  Marker tokens in the required field, ignored by the model: `@` = the
# `required` argument is omitted and read from factory.__component_adapts__; `~` = Interface is spelled None
REQ = [(3,), (4,), (3, 4), (3,), (4,), (3, 4), (5,), (0,), (0, 4), (5, 3)]
EXT = {0: {0}, 1: {1, 0}, 2: {2, 1, 0}, 3: {3, 0}, 4: {4, 3, 0}, 5: {5, 3, 6, 0}, 6: {6, 0}}       # P2(P1), R2(R1), implementedBy(K) -> R1
SRO = {0: [0], 1: [1, 0], 2: [2, 1, 0], 3: [3, 0], 4: [4, 3, 0], 5: [5, 3, 6, 0], 6: [6, 0]}


def reqt(s):
    return tuple(int(x) for x in s.split() if x.isdigit())


class Spec:
    """the four listings the statement speaks of"""

    def __init__(self):
        self.util = {}      # (p, name) -> ((i, e, h), info)
        self.adap = {}      # (req, p, name) -> (i, e, h)
        self.subs = []      # (req, p, (i, e, h))
        self.hand = []      # (req, (i, e, h))


def eq(a, b):
    return a[1] == b[1]


def gen_script(rnd, tier, state):
    L = ["reset"]
    omode = rnd.choice(["all", "all", "all", "multi", "single"])

    def observations():
        return globals()["observations"](omode)
    for i in range(0, 7):
        L.append("sro|%d|%s" % (i, " ".join(map(str, SRO[i]))))
    S = Spec()
    pool = []
    pending = False
    last = (0.0, 1, "", REQ[0])

    def kband(k):
        return 0 if k < 0.25 else 1 if k < 0.42 else 2 if k < 0.55 else 3 if k < 0.65 else 4 if k < 0.75 else 5 if k < 0.83 else 6 if k < 0.93 else 7
    # the kind of call a subscriber makes in reaction (same family, mostly the opposite direction); values inside the bands
    FLIP = {0: [0.3, 0.3, 0.1], 1: [0.1, 0.1, 0.3], 2: [0.6, 0.6, 0.5], 3: [0.5, 0.5, 0.6], 4: [0.8, 0.8, 0.7], 5: [0.7, 0.7, 0.8], 6: [0.95, 0.95, 0.9], 7: [0.9, 0.9, 0.95]}

    def val(mix):
        if pool and rnd.random() < 0.45:
            return rnd.choice(pool)
        state["vid"] += 1
        h = rnd.random() < 0.7
        e = rnd.randint(1, 3) if (h or mix) else rnd.randint(4, 6)
        v = (state["vid"], e, 1 if h else 0)
        pool.append(v)
        return v

    def sv(v):
        return "N" if v is None else "%d %d %d" % v

    def mark(rs, v):
        if v is not None and rnd.random() < 0.3:
            rs = "@ " + rs
        if "0" in rs.split() and rnd.random() < 0.5:
            rs = "~ " + rs
        return rs
    mix = rnd.random() < 0.4        # allow an unhashable component equal to a hashable one
    # half of the histories run on a picklable Components (a subclass with picklable registries, as
    # zope.component.persistentregistry builds one) and are stored and re-loaded now and then: the utility counter cache is
    # volatile and has to be rebuilt from the listing, the lookup objects are created anew.  Any history may run __init__ again.
    persistent = rnd.random() < 0.5
    if persistent:
        L.append("persist")
    p_reload = rnd.choice([0.05, 0.1, 0.2]) if persistent else 0.0
    if mix is False and rnd.random() < 0.25:
        # one hashable component under several names of an interface FIRST, then the first unhashable component for that interface
        # (the counter switches representation and has to carry the counts over), then one of the names goes away
        pp = rnd.choice([1, 2])
        v = val(False)
        while not v[2]:
            v = val(False)
        nms = rnd.sample(UNAMES, rnd.choice([2, 3]))
        for nn in nms:
            L.append("regU|%s|%d|%s|" % (sv(v), pp, nn))
            S.util[(pp, nn)] = (v, "")
            L += observations()
        state["vid"] += 1
        u = (state["vid"], rnd.randint(4, 6), 0)
        free = [x for x in UNAMES + ["c"] if x not in nms]
        L.append("regU|%s|%d|%s|" % (sv(u), pp, free[0]))
        S.util[(pp, free[0])] = (u, "")
        L += observations()
        for nn in rnd.sample(nms, len(nms)):
            L.append("unregU|%s|%d|%s" % (sv(rnd.choice([None, v])), pp, nn))
            del S.util[(pp, nn)]
            L += observations()
    for step in range(rnd.randint(5, 40 if tier == "thorough" else 28)):
        k = rnd.random()
        # a rebuilt counter differs from an empty one only where a component is registered more than once for an interface
        several = len({(pp, w[1]) for (pp, nn), (w, _) in S.util.items()}) < len(S.util)
        if pending and rnd.random() < 0.12:
            # the subscriber reacts by re-initialising the object (the test-cleanup idiom, from inside the event delivery)
            L.append("reinit")
            S = Spec()
            pending = False
            L += observations()
            continue
        elif pending:
            pass            # (the subscriber's call comes next: nothing in between)
        elif rnd.random() < p_reload * (3 if several else 1):
            L.append("reload")
            L += observations()
            if rnd.random() < 0.6:
                k *= 0.42            # the rebuilt counter is consulted by the utility calls only: mostly one of those next
        elif rnd.random() < 0.012:
            L.append("reinit")
            S = Spec()
            L += observations()
        p = rnd.choice([1, 2])
        n = rnd.choice(NAMES)
        req = rnd.choice(REQ)
        rs = " ".join(map(str, req))
        nested, pending = pending, False
        if not nested and rnd.random() < 0.07:
            # the call about to be made has an event subscriber that reacts to its Registered / Unregistered event by making the
            # NEXT call of the history, biased to the same slot (re-register what was just removed, remove what was just added)
            pending = True
            L.append("nest|%s" % ("R" if (k < 0.25 or 0.42 <= k < 0.55 or 0.65 <= k < 0.75 or 0.83 <= k < 0.93) else "U"))
        if nested and rnd.random() < 0.7:
            k, p, n, req, rs = rnd.choice(FLIP[kband(last[0])]), last[1], last[2], last[3], " ".join(map(str, last[3]))
        if k < 0.25:
            n = rnd.choice(UNAMES) if rnd.random() < 0.3 else n
            v = val(mix)
            info = rnd.choice(["", "x"])
            old = S.util.get((p, n))
            shared = [w for (pp, nn), (w, _) in S.util.items() if pp == p and nn != n]
            if shared and rnd.random() < 0.35:
                v = rnd.choice(shared)                                      # one component under several names of one interface
                if rnd.random() < 0.25:
                    state["vid"] += 1
                    v = (state["vid"], v[1], v[2])                          # ... or an equal one
            if old and rnd.random() < 0.3:
                v, info = old[0], old[1]                                   # the very same registration again: a no-op
            elif old and rnd.random() < 0.2:
                state["vid"] += 1
                v = (state["vid"], old[0][1], old[0][2])                   # equal but distinct component, same info
                info = old[1]
            # `@name`: the name is not passed; the component carries it as __component_name__ (named utilities / adapters)
            if rnd.random() < 0.06 and not pending and not nested:
                # a name that is not a string: refused, and NOTHING may have been written (the observations that follow see to it)
                L.append("regU|%s|%d|%s|%s" % (sv(v), p, rnd.choice(["#b", "#n", "#t"]), info))
                L += observations()
                continue
            if pending and L[-1] == "nest|R" and old and not (eq(v, old[0]) and info == old[1]) and rnd.random() < 0.6:
                # a REPLACING registration: the subscriber reacts to the Unregistered event of the utility being replaced, which is
                # delivered in the middle of the call
                L[-1] = "nest|U"
            # `^p`: `provided` is not passed either, the component itself provides it
            L.append("regU|%s|%s%d|%s%s|%s" % (sv(v), "^" if rnd.random() < 0.15 else "", p, "@" if rnd.random() < 0.2 else "", n, info))
            S.util[(p, n)] = (v, info)
        elif k < 0.42:
            if S.util and rnd.random() < 0.75:
                (p, n), old = rnd.choice(list(S.util.items()))
            else:
                n = rnd.choice(UNAMES) if rnd.random() < 0.3 else n
                old = S.util.get((p, n))
            r = rnd.random()
            if r < 0.35 or old is None:
                v = None if old is None or r < 0.3 else val(mix)
            elif r < 0.55:
                v = old[0]
            elif r < 0.8:
                v = (0, old[0][1], old[0][2])                             # equal but distinct
            elif mix:
                v = (0, old[0][1], 1 - old[0][2])                         # equal, other hashability
            else:
                v = val(mix)
            L.append("unregU|%s|%d|%s" % (sv(v), p, n))
            if old is not None and (v is None or eq(v, old[0])):
                del S.util[(p, n)]
        elif k < 0.55:
            v = val(mix)
            if rnd.random() < 0.06 and not pending and not nested:
                L.append("regA|%s|%s|%d|%s" % (sv(v), rs, p, rnd.choice(["#b", "#n", "#t"])))
                L += observations()
                continue
            L.append("regA|%s|%s|%d|%s%s" % (sv(v), mark(rs, v), p, "@" if rnd.random() < 0.2 else "", n))
            S.adap[(req, p, n)] = v
        elif k < 0.65:
            if S.adap and rnd.random() < 0.75:
                (req, p, n), old = rnd.choice(list(S.adap.items()))
                rs = " ".join(map(str, req))
            else:
                old = S.adap.get((req, p, n))
            r = rnd.random()
            v = None if (old is None or r < 0.35) else old if r < 0.55 else (0, old[1], old[2]) if r < 0.8 else val(mix)
            L.append("unregA|%s|%s|%d|%s" % (sv(v), mark(rs, v), p, n))
            if old is not None and (v is None or eq(v, old)):
                del S.adap[(req, p, n)]
        elif k < 0.75:
            v = val(mix)
            L.append("regS|%s|%s|%d" % (sv(v), mark(rs, v), p))
            S.subs.append((req, p, v))
        elif k < 0.83:
            if S.subs and rnd.random() < 0.8:
                req, p, old = rnd.choice(S.subs)
                rs = " ".join(map(str, req))
                v = None if rnd.random() < 0.4 else (0, old[1], old[2])
            else:
                v = None if rnd.random() < 0.4 else val(mix)
            L.append("unregS|%s|%s|%d" % (sv(v), mark(rs, v), p))
            S.subs = [s for s in S.subs if not (s[0] == req and s[1] == p and (v is None or eq(v, s[2])))]
        elif k < 0.93:
            v = val(mix)
            L.append("regH|%s|%s" % (sv(v), mark(rs, v)))
            S.hand.append((req, v))
        else:
            if S.hand and rnd.random() < 0.8:
                req, old = rnd.choice(S.hand)
                rs = " ".join(map(str, req))
                v = None if rnd.random() < 0.4 else (0, old[1], old[2])
            else:
                v = None if rnd.random() < 0.4 else val(mix)
            L.append("unregH|%s|%s" % (sv(v), mark(rs, v)))
            S.hand = [s for s in S.hand if not (s[0] == req and (v is None or eq(v, s[1])))]
        last = (k, p, n, req)
        if not pending:
            L += observations()
    if pending:
        L += observations()
    return L


def observations(mode="all"):
    """what is looked at after every call: the four listings, utility / adapter / subscription queries, the probe.
    mode `multi`: only the many-result queries (getAllUtilitiesRegisteredFor, getUtilitiesFor, subscribers / handlers) are ever asked
    in this history, `single`: only the one-result ones -- the caches behind the two families are filled independently"""
    L = ["listU", "listA", "listS", "listH"]
    for pp in (1, 2):
        if mode != "multi":
            for nn in NAMES:
                L.append("qU|%d|%s" % (pp, nn))
                L.append("qA|4|%d|%s" % (pp, nn))
        if mode != "single":
            L.append("allU|%d" % pp)
            L.append("forU|%d" % pp)
            L.append("subsA|4|%d" % pp)
        if mode != "multi":
            L.append("qA|5|%d|" % pp)
            L.append("qA|3 4|%d|" % pp)          # a two-object adapter (another arity: its own table in the registry)
            L.append("qA|5 3|%d|a" % pp)
    if mode != "single":
        L.append("subsA|5|N")
        L.append("subsA|4|N")
        L.append("subsA|3 4|N")
    L.append("probe")
    L.append("baseq|m" if mode == "multi" else "baseq")
    return L


def virtualise(lines, outs):
    """-> (index, line, answer) in the order in which the calls took effect.  Every event is delivered when the call that emits it
    has done its writing, so a call made by a subscriber takes effect after the call that sent the event -- except for the
    Unregistered event of a REPLACED utility, which registerUtility delivers in the middle: old utility out, the subscriber's call,
    then the registration proper (which looks at the slot again)."""
    res = []
    i = 0
    while i < len(lines):
        if (lines[i].strip() == "nest|U" and i + 2 < len(lines) and lines[i + 1].startswith("regU|") and outs[i + 2].endswith(" NESTED")
                and outs[i + 1].startswith("None [U:Utility")):
            f = [x.strip() for x in lines[i + 1].split("|")]
            rest = outs[i + 1][len("None [U:Utility"):].lstrip()
            res.append((i, lines[i], outs[i]))
            res.append((i + 1, "unregU|N|%s|%s" % (f[2].lstrip("^"), f[3].lstrip("@")), "True [U:Utility]"))
            res.append((i + 2, lines[i + 2], outs[i + 2]))
            res.append((i + 1, lines[i + 1], "None [" + rest))
            i += 3
            continue
        res.append((i, lines[i], outs[i]))
        i += 1
    return res


def oracle(chk, lines, outs, known=None):
    bad = []
    known = known if known is not None else []
    dead = False
    mixed_seen = False
    seen_comps = {}
    epoch, born = 0, {}             # number of re-loads so far in the history; (provided, name) -> epoch of its registration

    def removed_utility(S, p, n, v):
        # one name of a component goes away while the same (==) component stays registered for the same interface under
        # another name: the case the per-(provided, component) counter exists for
        others = [k for k, (w, _) in S.util.items() if k[0] == p and k[1] != n and eq(w, v)]
        if others:
            chk.count("shared_utility_name_removed")
            if born.get((p, n), 0) < epoch and any(born.get(k, 0) < epoch for k in others):
                chk.count("shared_utility_name_removed_after_reload")
        born.pop((p, n), None)
    for i, line, out in virtualise(lines, outs):
        f = [x.strip() for x in line.split("|")]
        op = f[0]
        if op == "reset":
            S = Spec()
            dead = False
            mixed_seen = False
            seen_comps = {}
            epoch, born = 0, {}
            continue
        if dead:
            continue
        if op == "nest":
            chk.count("calls_with_a_reacting_event_subscriber")
            continue
        if out.endswith(" NESTED"):
            chk.count("calls_made_from_inside_an_event_delivery")
            out = out[:-len(" NESTED")]
        if op == "baseq":
            if out != "ok":
                bad.append((i, "the object no longer consults its base: %s" % out))
            continue
        if "API-DISAGREE" in out:
            bad.append((i, "%s: a query method of the Components object does not answer as the lookup on its registries does: %s" % (line, out.split("API-DISAGREE")[1].strip())))
            continue
        if out.startswith("err") or out == "bad" or out.startswith("sro-mismatch"):
            bad.append((i, "%s -> %s" % (line, out)))
            continue
        if op == "persist":
            chk.count("persistent_histories")
            if out != "ok":
                bad.append((i, "%s -> %s" % (line, out)))
            continue
        if op == "reload":
            # the statement's bookkeeping is untouched by storing and re-loading the object: the same listings, answers and
            # a clean probe are expected of the observations that follow, and of every later call
            epoch += 1
            chk.count("reloads")
            per = {}
            for (pp, nn), (w, _) in S.util.items():
                per[(pp, w[1])] = per.get((pp, w[1]), 0) + 1
            if any(c > 1 for c in per.values()):
                chk.count("reloads_with_component_under_several_names")
            if any(not w[2] for (w, _) in S.util.values()):
                chk.count("reloads_with_unhashable_utility")
            if S.adap or S.subs or S.hand:
                chk.count("reloads_with_adapters_or_subscribers")
            if out != "ok":
                bad.append((i, "pickle round trip of the Components: %s (expected: no event, sharing of components kept)" % out))
            continue
        if op == "reinit":
            chk.count("reinits")
            if S.util or S.adap or S.subs or S.hand:
                chk.count("reinits_of_nonempty")
            S = Spec()
            mixed_seen = False
            seen_comps = {}
            epoch, born = 0, {}
            if out != "ok":
                bad.append((i, "%s -> %s" % (line, out)))
            continue

        def cv(s):
            return None if s == "N" else tuple(int(x) for x in s.split())
        if op in ("regU", "unregU", "regA", "unregA", "regS", "unregS", "regH", "unregH"):
            v = cv(f[1])
            if v is not None and op == "regU":
                seen_comps.setdefault(v[1], set()).add(v[2])
                if len(seen_comps[v[1]]) == 2:
                    mixed_seen = True          # an unhashable utility equal to a hashable one in this history
            ret, _, ev = out.partition(" [")
            ev = ev.rstrip("]").split()
            badname = (op == "regU" and f[3].startswith("#")) or (op == "regA" and f[4].startswith("#"))
            if badname:
                chk.count("registrations_under_a_non_string_name")
                if ret != "ValueError" or ev:
                    bad.append((i, "%s: a name that is not a string must be refused with ValueError and no event, got %s" % (line, out)))
                continue          # ... and nothing was written: the listings and queries that follow are judged against the unchanged record
            chk.count("mutations")
            # the guard of the history theorems (C16Hist.HashClass): hashability is a function of the equality class
            chk.count("mutations_inside_theorem_guard" if not mixed_seen else "mutations_outside_theorem_guard")
            if ret == "TypeError":
                # an unhashable component that is == to a registered hashable one (or the reverse): recorded separately
                bad.append((i, "%s raised TypeError half-way (unhashable component equal to a hashable one)" % line))
                dead = True
                continue
            want_ret, want_ev = "None", []
            if op == "regU":
                p, n, info = int(f[2].lstrip("^")), f[3].lstrip("@"), f[4]
                old = S.util.get((p, n))
                if old is not None and eq(old[0], v) and old[1] == info:
                    want_ev = []
                    chk.count("noop_registrations")
                else:
                    if old is not None:
                        want_ev = ["U:Utility"]
                        chk.count("replacements")
                        del S.util[(p, n)]
                        removed_utility(S, p, n, old[0])
                    want_ev = want_ev + ["R:Utility"]
                    S.util[(p, n)] = (v, info)
                    born[(p, n)] = epoch
            elif op == "unregU":
                p, n = int(f[2]), f[3]
                old = S.util.get((p, n))
                if old is not None and (v is None or eq(v, old[0])):
                    del S.util[(p, n)]
                    removed_utility(S, p, n, old[0])
                    want_ret, want_ev = "True", ["U:Utility"]
                else:
                    want_ret = "False"
            elif op == "regA":
                S.adap[(reqt(f[2]), int(f[3]), f[4].lstrip("@"))] = v
                want_ev = ["R:Adapter"]
            elif op == "unregA":
                key = (reqt(f[2]), int(f[3]), f[4])
                old = S.adap.get(key)
                if old is not None and (v is None or eq(v, old)):
                    del S.adap[key]
                    want_ret, want_ev = "True", ["U:Adapter"]
                else:
                    want_ret = "False"
            elif op == "regS":
                S.subs.append((reqt(f[2]), int(f[3]), v))
                want_ev = ["R:Subscription"]
            elif op == "unregS":
                req, p = reqt(f[2]), int(f[3])
                new = [s for s in S.subs if not (s[0] == req and s[1] == p and (v is None or eq(v, s[2])))]
                if len(new) != len(S.subs):
                    want_ret, want_ev = "True", ["U:Subscription"]
                else:
                    want_ret = "False"
                S.subs = new
            elif op == "regH":
                S.hand.append((reqt(f[2]), v))
                want_ev = ["R:Handler"]
            elif op == "unregH":
                req = reqt(f[2])
                new = [s for s in S.hand if not (s[0] == req and (v is None or eq(v, s[1])))]
                if len(new) != len(S.hand):
                    want_ret, want_ev = "True", ["U:Handler"]
                else:
                    want_ret = "False"
                S.hand = new
            if ret != want_ret:
                bad.append((i, "%s returned %s, a registration %s removed: expected %s" % (line, ret, "was" if want_ret == "True" else "was not", want_ret)))
            if ev != want_ev:
                bad.append((i, "%s emitted events %s, expected %s" % (line, ev, want_ev)))
        elif op == "listU":
            want = sorted("%d/%s" % k for k in S.util)
            got = sorted(x.split("=")[0] for x in out.split())
            chk.count("listings_judged")
            if got != want:
                bad.append((i, "registeredUtilities() lists %s, live utility registrations: %s" % (got, want)))
        elif op == "listA":
            want = sorted("[%s]/%d/%s" % (", ".join(map(str, k[0])), k[1], k[2]) for k in S.adap)
            import re
            got = sorted(re.findall(r"\[[^\]]*\]/\d+/[^=]*", out))
            if got != want:
                bad.append((i, "registeredAdapters() lists %s, live adapter registrations: %s" % (got, want)))
        elif op == "listS":
            if len(out.split("] ")) != len(S.subs) and not (not out and not S.subs):
                n_got = out.count("=")
                if n_got != len(S.subs):
                    bad.append((i, "registeredSubscriptionAdapters() lists %d entries, live: %d" % (n_got, len(S.subs))))
        elif op == "listH":
            if out.count("=") != len(S.hand):
                bad.append((i, "registeredHandlers() lists %d entries, live: %d" % (out.count("="), len(S.hand))))
        elif op == "qU":
            p, n = int(f[1]), f[2]
            cands = [(pp, v) for (pp, nn), (v, info) in S.util.items() if nn == n and p in EXT[pp]]
            acc = {None} if not cands else {v[0] for pp, v in cands if not any(q != pp and q in EXT[pp] for q, _ in cands)}
            got = None if out == "N" else int(out)
            chk.count("utility_queries")
            if got not in acc:
                bad.append((i, "queryUtility(P%d, %r) = %s, the live registrations give %s" % (p, n, out, sorted(acc, key=str))))
        elif op == "forU":
            # getUtilitiesFor: one (name, component) per name that has an applicable live registration, answered as queryUtility would
            p = int(f[1])
            got = {}
            for tok in out.split():
                nm, _, x = tok.rpartition("=")
                got[nm] = int(x)
            names = {nn for (pp, nn) in S.util if p in EXT[pp]}
            chk.count("utility_enumerations")
            if set(got) != names:
                bad.append((i, "getUtilitiesFor(P%d) names %s, names with a live applicable registration: %s" % (p, sorted(got), sorted(names))))
            else:
                for nn in sorted(names):
                    cands = [(pp, v) for (pp, n2), (v, info) in S.util.items() if n2 == nn and p in EXT[pp]]
                    acc = {v[0] for pp, v in cands if not any(q != pp and q in EXT[pp] for q, _ in cands)}
                    if got[nn] not in acc:
                        bad.append((i, "getUtilitiesFor(P%d) gives %r -> %s, the live registrations give %s" % (p, nn, got[nn], sorted(acc))))
        elif op == "allU":
            p = int(f[1])
            want = len({(pp, v[1], v[0] if not v[2] else None) for (pp, nn), (v, info) in S.util.items() if p in EXT[pp]})
            # one entry per distinct (provided, component under ==); compare sizes as a multiset bound
            got = out.split()
            lo = len({(pp, v[1]) for (pp, nn), (v, info) in S.util.items() if p in EXT[pp]})
            if not (lo <= len(got) <= max(lo, want)) and len(got) != lo:
                msg = "getAllUtilitiesRegisteredFor(P%d) has %d entries, distinct live (provided, component) pairs: %d" % (p, len(got), lo)
                if mixed_seen:
                    known.append((i, msg))
                else:
                    bad.append((i, msg))
        elif op == "subsA":
            req = reqt(f[1])
            if f[2] == "N":
                want = sorted(s[1][0] for s in S.hand if len(s[0]) == len(req) and all(a in EXT[b] for a, b in zip(s[0], req)))
            else:
                p = int(f[2])
                want = sorted(s[2][0] for s in S.subs if len(s[0]) == len(req) and all(a in EXT[b] for a, b in zip(s[0], req)) and p in EXT[s[1]])
            got = sorted(int(x) for x in out.split())
            chk.count("subscription_queries")
            if got != want:
                bad.append((i, "subscriptions(%s, %s) = %s, live applicable %s: %s" % (req, f[2], got, "handlers" if f[2] == "N" else "subscription adapters", want)))
        elif op == "qA":
            req = reqt(f[1])
            p, n = int(f[2]), f[3]
            cands = [(k, v) for k, v in S.adap.items() if k[2] == n and len(k[0]) == len(req) and all(a in EXT[b] for a, b in zip(k[0], req)) and p in EXT[k[1]]]
            got = None if out == "N" else int(out)
            if (got is None) != (not cands) or (got is not None and got not in {v[0] for k, v in cands}):
                bad.append((i, "adapters.lookup(%s, P%d, %r) = %s, live applicable adapters: %s" % (req, p, n, out, sorted(v[0] for k, v in cands))))
        elif op == "probe":
            chk.count("probes")
            if out != "0 0":
                bad.append((i, "rebuildUtilityRegistryFromLocalCache() had to repair something: needed_registered, needed_subscribed = %s" % out))
    return bad


class _Null:
    def count(self, *a, **k):
        pass


KNOWN = {}


def check(tier):
    chk = core.Check("C16", tier)
    chk.obligations(THEOREMS, ["histories outside the guard HashClass (an unhashable component == a hashable one: known finding "
                               "utilities-mixed-hashability-double-subscription) are judged by the oracle only"])
    rnd = core.rng("C16")
    state = dict(vid=0)
    scripts = [gen_script(rnd, tier, state) for _ in range({"quick": 600, "thorough": 3000}[tier])]
    lines = [l for s in scripts for l in s]
    impl, model, divs = runner.correspond(chk, "components", lines, label="components")
    fails = []
    known = []
    for m, outs in impl.items():
        if outs is None:
            continue
        for idx, msg in oracle(chk if m == "c" else _Null(), lines, outs, known):
            s, e = runner.script_of(lines, idx)
            fails.append(dict(mode=m, script=lines[s:e], message=msg, observed=outs[idx]))
    if known:
        chk.violation("known", dict(), sig="utilities-mixed-hashability-double-subscription")
        chk.counters["known_finding_occurrences"] = len(known)
    seen = set()
    for f in fails:
        k = f["message"].split("(")[0][:30]
        if k in seen or len(seen) >= 3:
            continue
        seen.add(k)
        script = [l for l in f["script"] if l.split("|")[0] in ("reset", "sro", "persist", "reload", "reinit", "regU", "unregU", "regA", "unregA", "regS", "unregS", "regH", "unregH")] + [f["script"][-1]]
        chk.violation("%s [mode=%s]" % (f["message"], f["mode"]),
                      dict(kind="history", mode=f["mode"], script=script, observed=f["observed"], expected_by="spec", minimised=True))
    if not fails:
        runner.report_divergences(chk, divs, "Components-layer correspondence (ZI.Components vs registry.py)", "listing / query / event oracle accepted every answer")
        core.lean_failure_violation(chk)
    ops = {}
    for l in lines:
        k = l.split("|", 1)[0]
        ops[k] = ops.get(k, 0) + 1
    chk.counters["op_histogram"] = ops
    chk.samples.append(scripts[0][:40])
    return chk.finish(len(lines), chk.counters.get("replacements", 0) + chk.counters.get("noop_registrations", 0),
                      "histories of the eight register/unregister methods over provided P1 <- P2, required R1 <- R2 (arity 1-2), two names, components that are identical / "
                      "equal-but-distinct / unhashable / (in 40% of the histories) unhashable and equal to a hashable one; removals aimed at live registrations with the same, "
                      "an equal, or another component; half of the histories on a picklable Components that is stored and re-loaded (pickle round trip: the volatile counter cache "
                      "is rebuilt from the listing, the lookup objects anew) at 5-20% of the steps, __init__ run again at 1% of the steps; "
                      "after every call (and every re-load / re-initialisation): return value, events, four listings, utility / adapter / subscription queries, probe; "
                      "distinct_nontrivial = utility replacements and no-op re-registrations")


def replay(path):
    rep = runner.load_replay(path)
    script = rep["script"]
    mode = rep.get("mode", "c")
    out = core.run_impl("components", script, mode)
    model = core.run_model("components", script)
    bad = oracle(_Null(), script, out)
    for l, o, m in zip(script, out, model):
        print("%-40s impl: %s%s" % (l, o, "" if o == m else "   MODEL: " + m))
    for i, msg in bad:
        print("ORACLE:", msg)
    if bad or out != model:
        print("VIOLATION property=C16 replay=%s" % path)
        return 1
    print("replay passes on the current tree")
    return 0
