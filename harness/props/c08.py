"""C08 — all lookup entry points agree with lookup() and subscriptions()."""
from . import regcommon, worldcommon

THEOREMS = ["ZI.Registry.lookupAllRec_get", "ZI.Registry.C08_lookupAll", "ZI.Registry.get?_foldl_set", "ZI.Registry.foldl_reverse_overlay", "ZI.Registry.lookupRec_eq_first", "ZI.Upd.get?_fold_reverse", "ZI.Lookup.lookupRec_eq_first",
            "ZI.Registry.C08_registry_lookupAll_agrees", "ZI.Registry.uncachedLookupAll_get", "ZI.Registry.C08_verifying_lookupAll_agrees"]
PROFILE = dict(weights=[5, 1, 2.5, 0.8, 0.6, 0.1, 0], queries=["lookup", "lookup1", "lookupAll", "names", "subs"], nregs=(1, 3), extra_queries=1,
               arity=[0, 1, 1, 1, 2, 2], objects=True, entry_rounds=2, steps=(5, 22))
# the entry points must agree in every reachable state, including states reached by declaration / hierarchy changes while
# some entry points are warm (cached) and others cold
WORLD_PROFILE = dict(weights=[3, 0.8, 1.5, 0.4, 2.5, 2.5, 2, 0.5, 0.2], nregs=(1, 3), extra=2, provq=0, arity=[1, 1, 2, 2],
                     scen_hit=0.12, scen_rbases=0.03, scen_rebuild=0.03, scen_entry=0.2, single_entry=0.4)


def check(tier):
    return regcommon.run_property(
        "C08", tier, THEOREMS, PROFILE, dict(quick=140, thorough=3000),
        "random registry worlds; after every mutation every entry point (lookup, lookup1, lookupAll, names, queryAdapter, adapter_hook, queryMultiAdapter, "
        "subscriptions, subscribers) is called in random order, cold and warm, with factories returning None, explicit defaults and non-string names; "
        "distinct_nontrivial = object-level adaptation calls judged against lookup's specification",
        "object_adaptations",
        "registry-layer correspondence (entry points of LookupBase/AdapterLookupBase, C and py)",
        reentry_eps=worldcommon.REENTRY_EPS,
        extra_stream=worldcommon.twin_stream("C08", WORLD_PROFILE, dict(quick=30, thorough=600),
                                             ("lookup", "lookup1", "lookupAll", "names", "qadapter", "subs", "subscribers")))


def replay(path):
    return regcommon.replay("C08", path)
