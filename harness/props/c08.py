"""C08 — all lookup entry points agree with lookup() and subscriptions()."""
from . import regcommon

THEOREMS = ["ZI.Registry.lookupAllRec_get", "ZI.Registry.C08_lookupAll", "ZI.Registry.get?_foldl_set", "ZI.Registry.foldl_reverse_overlay", "ZI.Registry.lookupRec_eq_first", "ZI.Upd.get?_fold_reverse", "ZI.Lookup.lookupRec_eq_first"]
PROFILE = dict(weights=[5, 1, 2.5, 0.8, 0.6, 0.1, 0], queries=["lookup", "lookup1", "lookupAll", "names", "subs"], nregs=(1, 3), extra_queries=1,
               arity=[0, 1, 1, 1, 2, 2], objects=True, entry_rounds=2, steps=(5, 22))


def check(tier):
    return regcommon.run_property(
        "C08", tier, THEOREMS, PROFILE, dict(quick=140, thorough=3000),
        "random registry worlds; after every mutation every entry point (lookup, lookup1, lookupAll, names, queryAdapter, adapter_hook, queryMultiAdapter, "
        "subscriptions, subscribers) is called in random order, cold and warm, with factories returning None, explicit defaults and non-string names; "
        "distinct_nontrivial = object-level adaptation calls judged against lookup's specification",
        "object_adaptations",
        "registry-layer correspondence (entry points of LookupBase/AdapterLookupBase, C and py)")


def replay(path):
    return regcommon.replay("C08", path)
