"""C06 — registries consult exactly their current base chain, in resolution order."""
from . import regcommon, worldcommon

THEOREMS = ["ZI.Registry.C06_ro", "ZI.Registry.C06_subregistries", "ZI.Registry.run_inv", "ZI.Registry.step_inv", "ZI.Registry.setBases_inv",
            "ZI.Registry.rebuild_inv", "ZI.Registry.push_reaches", "ZI.Registry.push_keeps", "ZI.Registry.roFull_congr", "ZI.Registry.moveSubreg_spec",
            "ZI.Registry.changed_sameStr", "ZI.Registry.demo_wf", "ZI.Registry.verifyingChanged_fresh",
            "ZI.RO.C03_ro_eq_c3", "ZI.RO.roFull_valid", "ZI.Lookup.lookupRec_eq_first",
            "ZI.Registry.C06_ro_verifying", "ZI.Registry.C06_ro_verifying_notified", "ZI.Registry.C05_verifying_invariant", "ZI.Registry.C05_verifying_uncached_spec",
            "ZI.Registry.C04_most_general_lookup"]
NOT_PROVED = ["the specification graph is static in the registry model (changes of it between a re-basing and a lookup are covered by the world correspondence)"]
PROFILE = dict(weights=[4, 0.7, 1.5, 0.5, 4, 0.2, 0], queries=["lookup", "lookupAll", "subs", "ro"], nregs=(2, 6), layered=0.3,
               regbases=[0, 1, 1, 1, 2, 2], extra_queries=2, arity=[0, 1, 1, 2], steps=(6, 30), steps_big=(10, 60), decls=False)


# the base chain consulted must be the current one also when specification changes arrive between a re-basing and the next lookup
WORLD_PROFILE = dict(weights=[3, 0.6, 1, 0.3, 1.5, 1.5, 0.8, 3, 0.3], nregs=(2, 5), extra=1, provq=0, arity=[1, 1, 2], quiet=0.3,
                     scen_hit=0.02, scen_rbases=0.15, scen_rebuild=0.05)


def check(tier):
    return regcommon.run_property(
        "C06", tier, THEOREMS, PROFILE, dict(quick=180, thorough=3500),
        "registry DAGs of 2-6 registries (chains to depth 5, diamonds), both flavours alternating, re-basing at every level interleaved with registrations in every "
        "member and lookups from every registry; distinct_nontrivial = `ro` observations checked against the C3 order of the current base graph",
        "ro_queries",
        "registry-layer correspondence (ZI.Registry.setBases/verify/changed vs adapter.py) ",
        stated_not_proved=NOT_PROVED,
        # "exactly the registries CURRENTLY reachable" also when a registry above is re-based while an uncached lookup below is in flight
        reentry_eps=worldcommon.REENTRY_EPS, reentry_scenarios=("stale-rebase", "mixrebase"),
        extra_stream=worldcommon.twin_stream("C06", WORLD_PROFILE, dict(quick=30, thorough=600),
                                             ("lookup", "lookup1", "lookupAll", "names", "qadapter", "subs", "subscribers")))


def replay(path):
    return regcommon.replay("C06", path)
