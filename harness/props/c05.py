"""C05 — lookup caches are transparent: answers never depend on earlier lookups.

Lean: ZI/CacheModel.lean (invariant shape on an abstract cache machine), ZI/Props/C05.lean.
Tie: the integrated world model (declarations + registries + the lookup objects' subscriptions to required
specifications, both flavours) compared with both twins on histories interleaving every mutation kind with every entry
point.  Oracle (the statement itself, on the real code): a second implementation run in which every lookup-family call is
also put to a registry chain that received the same mutations and never performed a lookup."""
from .. import core, runner
from . import worldcommon

THEOREMS = ["ZI.Cache.C05_transparent", "ZI.Cache.inv_run", "ZI.Cache.inv_step", "ZI.Cache.lookup_transparent", "ZI.Cache.run_reg_sro", "ZI.Cache.wf_erase",
            # on the registry model the correspondence validates (notifying flavour, static specification graph)
            "ZI.Registry.C05_registry_cacheOk", "ZI.Registry.C05_registry_transparent_lookup", "ZI.Registry.C05_registry_transparent_lookupAll",
            "ZI.Registry.C05_registry_transparent_subscriptions", "ZI.Registry.C05_registry_erase", "ZI.Registry.goodBases_reachable",
            # generation-checking flavour (ZI/Props/C05Ver.lean)
            "ZI.Registry.C05_verifying_invariant", "ZI.Registry.C05_verifying_gen_mono", "ZI.Registry.C05_verifying_transparent_lookup",
            "ZI.Registry.C05_verifying_transparent_lookupAll", "ZI.Registry.C05_verifying_transparent_subscriptions", "ZI.Registry.C05_verifying_spec",
            "ZI.Registry.C05_verifying_erase", "ZI.Registry.roFull_regs_length"]
PROFILE = dict(weights=[4, 1.5, 2, 1.5, 2.5, 2.5, 2.5, 1.6, 0.3], nregs=(2, 4), extra=2, provq=1)
LOOKUPS = ("lookup", "lookup1", "lookupAll", "names", "subs", "qadapter", "subscribers")


def check(tier):
    chk = core.Check("C05", tier)
    chk.obligations(THEOREMS, ["refinement of the integrated World model to the abstract cache machine for specification changes (dynamic graph, weak tables); for "
                               "registry-side histories the statement is PROVED on the validated registry model itself, both flavours (C05_registry_* : I3 sub-registry "
                               "notification, I5 ro = C3 of current bases; C05_verifying_* : I4 generation snapshots)"])
    rnd = core.rng("C05")
    gen = worldcommon.WorldGen(rnd, tier, PROFILE)
    scripts = [gen.script(i % 2) for i in range({"quick": 60, "thorough": 900}[tier])]
    lines = [l for s in scripts for l in s]
    res = runner.run_impl_parallel("world", lines, [("c", []), ("py", []), ("c", ["twin"]), ("py", ["twin"])])
    impl, model, divs = runner.correspond(chk, "world", lines, label="world", precomputed={"c": res[0], "py": res[1]})
    twin_out = {"c": res[2], "py": res[3]}
    # the statement, directly: the same histories with a never-queried twin behind every lookup
    fails = []
    changed = 0
    for m in ("c", "py"):
        out = twin_out[m]
        if isinstance(out, core.ImplBroken):
            e = out
            divs.append(dict(mode=m, index=-1, line="", impl="<twin run could not be executed: %s>" % str(e)[-1200:], model="", script=[], label="world-twin"))
            continue
        chk.count("twin_lines_%s" % m, len(lines))
        prev = {}
        for i, (l, o) in enumerate(zip(lines, out)):
            op = l.split("|")[0]
            if op.startswith("reset"):
                prev = {}
            if op in LOOKUPS:
                if m == "c":
                    chk.count("lookups_against_never_queried_twin")
                    if l in prev and prev[l] != o:
                        changed += 1
                    prev[l] = o
                if "TWIN-DIFF" in o or "?" in o:
                    s, e = runner.script_of(lines, i)
                    fails.append(dict(mode=m, script=lines[s:e], message="%s returned %s" % (l, o), observed=o))
            elif o.startswith("err") or "other:" in o:
                s, e = runner.script_of(lines, i)
                fails.append(dict(mode=m, script=lines[s:e], message="%s -> %s" % (l, o), observed=o))
    rf = worldcommon.reentry_stage(chk, worldcommon.REENTRY_EPS)
    worldcommon.report_reentry(chk, rf)
    seen = set()
    for f in fails:
        k = f["script"][-1].split("|")[0] + f["mode"]
        if k in seen or len(seen) >= 3:
            continue
        seen.add(k)
        script = runner.ddmin(f["script"], lambda s, f=f: still_fails(s, f["mode"]), budget=40)
        chk.violation("%s [mode=%s]" % (f["message"], f["mode"]),
                      dict(kind="history", mode=f["mode"], script=script, observed=f["observed"], expected_by="spec", minimised=True, executor_args=["twin"]))
    if not fails and not rf:
        runner.report_divergences(chk, divs, "world-layer correspondence (ZI.World vs adapter.py lookup caches / _subscribe / changed, declarations.py); theorems ZI.Cache.inv_step, lookup_transparent",
                                  "never-queried-twin oracle accepted every lookup")
        core.lean_failure_violation(chk)
    ops = {}
    for l in lines:
        k = l.split("|", 1)[0]
        ops[k] = ops.get(k, 0) + 1
    chk.counters["op_histogram"] = ops
    if changed == 0 and not fails and not divs:
        raise core.Infra("generator sanity: no lookup answer ever changed between two identical queries")
    chk.samples.append(scripts[0][:30])
    return chk.finish(len(lines) * 4, changed,
                      "histories over 3-6 interfaces, 2-4 classes, instances, 2-3 registries (push and verifying flavours alternate), required keys = interfaces / "
                      "implementedBy / providedBy(instance) / providedBy(super proxy); mutations: register, unregister, subscribe, unsubscribe (aimed at live entries), "
                      "interface re-basing (G-provided), class and instance declaration calls, registry re-basing, rebuild; every mutation bracketed by the same affected "
                      "query before and after; all nine entry points; distinct_nontrivial = identical queries whose answer changed between two askings")


def still_fails(script, mode):
    try:
        out = core.run_impl("world", script, mode, ["twin"])
        return any("TWIN-DIFF" in o for o in out)
    except Exception:
        return False


def replay(path):
    rep = runner.load_replay(path)
    if rep.get("layer") == "reentry":
        return worldcommon.replay_reentry("C05", rep, path)
    script = rep["script"]
    mode = rep.get("mode", "c")
    out = core.run_impl("world", script, mode, ["twin"])
    model = core.run_model("world", script)
    bad = 0
    for l, o, m in zip(script, out, model):
        note = ""
        if "TWIN-DIFF" in o:
            bad += 1
        if o.split(" TWIN-DIFF")[0] != m:
            note = "   MODEL: " + m
            bad += 1
        print("%-44s impl: %s%s" % (l, o, note))
    if bad:
        print("VIOLATION property=C05 replay=%s" % path)
        return 1
    print("replay passes on the current tree")
    return 0
