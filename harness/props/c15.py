"""C15 — attribute, tagged-value and invariant resolution follow the resolution order.

Lean: ZI/Props/C15.lean.  Tie: interface DAGs in which several ancestors define the same name / tag (diamonds, overrides
on one branch only) with re-basing histories; every accessor family is observed after every step and compared with the
model (which has the `_v_attrs` memo and drops it where `changed()` goes).  The executor cross-checks the accessors among
themselves.  Oracle: the statement evaluated in the harness on an `__iro__` computed from the current bases by CPython's
own MRO."""
from .. import core, runner
from . import c03

THEOREMS = ["ZI.AttrsW.C15_agree", "ZI.AttrsW.C15_present", "ZI.AttrsW.C15_pinned_violates", "ZI.AttrsW.C15_get", "ZI.AttrsW.get_memoOk",
            "ZI.AttrsW.setBases_memoOk", "ZI.AttrsW.C15_settag_history", "ZI.AttrsW.C15_settag_listed", "ZI.AttrsW.C15_settag_resolves", "ZI.AttrsW.C15_settag_other", "ZI.AttrsW.C15_settag_unrelated", "ZI.AttrsW.setTag_get", "ZI.AttrsW.C15_tags", "ZI.AttrsW.C15_tag_first", "ZI.AttrsW.C15_invariants", "ZI.AttrsW.C15_follow", "ZI.AttrsW.C15_get_history", "ZI.AttrsW.winv_run", "ZI.AttrsW.winv_step", "ZI.AttrsW.step_untouched", "ZI.AttrsW.sroFresh_congr",
            "ZI.Attrs.nad_eq_get", "ZI.Upd.get?_fold_reverse"]
NAMES = ["a", "b", "c", "d"]
TAGS = ["p", "q", "r"]


def gen_script(rnd, tier):
    L = ["reset"]
    n = rnd.randint(3, 8)
    ib = {0: []}
    did = [0]
    kid = [0]

    def members():
        at = []
        for nm in NAMES:
            r = rnd.random()
            if r < 0.35:
                did[0] += 1
                at.append("%s:%d" % (nm, did[0]))
            elif r < 0.45:
                at.append("%s:R" % nm)            # re-exported from the bases (`x = Base["x"]`): a direct definition of the same description
        tg = ["%s:%d" % (t, rnd.choice([0, 0, 1, 2, 3, 999])) for t in TAGS if rnd.random() < 0.35]
        iv = []
        for _ in range(rnd.choice([0, 0, 1, 1, 2])):
            kid[0] += 1
            iv.append("%d:%d" % (kid[0], rnd.random() < 0.4))
        return (",".join(at) or "-", ",".join(tg) or "-", ",".join(iv) or rnd.choice(["-", "-", "E"]))

    for i in range(1, n + 1):
        for _ in range(8):
            bs = rnd.sample(range(1, i), min(i - 1, rnd.choice([0, 1, 1, 2, 2, 3])))
            b2 = dict(ib)
            b2[i] = bs or [0]
            if c03.cpython_mirror_mro(b2, i) is not None:
                break
        else:
            bs = []
        ib[i] = bs or [0]
        m_ = members()
        if i == 1:
            m_ = (m_[0], "-", m_[2])       # interface 1 starts WITHOUT tagged values (see the `settag` block below)
        L.append("iface %d %s %s %s %s" % ((i, ",".join(map(str, bs)) or "-") + m_))
    # an ancestor that has NO tagged values gets its first one after every descendant has been asked for its tags, with no re-basing
    # in between (seeded change o15a memoised, per resolution order, which interfaces of `__iro__` carry tags at all)
    d1 = sorted(j for j in ib if j and 1 in c03.reach(ib, j))
    for j in d1:
        L.append("q %d" % j)
    L.append("settag 1 %s %d" % (rnd.choice(TAGS), rnd.randint(1, 3)))
    for j in d1:
        L.append("q %d" % j)
    # some interfaces are watched by a dependent that asks them about every name from inside each change notification
    for i in range(1, n + 1):
        if rnd.random() < 0.3:
            L.append("q %d" % i)           # (a warm memo first)
            L.append("watch %d" % i)
    for step in range(rnd.randint(2, 10)):
        # warm the memo of a few interfaces, re-base, then ask again
        for i in rnd.sample(range(1, n + 1), min(n, 3)):
            if rnd.random() < 0.5:
                L.append("get %d %s" % (i, rnd.choice(NAMES)))
            else:
                L.append("q %d" % i)
        if rnd.random() < 0.35:
            st_ = rnd.randint(1, n)
            L.append("settag %d %s %d" % (st_, rnd.choice(TAGS), rnd.randint(1, 3)))
            for j in sorted(j for j in ib if j and st_ in c03.reach(ib, j)):
                L.append("q %d" % j)
        s = rnd.randint(1, n)
        down = {j for j in ib if s in c03.reach(ib, j)}
        cand = [j for j in range(1, n + 1) if j not in down]
        for _ in range(10):
            cur = [b for b in ib[s] if b]
            r = rnd.random()
            if len(cur) >= 2 and r < 0.35:
                bs = cur[:]
                while bs == cur:
                    rnd.shuffle(bs)               # the same ancestors in another order
            else:
                bs = rnd.sample(cand, min(len(cand), rnd.choice([0, 1, 1, 2, 2])))
            b2 = dict(ib)
            b2[s] = bs or [0]
            if all(c03.cpython_mirror_mro(b2, j) is not None for j in down):
                break
        else:
            continue
        ib[s] = bs or [0]
        L.append("set %d %s" % (s, ",".join(map(str, bs)) or "-"))
        for i in sorted(down):
            L.append("q %d" % i)
        if rnd.random() < 0.5:
            L.append("q %d" % rnd.randint(1, n))
    if rnd.random() < 0.25:
        # both generations of a re-loaded interface in one ancestry, reached through different bases (fresh nodes; the twins
        # never share a base): every view must see the members of BOTH objects
        x, t, a, b, s2 = n + 1, n + 2, n + 3, n + 4, n + 5
        bx = rnd.sample(range(1, n + 1), min(n, rnd.choice([0, 1])))
        b2 = dict(ib)
        b2[x], b2[t], b2[a], b2[b] = bx or [0], [0], [x], [t]
        b2[s2] = rnd.choice([[a, b], [a, t], [b, x]])
        if c03.cpython_mirror_mro(b2, s2) is not None:
            ib.update(b2)
            L.append("iface %d %s %s %s %s" % ((x, ",".join(map(str, bx)) or "-") + members()))
            L.append("twin %d %d %s %s %s" % ((t, x) + members()))
            L.append("iface %d %d %s %s %s" % ((a, x) + members()))
            L.append("iface %d %d %s %s %s" % ((b, t) + members()))
            L.append("iface %d %s %s %s %s" % ((s2, ",".join(map(str, b2[s2]))) + members()))
            for i in (a, b, s2):
                L.append("q %d" % i)
            for nm in NAMES:
                L.append("get %d %s" % (s2, nm))
        return L
    if rnd.random() < 0.35:
        # a re-loaded twin (equal name and module, another object) replaces a base of its only dependent, then gets bases
        # of its own that define further names / tags / invariants (restrictions as in C02's scenario)
        cands = [(x, ch) for x in range(1, n + 1) for ch in range(1, n + 1) if x in ib[ch] and sum(1 for d in ib if x in ib[d]) == 1]
        rnd.shuffle(cands)
        for x, ch in cands[:3]:
            t = n + 1
            b2 = dict(ib)
            b2[t] = [0]
            b2[ch] = [t if b == x else b for b in ib[ch]]
            down = {j for j in b2 if ch in c03.reach(b2, j)}
            if not all(c03.cpython_mirror_mro(b2, j) is not None for j in down):
                continue
            pool = [j for j in range(1, n + 1) if j not in down and j != x and j not in c03.reach(b2, x) and x not in c03.reach(b2, j)]
            L.append("twin %d %d %s %s %s" % ((t, x) + members()))
            L.append("get %d %s" % (ch, rnd.choice(NAMES)))
            L.append("set %d %s" % (ch, ",".join(map(str, b2[ch]))))
            ib.update(b2)
            for i in sorted(down):
                L.append("q %d" % i)
            for _ in range(6):
                bs = rnd.sample(pool, min(len(pool), rnd.choice([1, 1, 2])))
                b3 = dict(ib)
                b3[t] = bs or [0]
                if bs and all(c03.cpython_mirror_mro(b3, j) is not None for j in down | {t}):
                    ib[t] = bs
                    L.append("set %d %s" % (t, ",".join(map(str, bs))))
                    for i in sorted(down):
                        L.append("q %d" % i)
                        L.append("get %d %s" % (i, rnd.choice(NAMES)))
                    break
            break
    return L


def oracle(chk, lines, outs):
    lines = [("iface %s - %s" % (l.split()[1], " ".join(l.split()[3:])) if l.startswith("twin ") else l) for l in lines]
    bad = []
    for i, (line, out) in enumerate(zip(lines, outs)):
        f = line.split()
        if f[0] == "reset":
            ib, direct, tags, invs = {0: []}, {0: {}}, {0: {}}, {0: []}
            prev = {}
            continue
        if out.startswith("err") or out == "bad" or " || " in out:
            bad.append((i, "%s -> %s" % (line, out)))
            continue

        def lst(s):
            return [] if s in ("-", "E") else s.split(",")
        if f[0] == "iface":
            k = int(f[1])
            ib[k] = [int(x) for x in lst(f[2])] or [0]
            direct[k] = {}
            for e in lst(f[3]):
                nm_, d_ = e.split(":")
                if d_ == "R":
                    # re-exported: what the bases resolve the name to at this moment, as a direct definition of interface k
                    ib_tmp = dict(ib)
                    ib_tmp[-1] = ib[k]
                    want_ = None
                    for j in (c03.cpython_mirror_mro(ib_tmp, -1) or [])[1:]:
                        if nm_ in direct[j]:
                            want_ = direct[j][nm_]
                            break
                    if want_ is not None:
                        direct[k][nm_] = want_
                        chk.count("re_exported_descriptions")
                else:
                    direct[k][nm_] = int(d_)
            tags[k] = dict((e.split(":")[0], int(e.split(":")[1])) for e in lst(f[4]))
            invs[k] = [(int(e.split(":")[0]), e.split(":")[1] == "1") for e in lst(f[5])]
        elif f[0] == "settag":
            tags[int(f[1])][f[2]] = int(f[3])
            chk.count("tagged_values_set_on_live_interfaces")
        elif f[0] == "watch":
            chk.count("interfaces_watched_from_inside_notifications")
        elif f[0] == "set" and "WATCH-FAIL" in out:
            bad.append((i, "%s: %s" % (line, out.split("WATCH-FAIL")[1].strip())))
            ib[int(f[1])] = [int(x) for x in lst(f[2])] or [0]
        elif f[0] == "set":
            ib[int(f[1])] = [int(x) for x in lst(f[2])] or [0]
            chk.count("rebasings")
        elif f[0] in ("get", "q"):
            k = int(f[1])
            iro = c03.cpython_mirror_mro(ib, k)
            if iro is None:
                raise core.Infra("generator produced an inconsistent hierarchy")

            def first(tab, key):
                for j in iro:
                    if key in tab[j]:
                        return tab[j][key]
                return None
            if f[0] == "get":
                want = first(direct, f[2])
                chk.count("get_queries")
                if out != ("N" if want is None else str(want)):
                    bad.append((i, "I%d.get(%r) = %s, the first interface in __iro__ %s defining it gives %s" % (k, f[2], out, iro, want)))
                continue
            a, t, v = [p.strip() for p in out.split("|")]
            wa = ",".join("%s=%d" % (nm, first(direct, nm)) for nm in NAMES if first(direct, nm) is not None)
            wt = ",".join("%s=%d" % (tg, first(tags, tg)) for tg in TAGS if first(tags, tg) is not None)
            allinv = [x for j in iro for x in invs[j]]
            fails = [str(x[0]) for x in allinv if x[1]]
            wv = "V first=%s all=%s run=%s" % (fails[0] if fails else "-", ",".join(fails), ",".join(str(x[0]) for x in allinv))
            chk.count("interface_dumps_judged")
            if a != ("A " + wa).strip():
                bad.append((i, "names/descriptions of I%d are [%s]; first definition along __iro__ %s gives [%s]" % (k, a, iro, wa)))
            if t != ("T " + wt).strip():
                bad.append((i, "tagged values of I%d are [%s]; nearest definition along __iro__ %s gives [%s]" % (k, t, iro, wt)))
            if v != wv:
                bad.append((i, "validateInvariants on I%d: [%s]; every invariant along __iro__ %s gives [%s]" % (k, v, iro, wv)))
            if k in prev and prev[k] != out:
                chk.count("answers_changed_by_rebasing")
            prev[k] = out
            # a name defined by several ancestors, resolved differently by depth-first and by resolution order
            if sum(1 for j in iro if any(nm in direct[j] for nm in NAMES)) >= 2:
                chk.count("dumps_with_competing_definitions")
    return bad


class _Null:
    def count(self, *a, **k):
        pass


def check(tier):
    chk = core.Check("C15", tier)
    chk.obligations(THEOREMS)
    rnd = core.rng("C15")
    corpus = [["reset", "iface 1 - foo:10 - -".replace("foo", "a"), "iface 2 1 - - -", "iface 3 1 a:30 - -", "iface 4 2,3 - - -", "q 4", "get 4 a"]]
    scripts = corpus + [gen_script(rnd, tier) for _ in range({"quick": 900, "thorough": 8000}[tier])]
    lines = [l for s in scripts for l in s]
    impl, model, divs = runner.correspond(chk, "attrs", lines, label="attrs", normalise=lambda x: x.split(" || ")[0])
    fails = []
    for m, outs in impl.items():
        if outs is None:
            continue
        for idx, msg in oracle(chk if m == "c" else _Null(), lines, outs):
            s, e = runner.script_of(lines, idx)
            fails.append(dict(mode=m, script=lines[s:e], message=msg, observed=outs[idx]))
    seen = set()
    for f in fails:
        k = f["message"][:18]
        if k in seen or len(seen) >= 3:
            continue
        seen.add(k)
        script = runner.ddmin(f["script"], lambda s, f=f, k=k: still_fails(s, f["mode"], k), budget=30)
        chk.violation("%s [mode=%s]" % (f["message"], f["mode"]),
                      dict(kind="history", mode=f["mode"], script=script, observed=f["observed"], expected_by="spec", minimised=True))
    if not fails:
        runner.report_divergences(chk, divs, "attribute-layer correspondence (ZI.AttrsW vs interface.py get/_v_attrs/namesAndDescriptions/tagged values/validateInvariants); theorems C15_agree, C15_get",
                                  "statement oracle accepted every answer")
        core.lean_failure_violation(chk)
    chk.samples.append(scripts[1][:20])
    chk.counters["competing_definitions"] = chk.counters.get("dumps_with_competing_definitions", 0)
    return chk.finish(len(lines), chk.counters.get("answers_changed_by_rebasing", 0),
                      "interface DAGs of 3-8 nodes, 4 attribute names / 3 tags / invariants defined by several ancestors; re-basing histories (incl. pure "
                      "permutations of the bases) with the memo warmed before each re-basing; every accessor family dumped for every affected interface; "
                      "distinct_nontrivial = dumps whose answer changed because of a re-basing")


def still_fails(script, mode, kind):
    try:
        out = core.run_impl("attrs", script, mode)
        return any(m[:18] == kind for _, m in oracle(_Null(), script, out))
    except Exception:
        return False


def replay(path):
    rep = runner.load_replay(path)
    script = rep["script"]
    mode = rep.get("mode", "c")
    out = core.run_impl("attrs", script, mode)
    model = core.run_model("attrs", script)
    bad = oracle(_Null(), script, out)
    for l, o, m in zip(script, out, model):
        print("%-44s impl: %s%s" % (l, o, "" if o.split(" || ")[0] == m else "   MODEL: " + m))
    for i, msg in bad:
        print("ORACLE:", msg)
    if bad or [o.split(" || ")[0] for o in out] != model:
        print("VIOLATION property=C15 replay=%s" % path)
        return 1
    print("replay passes on the current tree")
    return 0
