"""C13 — specifications pickle by reference and unpickle to the equivalent live object.

Lean: ZI/Props/C13.lean (the per-class pickling state under every declaration history; reductions carry names only).
Tie: a synthetic importable module is populated with generated interfaces and classes declared in every shape; the
reductions of class specifications and instance declarations are compared with the model; every round trip is executed
for protocols 0-5 on both twins.  Oracle: identity (interfaces, class specifications, the empty declaration), same
interfaces + equality (provides-declarations, carrying objects), and no definition text in the pickle bytes."""
from .. import core, runner
from . import c03

THEOREMS = ["ZI.Pickle.C13_implements", "ZI.Pickle.inv_run", "ZI.Pickle.inv_step", "ZI.Pickle.C13_pinned_violates", "ZI.Pickle.C13_names_only",
            # instance declarations over all declaration histories (ZI/Props/C13Hist.lean, on ZI.Classes2)
            "ZI.C13H.C13_provides_same", "ZI.C13H.C13_unpickle_same", "ZI.C13H.C13_provides_identical"]
KNOWN_SIG = "classprovides-unpickle-not-equal"


def gen_script(rnd, tier):
    L = ["reset :"]
    n = rnd.randint(2, 5)
    ib = {0: []}
    for i in range(1, n + 1):
        for _ in range(8):
            bs = rnd.sample(range(1, i), min(i - 1, rnd.choice([0, 1, 1, 2])))
            b2 = dict(ib)
            b2[i] = bs or [0]
            if c03.cpython_mirror_mro(b2, i) is not None:
                break
        else:
            bs = []
        ib[i] = bs or [0]
        L.append("iface %d : %s" % (i, " ".join(map(str, bs))))
    pycls = {0: object}
    cb = {}
    nc = rnd.randint(1, 4)
    for c in range(1, nc + 1):
        for _ in range(8):
            bs = rnd.sample(list(cb), min(len(cb), rnd.choice([0, 1, 1, 2])))
            try:
                pycls[c] = type("G%d" % c, tuple(pycls[b] for b in bs) or (object,), {})
                break
            except TypeError:
                continue
        else:
            bs = []
            pycls[c] = type("G%d" % c, (object,), {})
        cb[c] = bs
        L.append("class %d : %s" % (c, " ".join(map(str, bs))))
    nreal = nc
    if rnd.random() < 0.35:
        # a builtin / extension type (cannot carry __implemented__); its declarations are process-wide, so the script
        # starts by replacing whatever an earlier script left
        nc += 1
        L.append("bclass %d :" % nc)
        L.append("only %d : %s" % (nc, " ".join(map(str, rnd.sample(range(1, n + 1), rnd.randint(0, min(2, n)))))))
    # some class specifications are watched by a dependent that pickles them from inside every change notification
    for c in range(1, nreal + 1):
        if rnd.random() < 0.4:
            L.append("watch %d :" % c)
    # class declarations first (every shape, several per class, *only* forms repeated) ...
    for _ in range(rnd.randint(0, 6)):
        c = rnd.randint(1, nc)
        xs = rnd.sample(range(1, n + 1), rnd.randint(0 if rnd.random() < 0.2 else 1, min(2, n)))
        kind = rnd.choice(["add", "add d", "only", "only d", "only", "first"])
        if c > nreal:
            kind = kind.split()[0]           # decorators return the class; same calls
        if kind == "first":
            xs = xs[:1] or [1]
        if kind.startswith("add") and not xs:
            xs = [1]
        L.append("%s %d%s : %s" % (kind.split()[0], c, " d" if kind.endswith(" d") else "", " ".join(map(str, xs))))
        if rnd.random() < 0.3:
            L.append("rimpl %d :" % c)
    for c in range(1, nc + 1):
        L.append("rimpl %d :" % c)
        L.append("pk M %d :" % c)
    # ... then class-provided interfaces and instance declarations, pickled while the class declarations are settled
    nc = nreal
    for c in range(1, nc + 1):
        if rnd.random() < 0.4:
            L.append("mimpl %d : %d" % (c, rnd.randint(1, n)))          # (for the classes that have a metaclass of their own)
        if rnd.random() < 0.6:
            xs = rnd.sample(range(1, n + 1), rnd.randint(1, min(2, n)))
            L.append("cprov %d : %s" % (c, " ".join(map(str, xs))))
            if rnd.random() < 0.4:
                L.append("clookup %d :" % c)
            r = rnd.random()
            if r < 0.3:
                L.append("calso %d : %d" % (c, rnd.randint(1, n)))
            elif r < 0.6:
                for x in xs:
                    L.append("cnl %d : %d" % (c, x))          # withdraw everything again
            elif r < 0.7:
                L.append("cprov %d :" % c)
        L.append("pk C %d :" % c)
    no = rnd.randint(1, 4)
    for o in range(1, no + 1):
        L.append("inst %d : %d" % (o, rnd.randint(1, nc)))
    for _ in range(rnd.randint(1, 8)):
        o = rnd.randint(1, no)
        xs = rnd.sample(range(1, n + 1), rnd.randint(1, min(2, n)))
        kind = rnd.choice(["dp", "dp", "also", "nl"])
        L.append("%s %d : %s" % (kind, o, " ".join(map(str, xs if kind != "nl" else xs[:1]))))
        L.append("rprov %d :" % o)
        L.append("pk P %d :" % o)
        L.append("pk O %d :" % o)
        L.append("pk B %d :" % rnd.randint(1, no))
    if n >= 2 and rnd.random() < 0.4:
        # an earlier object keeps a declaration built before the class declaration changed (never pickled afterwards: G-settled);
        # a second object of the same class then declares the same interfaces and IS pickled
        c = rnd.randint(1, nreal)
        x, y = rnd.sample(range(1, n + 1), 2)
        oa, ob = no + 1, no + 2
        L += ["inst %d : %d" % (oa, c), "inst %d : %d" % (ob, c), "dp %d : %d %d" % (oa, x, y),
              rnd.choice(["add %d : %d", "only %d : %d", "first %d : %d"]) % (c, x),
              "dp %d : %d %d" % (ob, x, y), "rprov %d :" % ob, "pk P %d :" % ob, "pk O %d :" % ob, "pk B %d :" % ob]
    if n >= 2 and rnd.random() < 0.5:
        # an interface declared directly while the class does NOT implement it; the class picks it up, and drops it again; the
        # declaration is pickled after each step: what it provides and what its pickle gives back never part company
        cz, oz = 90 + rnd.randint(0, 5), no + 5
        x, y = rnd.sample(range(1, n + 1), 2)
        L += ["class %d :" % cz, "inst %d : %d" % (oz, cz), "dp %d : %d" % (oz, x), "pk P %d :" % oz,
              "add %d : %d" % (cz, x), "pk b %d :" % oz, "only %d : %d" % (cz, y), "rprov %d :" % oz, "pk p %d :" % oz, "pk o %d :" % oz, "pk b %d :" % oz]
    for i in range(1, n + 1):
        L.append("pk I %d :" % i)
    L.append("pk E :")
    return L


MODEL_OPS = ("reset", "iface", "class", "bclass", "inst", "add", "only", "first", "dp", "also", "nl", "rimpl", "rprov")


class _Null:
    def count(self, *a, **k):
        pass


def judge(chk, lines, outs):
    """-> (bad, known) ; known = occurrences of the recorded finding"""
    bad, known = [], []
    for i, (l, o) in enumerate(zip(lines, outs)):
        f = l.split()
        if "WATCH-FAIL" in o:
            bad.append((i, "%s: a dependent pickled the class specification from inside the change notification: %s" % (l, o.split("WATCH-FAIL")[1].strip())))
            continue
        if f[0] == "watch":
            chk.count("specifications_pickled_inside_notifications")
        if o.startswith("err") or o == "bad" or o.startswith("other") or "?" in o.split("FAIL")[0]:
            bad.append((i, "%s -> %s" % (l, o)))
            continue
        if f[0] == "pk":
            chk.count("round_trips_x6_protocols")
            chk.count("kind_" + f[1])
            if o.startswith("FAIL"):
                probs = o.split()[1:]
                if f[1] == "C" and all(p.endswith(":not-equal") for p in probs):
                    known.append((i, l))
                    continue
                bad.append((i, "%s: %s" % (l, o)))
        elif f[0] == "rimpl":
            chk.count("reductions_judged")
            if o != "cls %s" % f[1]:
                bad.append((i, "implementedBy(C%s) reduces to implementedBy(%s): unpickling would not give the class's own specification" % (f[1], o[4:])))
    return bad, known


def check(tier):
    chk = core.Check("C13", tier)
    chk.obligations(THEOREMS)
    rnd = core.rng("C13")
    corpus = [["reset :", "iface 1 :", "iface 2 :", "class 1 :", "add 1 : 1", "class 2 : 1", "only 2 d : 2", "rimpl 2 :", "pk M 2 :", "only 2 : 1", "rimpl 2 :", "pk M 2 :"]]
    scripts = corpus + [gen_script(rnd, tier) for _ in range({"quick": 150, "thorough": 4000}[tier])]
    lines = [l for s in scripts for l in s]
    midx = [i for i, l in enumerate(lines) if l.split()[0] in MODEL_OPS]
    model = core.run_model("pickle", [lines[i].replace("bclass", "class") for i in midx])
    divs, fails, knowns = [], [], []
    for m in ("c", "py"):
        try:
            out = core.run_impl("pickle", lines, m)
        except core.ImplBroken as e:
            divs.append(dict(mode=m, index=-1, line="", impl="<implementation could not be run: %s>" % str(e)[-1200:], model="", script=[], label="pickle"))
            continue
        chk.count("lines_%s" % m, len(lines))
        for i, mo in zip(midx, model):
            if lines[i].split()[0] in ("rimpl", "rprov") and out[i].rstrip() != mo.rstrip() and len(divs) < 5:
                s, e = runner.script_of(lines, i)
                divs.append(dict(mode=m, index=i, line=lines[i], impl=out[i], model=mo, script=lines[s:e], label="pickle"))
        bad, known = judge(chk if m == "c" else _Null(), lines, out)
        for idx, msg in bad:
            s, e = runner.script_of(lines, idx)
            fails.append(dict(mode=m, script=lines[s:e], message=msg, observed=out[idx]))
        knowns += known
    if knowns:
        i, l = knowns[0]
        chk.violation("known", dict(), sig=KNOWN_SIG)
        chk.counters["known_finding_occurrences"] = len(knowns)
    seen = set()
    for f in fails:
        k = f["script"][-1].split()[0] + f["script"][-1].split()[1] + f["message"].split("FAIL")[-1][:14]
        if k in seen or len(seen) >= 3:
            continue
        seen.add(k)
        chk.violation("%s [mode=%s]" % (f["message"], f["mode"]),
                      dict(kind="history", mode=f["mode"], script=f["script"], observed=f["observed"], expected_by="spec", minimised=False))
    if not fails:
        runner.report_divergences(chk, divs, "pickling-layer correspondence (ZI.Pickle.reduce / Provides constructor arguments vs __reduce__); theorem C13_implements",
                                  "round-trip oracle accepted every case")
        core.lean_failure_violation(chk)
    chk.samples.append(scripts[1][:30])
    return chk.finish(chk.counters.get("round_trips_x6_protocols", 0) * 6, chk.counters.get("kind_M", 0) + chk.counters.get("kind_C", 0),
                      "generated importable module: 2-5 interfaces, 1-4 classes declared in every shape (implementer, classImplements, *only* forms incl. repeated, "
                      "classImplementsFirst, inherited, undeclared), class-provided interfaces (incl. withdrawn), instances with direct declarations; round trips of "
                      "interfaces, class specifications, instance / class provides-declarations, carrying objects, providedBy results and the empty declaration under "
                      "protocols 0-5; distinct_nontrivial = class-specification and class-provides round trips")


def replay(path):
    rep = runner.load_replay(path)
    script = rep["script"]
    mode = rep.get("mode", "c")
    out = core.run_impl("pickle", script, mode)
    bad, known = judge(_Null(), script, out)
    for l, o in zip(script, out):
        print("%-30s impl: %s" % (l, o))
    for i, msg in bad:
        print("ORACLE:", msg)
    if bad:
        print("VIOLATION property=C13 replay=%s" % path)
        return 1
    print("replay passes on the current tree")
    return 0
