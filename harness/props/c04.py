"""C04 — adapter lookup returns the most specific applicable registration."""
from . import regcommon, worldcommon

THEOREMS = ["ZI.Registry.Ext.relookup_tabOk_verifying", "ZI.Registry.Ext.relookup_tabOk", "ZI.Registry.Ext.relookup_adapters", "ZI.Registry.Ext.tabOk_initExt", "ZI.Registry.lookupRec_eq_first", "ZI.Registry.mem_rpaths", "ZI.Registry.C04_sound", "ZI.Registry.C04_complete", "ZI.Registry.C04_best",
            "ZI.Registry.rpaths_first_position", "ZI.Registry.C04_chain", "ZI.Lookup.lookupRec_eq_first",
            "ZI.Registry.C04_extInv", "ZI.Registry.C04_extendors_content", "ZI.Registry.C04_provided_count_ne_zero", "ZI.Registry.C04_extendors_nodup",
            "ZI.Registry.C04_extendors_order", "ZI.Registry.C04_most_general", "ZI.Registry.C04_most_general_lex", "ZI.Registry.C04_most_general_lookup",
            "ZI.Registry.C04_guard", "ZI.Registry.C04_count_ge", "ZI.Registry.C04_lookup_complete", "ZI.Registry.C05_registry_transparent_lookup"]
PROFILE = dict(weights=[6, 1, 1, 0.5, 0.7, 0.1, 0], queries=["lookup", "lookup1", "lookupAll"], nregs=(1, 3), extra_queries=4,
               arity=[0, 1, 1, 2, 2, 2, 3])
# the most specific registration *for the specifications as they are now*: histories with declaration / hierarchy changes
WORLD_PROFILE = dict(weights=[3, 0.8, 0.3, 0.1, 2.5, 2.5, 2, 0.6, 0.2], nregs=(1, 3), extra=1, provq=0, arity=[1, 1, 2, 2, 3],
                     scen_hit=0.12, scen_rbases=0.04, scen_rebuild=0.03, scen_addspec=0.1)


def check(tier):
    return regcommon.run_property(
        "C04", tier, THEOREMS, PROFILE, dict(quick=160, thorough=3000),
        "random registries (arity 0-3, names incl. non-ASCII, interface and Declaration keys, None keys) over multiple-inheritance hierarchies; "
        "keys derived from live keys by replacing one position with a relative; distinct_nontrivial = lookups having applicable registrations of >=2 different ranks",
        "lookups_candidates_of_different_rank",
        "registry-layer correspondence (ZI.Registry.lookup/_lookup vs adapter.py, LookupBase C/py); theorem ZI.Lookup.lookupRec_eq_first",
        reentry_eps=["lookup", "lookup1", "queryAdapter", "adapter_hook", "queryMultiAdapter"],
        extra_stream=worldcommon.twin_stream("C04", WORLD_PROFILE, dict(quick=30, thorough=600), ("lookup", "lookup1", "qadapter")))


def replay(path):
    return regcommon.replay("C04", path)
