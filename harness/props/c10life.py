"""C10, object-lifetime stream (executor: harness/layers/life.py).

"The same subsequent behaviour" covers what a program can observe of the lifetime of its objects: the weak reference handed
out by the public `ISpecification.weakref()`, ordinary weak references and finalizers of the objects the program created, and
the `dependents` of long-lived interfaces.  The two implementations store the same references in different places (C struct
slots traversed by hand-written `tp_traverse` functions vs. ordinary instance attributes), so the same program must see the
same objects die at the same point under both.

generator : one *island* per script (see the executor's docstring): an owner, its private registry (three flavours, five base
            shapes), private interfaces / classes / instances, values that do or do not refer back into the island, random
            registrations, queries through every lookup entry point (cache fills), specification queries (slot fills),
            late mutations (cache invalidation), an optional `keep` of some objects, then `drop` + cyclic collection.
judgement : (1) the C and Python traces are compared directly by c10.check, like every other stream;
            (2) independent oracle (`judge`): a reference-graph reading of the script — the strong references the documented
                API promises (a registry holds what is registered in it and its bases; a specification holds its bases and
                what was declared; `dependents`, sub-registries and weakref() are weak) — decides for every named object
                whether it must be dead (unreachable from what the program kept) or must be alive after `drop`.  Cache
                contents are bounded from both sides (surely cached: asked after the last mutation; possibly cached: asked
                at all), objects between the two bounds are not judged by the oracle.
            Three facts about the unchanged library, the same under both implementations, are part of the reading (found when the
            oracle was first run; none is a C-vs-Python difference):
              * `declarations.InstanceDeclarations` is a weak-VALUE dictionary keyed by `(cls, *interfaces)`: while a `Provides`
                declaration lives, the module-level cache holds its class and interfaces strongly — so a class (or directly provided
                interface) from which an instance carrying such a declaration is reachable can never be collected;
              * `remove_extendor` leaves an emptied list under the provided interface (and its ancestors) in the lookup's
                `_extendors`: a registry keeps every interface it ever had a registration *for*, also after the last unregistration;
              * a verifying registry is not notified by its bases, so until it is asked again its caches may hold components whose
                registration in a base is gone (upper bound only)."""

SPEC_EPS = ["lookup", "lookup1", "lookupAll", "names", "subscriptions"]
OBJ_EPS = ["queryAdapter", "adapter_hook", "queryMultiAdapter", "subscribers", "handle", "getAdapters"]
UTIL_EPS = ["queryUtility", "getUtilitiesFor", "getAllUtilitiesRegisteredFor"]
CACHE_OF = dict(lookup="cache", lookup1="cache", queryAdapter="cache", adapter_hook="cache", queryMultiAdapter="cache", queryUtility="cache",
                lookupAll="mcache", names="mcache", getAdapters="mcache", getUtilitiesFor="mcache",
                subscriptions="scache", subscribers="scache", handle="scache", getAllUtilitiesRegisteredFor="scache")
BASES = {0: [], 1: ["r1"], 2: ["G"], 3: ["r1", "G"], 4: ["r1"]}


# ---------------------------------------------------------------------------
# generator

def gen_script(rnd, sid):
    flavour = rnd.choice("AAAAVVVCCC")
    b = rnd.choice([0, 0, 0, 1, 1, 2, 2, 3, 4])
    L = ["reset %d %s %d" % (sid, flavour, b)]
    regs = ["r0"] + (["r1"] if b in (1, 3, 4) else [])
    ifaces, classes, insts, vals = [], [], [], []
    desc = {}                                            # name -> specs an object of that name offers (for useful requirements)
    for n in range(rnd.randint(1, 3)):
        i = "i%d" % n
        bases = [x for x in ifaces + ["g0", "g1"] if rnd.random() < 0.3]
        if "g0" in bases and "g1" in bases:
            bases.remove("g0")                           # g1 extends g0: keep the base list C3-consistent
        L.append("iface %s %s %s" % (i, "own" if rnd.random() < 0.12 else "-", " ".join(bases)))
        ifaces.append(i)
    for n in range(rnd.randint(1, 2)):
        k = "k%d" % n
        decl = [x for x in ifaces + ["g1"] if rnd.random() < 0.5]
        L.append("class %s %s %s" % (k, "own" if rnd.random() < 0.1 else "-", " ".join(decl)))
        classes.append(k)
        desc[k] = decl + [k, "*"]
        if rnd.random() < 0.2:
            L.append("cprov %s %s" % (k, " ".join(rnd.sample(ifaces + ["g0"], 1))))
    for n in range(rnd.randint(1, 2)):
        x, k = "x%d" % n, rnd.choice(classes)
        direct = [rnd.choice(ifaces + ["g0"])] if rnd.random() < 0.4 else []
        L.append("inst %s %s %s %s" % (x, k, "own" if rnd.random() < 0.15 else "-", " ".join(direct)))
        insts.append(x)
        desc[x] = direct + desc[k]
    for n in range(rnd.randint(2, 4)):
        v = "v%d" % n
        if rnd.random() < 0.45:
            L.append("val %s m %d" % (v, n))
        else:
            L.append("val %s f %s" % (v, rnd.choice(["-", "-", "o", "o", "r0", rnd.choice(insts), rnd.choice(regs)])))
        vals.append(v)
    provs = ifaces + ["g0", "g1"]
    made = []                                            # registrations so far: (r, kind, name, prov, val, req)

    def new_reg():
        r = rnd.choice(regs * 8 + ["G"])
        kind = rnd.choice("aaasshhu" if flavour != "C" else "aasshhuu")
        src = desc[rnd.choice(insts)]
        req = [rnd.choice(src) if rnd.random() < 0.85 else rnd.choice(provs + classes) for _ in range(1 if rnd.random() < 0.75 else 2)]
        if kind == "u":
            req = []
        name = rnd.choice(["-", "-", "n"]) if kind in "au" else "-"
        prov = "-" if kind == "h" else rnd.choice(provs)
        return (r, kind, name, prov, rnd.choice(vals), tuple(req))

    def fmt(op, g):
        return "%s %s %s %s %s %s %s" % ((op,) + g[:5] + (" ".join(g[5]),))

    def new_q():
        r = rnd.choice(["r0"] * 4 + regs)
        g = rnd.choice([m for m in made if m[0] in (r, "G", "r1")] or made or [None]) if rnd.random() < 0.8 else None
        if g is not None and g[1] == "u":
            ep = rnd.choice(UTIL_EPS)
            return "q %s %s %s %s" % (r, ep, g[3], g[2])
        if g is not None:
            prov, name, req = g[3], g[2], list(g[5])
            ep = rnd.choice({"a": ["lookup", "lookup1", "lookupAll", "names", "queryAdapter", "adapter_hook", "queryMultiAdapter", "getAdapters"],
                             "s": ["subscriptions", "subscribers"], "h": ["subscriptions", "handle", "subscribers"]}[g[1]])
        else:
            prov, name = rnd.choice(provs), rnd.choice(["-", "n"])
            req = [rnd.choice(provs + classes + insts) for _ in range(rnd.choice([1, 1, 2]))]
            ep = rnd.choice(SPEC_EPS + OBJ_EPS)
        if ep in ("lookup1", "queryAdapter", "adapter_hook"):
            req = req[:1]
        if ep in OBJ_EPS:
            # objects that offer the required specifications (else any instance)
            args = []
            for s in req:
                ok = [x for x in insts if s in desc[x]]
                args.append(rnd.choice(ok or insts))
            if ep == "handle":
                prov = "-"
        else:
            # specification arguments: the requirement itself, or the declaration of something that offers it
            args = []
            for s in req:
                ok = [x for x in insts + classes if s in desc[x]]
                args.append(rnd.choice(ok) if ok and (s == "*" or rnd.random() < 0.5) else s if s != "*" else rnd.choice(provs))
        return "q %s %s %s %s %s" % (r, ep, prov, name, " ".join(args))

    def new_sq():
        op = rnd.choice(["get", "names", "providedBy", "implementedBy", "isOrExtends", "extends", "ifaces"])
        s = rnd.choice(ifaces + classes + insts + ["g1"])
        if op in ("get", "names", "providedBy", "implementedBy"):
            s = rnd.choice(ifaces + ["g1"])
        a = {"get": rnd.choice(["a_" + s, "m", "zz"]), "providedBy": rnd.choice(insts), "implementedBy": rnd.choice(classes),
             "isOrExtends": rnd.choice(provs), "extends": rnd.choice(provs)}.get(op, "")
        return "sq %s %s %s" % (op, s, a)

    def mutate():
        c = rnd.random()
        if c < 0.6 or not made:
            g = new_reg()
            made.append(g)
            return fmt("reg", g)
        if c < 0.9:
            g = rnd.choice(made)
            return fmt("unreg", g)
        r = rnd.choice(regs)
        cand = [x for x in ["r1", "G"] if x != r and (x != "r1" or ("r1" in regs and r == "r0"))]
        return "rebase %s %s" % (r, " ".join(x for x in cand if rnd.random() < 0.5))

    for _ in range(rnd.randint(1, 4)):
        g = new_reg()
        made.append(g)
        L.append(fmt("reg", g))
    for _ in range(rnd.randint(2, 9)):
        c = rnd.random()
        L.append(new_q() if c < 0.6 else new_sq() if c < 0.72 else mutate())
    if rnd.random() < 0.35:
        # late mutation: the caches filled so far are emptied again
        L.append(mutate())
        if rnd.random() < 0.4:
            L.append(new_q())
    if rnd.random() < 0.35:
        pool = ifaces + classes + insts + vals + regs * 2 + ["o"]
        L.append("keep " + " ".join(rnd.sample(pool, rnd.choice([1, 1, 2]))))
    L.append("drop")
    return L


def gen_lines(rnd, tier):
    n = 2400 if tier == "thorough" else 300
    base = rnd.randrange(10 ** 6) * 10000
    return [l for i in range(n) for l in gen_script(rnd, base + i)]


# ---------------------------------------------------------------------------
# oracle: reference-graph reading of one script

class Island:
    def __init__(self):
        self.nodes = []                # named objects of the island, creation order
        self.kind = {}
        self.edges = {}                # static strong references: name -> set(names)
        self.adapters = {}             # (r, table, req, prov, name) -> val
        self.subs = {}                 # (r, req, prov) -> [val]
        self.queried = {}              # r -> [(line index, set(spec nodes))]
        self.last_mut = -1
        self.ever = set()              # everything that was ever part of a registration
        self.kept = []
        self.flavour = "A"
        self.direct = {}               # instance -> its specification node (the class, or the shared Provides declaration)
        self.provides = {}             # Provides declaration node -> its cache key: `InstanceDeclarations` is a weak-VALUE cache whose
        #                                key (cls, *interfaces) is held strongly for as long as the declaration object lives

    def add(self, n, kind, refs=()):
        self.nodes.append(n)
        self.kind[n] = kind
        self.edges.setdefault(n, set()).update(r for r in refs if r not in ("-", "*"))
        if n != "o":
            self.edges["o"].add(n)     # the owner holds everything it creates

    def spec_nodes(self, a):
        """nodes referenced by the specification that argument `a` stands for"""
        if a in ("-", "*"):
            return set()
        if a[0] == "x":
            return {self.direct[a]}
        return {a}

    def step(self, idx, f):
        op = f[0]
        if op == "reset":
            self.flavour = f[2]
            self.edges = {"o": set(), "G": set(), "g0": set(), "g1": {"g0"}}
            self.kind = {"G": "reg", "g0": "iface", "g1": "iface"}
            self.add("o", "owner")
            b = int(f[3])
            if b in (1, 3, 4):
                self.add("r1", "reg", ["G"] if b == 4 else [])
            self.add("r0", "reg", BASES[b])
        elif op == "iface":
            self.add(f[1], "iface", f[3:] + (["o"] if f[2] == "own" else []))
        elif op == "class":
            self.add(f[1], "class", f[3:] + (["o"] if f[2] == "own" else []))
        elif op == "cprov":
            self.edges[f[1]].update(f[2:])
        elif op == "inst":
            sp = f[2]
            if f[4:]:
                sp = "P:%s:%s" % (f[2], ",".join(f[4:]))          # one declaration object per (class, interfaces)
                self.edges[sp] = set([f[2]] + f[4:])
                self.provides[sp] = [f[2]] + f[4:]
            self.add(f[1], "inst", [f[2], sp] + (["o"] if f[3] == "own" else []))
            self.direct[f[1]] = sp
        elif op == "val":
            self.add(f[1], "mval" if f[2] == "m" else "fval", ["o"] if f[2] == "m" else [f[3]])
        elif op in ("reg", "unreg"):
            self.last_mut = idx
            r, kind, name, prov, val, req = f[1], f[2], "" if f[3] == "-" else f[3], f[4], f[5], tuple(f[6:])
            if op == "reg":
                for a in req + (prov, val):
                    self.ever |= self.spec_nodes(a)
            if op == "reg" and prov != "-":
                # both twins keep an (emptied) `_extendors` entry under a provided interface after its last registration is gone
                self.edges[r].add(prov)
            if kind in "au":
                table = "u" if (kind == "u" and self.flavour == "C") else "a"
                key = (r, table, req, prov, name)
                if op == "reg":
                    self.adapters[key] = val
                else:
                    self.adapters.pop(key, None)
            else:
                key = (r, req, "-" if kind == "h" else prov)
                if op == "reg":
                    self.subs.setdefault(key, []).append(val)
                else:
                    self.subs[key] = [v for v in self.subs.get(key, []) if v != val]
        elif op == "rebase":
            self.last_mut = idx
            self.edges[f[1]] = (self.edges[f[1]] - {"r0", "r1", "G"}) | set(f[2:])
        elif op == "q":
            s = set()
            for a in [f[3]] + f[5:]:
                s |= self.spec_nodes(a)
            self.queried.setdefault(f[1], []).append((idx, s))
        elif op == "keep":
            self.kept += f[1:]

    def graph(self, which):
        """edges with the cache contents bounded from below (`sure`) or above (`possible`)"""
        g = {k: set(v) for k, v in self.edges.items()}
        for (r, _t, req, prov, _n), val in self.adapters.items():
            for a in req + (prov, val):
                g[r] |= self.spec_nodes(a)
        for (r, req, prov), vs in self.subs.items():
            if vs:
                for a in req + (prov,) + tuple(vs):
                    g[r] |= self.spec_nodes(a)
        for r, qs in self.queried.items():
            for idx, s in qs:
                if which == "possible" or idx > self.last_mut:
                    g[r] |= s
            if which == "possible" and self.flavour == "V":
                # a verifying registry is not told about changes of its bases: until it is asked again its caches may still hold
                # answers made of registrations that are gone
                g[r] |= self.ever
        return g

    @staticmethod
    def reach(g, roots):
        seen, todo = set(), list(roots)
        while todo:
            n = todo.pop()
            if n in seen or n not in g:
                continue
            seen.add(n)
            todo.extend(g[n])
        return seen

    def live(self, g, roots):
        """greatest fixpoint: a live Provides declaration pins its class and interfaces, which may be what keeps it alive"""
        pins = dict(self.provides)
        while True:
            r = self.reach(g, roots + [n for v in pins.values() for n in v])
            keep = {p: k for p, k in pins.items() if p in r}
            if len(keep) == len(pins):
                return r
            pins = keep

    def verdicts(self):
        roots = ["G", "g0", "g1"] + self.kept
        lo = self.live(self.graph("sure"), roots)
        hi = self.live(self.graph("possible"), roots)
        return {n: "alive" if n in lo else "dead" if n not in hi else "?" for n in self.nodes}


def _labels(answer):
    """names of the values that show up in a query answer (directly, as the product of a factory, or as a called handler)"""
    import re
    return set(re.findall(r"\bv\d+\b", answer)) | {"v" + n for n in re.findall(r"o\.h(\d+)", answer)}


def judge_script(lines, outs, chk=None):
    """returns a list of (line index, message) for the answers that contradict the reference-graph reading"""
    isl = Island()
    bad = []
    if any(o.startswith("!") or o == "bad" for o in outs):
        if chk:
            chk.count("life_scripts_with_an_exception")
        return bad
    fills = []                              # (line index, registry, cache, value names answered)
    for idx, l in enumerate(lines):
        f = l.split()
        isl.step(idx, f)
        if f[0] == "q":
            fills.append((idx, f[1], CACHE_OF[f[2]], _labels(outs[idx])))
        if f[0] != "drop":
            continue
        want = isl.verdicts()
        got = dict(t.split("=", 1) for t in outs[idx].split())
        for n in isl.nodes:
            w = want[n]
            if chk:
                chk.count("life_objects_expected_" + {"?": "unjudged"}.get(w, w))
            if w != "?" and got.get(n) != w:
                bad.append((idx, "object %s must be %s after the island is dropped and the collector has run (%s), the implementation says %s" % (
                    n, w, "nothing that the program kept refers to it" if w == "dead" else "kept by the program or strongly referenced from a kept / long-lived object",
                    got.get(n))))
        finals = [n for n in isl.nodes if isl.kind[n] in ("owner", "fval")]          # the objects that have a finalizer
        if all(want[n] != "?" for n in finals):
            exp = ",".join(sorted(n for n in finals if want[n] == "dead"))
            if got.get("fin") != exp:
                bad.append((idx, "finalizers that must have run after drop + collection: [%s], ran: [%s]" % (exp, got.get("fin"))))
        all_dead = all(w == "dead" for w in want.values())
        if all_dead and got.get("dep") != "0,0":
            bad.append((idx, "the whole island is garbage, the long-lived interfaces must have the dependents they had before it was built; "
                             "difference now: %s" % got.get("dep")))
        if chk:
            chk.count("life_scripts")
            chk.count("life_flavour_" + isl.flavour)
            chk.count("life_drop_everything" if not isl.kept else "life_drop_with_kept_objects")
            if all_dead:
                chk.count("life_whole_island_garbage")
            # the input class proper: a registry that is garbage at `drop` while one of its lookup caches still holds a value
            # that refers back to it (the cache entry is part of a reference cycle that only the collector can free)
            g = isl.graph("sure")
            for cache in ("cache", "mcache", "scache"):
                hit = False
                for qi, r, c, labs in fills:
                    if c == cache and qi > isl.last_mut and want.get(r) == "dead" and any(r in isl.reach(g, [v]) for v in labs):
                        hit = True
                if hit:
                    chk.count("life_garbage_cycle_through_filled_" + cache)
            if isl.flavour == "V" and want.get("r0") == "dead" and isl.edges["r0"] & {"r1"} and "r0" in isl.reach(g, ["r1"]):
                chk.count("life_garbage_cycle_through_verifying_ro")
            for n in isl.nodes:
                if want[n] == "dead" and isl.kind[n] in ("iface", "class", "inst"):
                    chk.count("life_garbage_" + isl.kind[n])
    return bad


def judge(lines, outs, chk=None):
    """oracle over a whole stream; returns [(script lines, message, observed answer)]"""
    res = []
    idxs = [i for i, l in enumerate(lines) if l.startswith("reset")] + [len(lines)]
    for s, e in zip(idxs, idxs[1:]):
        if e > len(outs):
            break
        for idx, msg in judge_script(lines[s:e], outs[s:e], chk):
            res.append((lines[s:e], msg, outs[s + idx]))
            break
    return res


def failures(lines, c_out, py_out, chk):
    """oracle verdicts on both traces in the form c10.check reports (the direct C-vs-Python comparison is done there)"""
    out = []
    if chk is not None:
        chk.notes.append("life stream: islands of API objects (registry flavours x base shapes, interfaces, classes, instances, values that refer back "
                         "into the island) are dropped after registrations / queries through every entry point / late mutations; the fate of every "
                         "object (weakref(), weak references, finalizers, dependents of long-lived interfaces) is compared C vs Python and judged "
                         "by a reference-graph oracle (harness/props/c10life.py)")
    for mode, outs in (("C accelerator", c_out), ("Python reference", py_out)):
        for script, msg, obs in judge(lines, outs, chk if outs is py_out else None)[:1]:
            out.append(dict(layer="life", script=script, message="life stream, %s: %s" % (mode, msg), observed=obs,
                            other="(expected by the reference-graph oracle)"))
    return out
