"""C02 — extends / isOrExtends equal reachability over current bases, after any rebasing.

Lean: ZI/Props/C02.lean (C02_fresh_thm, C02_implied, C02_extends over all well-formed histories).
Tie: graph-layer correspondence (interfaces + plain Declarations, shared dependents, rebasing at any node), both twins.
Oracle: reachability over the *current* bases, computed by the harness, for every (S, T) pair incl. declaration targets;
a freshly built graph of the same shape must answer identically (rebuild oracle, executed on the real code)."""
import re

from .. import core, runner
from . import worldcommon
from . import c03

THEOREMS = ["ZI.Graph2.C02_fresh_thm", "ZI.Graph2.C02_implied", "ZI.Graph2.C02_extends", "ZI.Graph2.C02_fresh",
            "ZI.Graph2.reach_inv", "ZI.Prop.prop_spec", "ZI.RO.fresh_after_rebase"]


def gen_script(rnd, tier):
    big = tier == "thorough"
    n = rnd.randint(3, 12 if big else 9)
    lines = ["reset :"]
    bases = {0: []}
    kind = {0: "I"}
    for i in range(1, n):
        pool = list(range(0, i))
        bs = rnd.sample(pool, min(len(pool), rnd.choice([0, 1, 1, 2, 2, 3])))
        kind[i] = "I" if (rnd.random() < 0.6 and all(kind[b] == "I" for b in bs)) else "D"
        bases[i] = bs
        if kind[i] == "I":
            lines.append("new %d I : %s" % (i, " ".join(map(str, bs))))
        else:
            lines.append("new %d D :" % i)
            if bs:
                lines.append("set %d : %s" % (i, " ".join(map(str, bs))))
    for j in range(1, n):
        lines.append("q %d :" % j)
    changed_indirect = 0
    for _ in range(rnd.randint(3, 30 if big else 12)):
        i = rnd.randrange(1, n)
        down = {j for j in range(1, n) if i in c03.reach(bases, j)}
        pool = [j for j in range(0, n) if j not in down and (kind[i] == "D" or kind[j] == "I")]
        bs = rnd.sample(pool, min(len(pool), rnd.choice([0, 1, 1, 2, 3])))
        before = {j: c03.reach(bases, j) for j in down}
        bases[i] = bs
        if any(c03.reach(bases, j) != before[j] for j in down if j != i):
            changed_indirect += 1
        # the SAME single question immediately before and immediately after the re-basing (nothing else asked of that
        # specification in between): one whose answer the re-basing flips, when there is one
        pairs = [(j, t) for j in sorted(down) for t in range(1, n) if t != j and kind[j] != "T" and
                 ((t in before[j]) != (t in c03.reach(bases, j)))]
        probe = rnd.choice(pairs) if pairs and rnd.random() < 0.7 else None
        if probe is None and rnd.random() < 0.3:
            j = rnd.randrange(1, n)
            probe = (j, rnd.choice([t for t in range(1, n)]))
        if probe:
            lines.append("q1 %d : %d" % probe)
        lines.append("set %d : %s" % (i, " ".join(map(str, bs))))
        if probe:
            lines.append("q1 %d : %d" % probe)
            if rnd.random() < 0.5:
                lines.append("q1 %d : %d" % probe)
        for j in range(1, n):
            lines.append("q %d :" % j)
    if rnd.random() < 0.35:
        if rnd.random() < 0.5:
            c03.twin_scenario(rnd, lines, bases, kind, n)
        else:
            c03.twin_merge_scenario(rnd, lines, bases, kind, n)
    # ... and a question about object lifetime (executor: sub-interfaces that die subscribed, newcomers, a re-basing; model: the
    # reachable graph still answers as a fresh one)
    lines.append("fresh :")
    return lines, changed_indirect


def rebuild_script(script):
    """a freshly built graph of the final shape of `script`: nodes created in an order where bases come first,
    then the same final queries"""
    bases = {0: []}
    kind = {0: "I"}
    for line in script:
        cmd, _, rest = line.partition(":")
        f = cmd.split()
        a = [int(x) for x in rest.split()]
        if f[0] == "new":
            bases[int(f[1])] = a
            kind[int(f[1])] = f[2]
        elif f[0] == "newtwin":
            bases[int(f[1])] = a
            kind[int(f[1])] = f[3]
        elif f[0] == "set":
            bases[int(f[1])] = a
    out = ["reset :"]
    done = {0}
    order = []

    def visit(x):
        if x in done:
            return
        done.add(x)
        for b in bases[x]:
            visit(b)
        order.append(x)
    for x in sorted(bases):
        visit(x)
    for x in order:
        if kind[x] == "I":
            out.append("new %d I : %s" % (x, " ".join(map(str, bases[x]))))
        else:
            out.append("new %d D :" % x)
            if bases[x]:
                out.append("set %d : %s" % (x, " ".join(map(str, bases[x]))))
    qs = ["q %d :" % x for x in sorted(bases) if x != 0]
    return out + qs, qs


def oracle(chk, lines, outs):
    bad = []
    bases = {0: []}
    for i, (line, out) in enumerate(zip(lines, outs)):
        cmd, _, rest = line.partition(":")
        f = cmd.split()
        a = [int(x) for x in rest.split()]
        if f[0] == "reset":
            bases = {0: []}
        elif f[0] in ("new", "newtwin"):
            if out != "ok":
                bad.append((i, "creation failed: " + out))
            bases[int(f[1])] = list(a)
        elif f[0] == "set":
            if out != "ok":
                bad.append((i, "__bases__ assignment failed: " + out))
            bases[int(f[1])] = list(a)
        elif f[0] == "fresh":
            chk.count("lifetime_churn_rounds")
            if out != "true":
                bad.append((i, "interfaces created after others died: " + out))
        elif f[0] == "q1":
            chk.count("single_questions")
            want = a[0] == 0 or a[0] in c03.reach(bases, int(f[1]))
            if want != (out == "true") or out not in ("true", "false"):
                bad.append((i, "node %d .isOrExtends(node %d) = %s, reachable over current bases: %s" % (int(f[1]), a[0], out, want)))
            elif lines[i - 1].startswith("set ") and i >= 2 and lines[i - 2] == line and outs[i - 2] != out:
                chk.count("single_questions_flipped_by_the_rebasing_between")
        elif f[0] in ("q", "qs"):
            c = int(f[1])
            d = c03.parse_q(out)
            if "imp" not in d:
                bad.append((i, "query failed: " + out))
                continue
            chk.count("nodes_checked")
            want = sorted((c03.reach(bases, c) | {0}) & set(bases))
            if "extends-mismatch" in d["imp"]:
                bad.append((i, "extends() disagrees with isOrExtends() minus the strict self case at node %d" % c))
                continue
            got = [int(x) for x in d["imp"].split()]
            if got != want:
                bad.append((i, "isOrExtends of node %d true for %s, reachable over current bases: %s" % (c, got, want)))
            if sorted(c03.ints(d["sro"])) != want:
                bad.append((i, "__sro__ of node %d has members %s, reachable: %s" % (c, sorted(c03.ints(d["sro"])), want)))
    return bad


def msg_kind(msg):
    return re.sub(r"[0-9\[\], ]+", "#", msg)


class _Null:
    def count(self, *a, **k):
        pass


def still_fails(script, mode, kind):
    try:
        out = core.run_impl("graph", script, mode)
    except core.ImplBroken:
        return False
    try:
        return any(msg_kind(m) == kind for _, m in oracle(_Null(), script, out))
    except Exception:
        return False


def check(tier):
    chk = core.Check("C02", tier)
    chk.obligations(THEOREMS)
    rnd = core.rng("C02")
    nscripts = {"quick": 250, "thorough": 5000}[tier]
    scripts = []
    nontrivial = set()
    for _ in range(nscripts):
        s, ci = gen_script(rnd, tier)
        scripts.append(s)
        if ci:
            nontrivial.add(hash("\n".join(s)))
        chk.count("rebasings_changing_an_indirect_dependent", ci)
    lines = [l for s in scripts for l in s]
    impl, model, divs = runner.correspond(chk, "graph", lines, model_args=["default"], label="graph/default")
    fails = []
    for m, outs in impl.items():
        if outs is None:
            continue
        for idx, msg in oracle(chk, lines, outs):
            s, e = runner.script_of(lines, idx)
            fails.append(dict(mode=m, script=lines[s:e], message=msg, observed=outs[idx]))
    # "answers exactly as a freshly built graph of the same shape would" -- executed on the real code
    reb_lines = []
    want = []
    for s in scripts[: max(40, nscripts // 3)]:
        rs, qs = rebuild_script(s)
        reb_lines += rs
    for m in ("c", "py"):
        if impl.get(m) is None:
            continue
        reb_out = core.run_impl("graph", reb_lines, m)
        k = 0
        pos = 0
        for s in scripts[: max(40, nscripts // 3)]:
            rs, qs = rebuild_script(s)
            fresh = {l: o for l, o in zip(rs, reb_out[pos:pos + len(rs)]) if l.startswith("q ")}
            pos += len(rs)
            # final answers of the history run
            base = sum(len(x) for x in scripts[:k])
            hist = {}
            for l, o in zip(s, impl[m][base:base + len(s)]):
                if l.startswith("q "):
                    hist[l] = o
            for l in qs:
                if l not in hist:
                    continue            # nodes of the twin scenarios are asked for their cached order only
                chk.count("fresh_graph_comparisons")
                hs, fs = c03.parse_q(hist.get(l, "")), c03.parse_q(fresh.get(l, ""))
                if (hs.get("sro"), hs.get("imp")) != (fs.get("sro"), fs.get("imp")):
                    fails.append(dict(mode=m, script=s, message="after the rebasing history node answers %r, a freshly built graph of the same shape answers %r (%s)" % (hist.get(l), fresh.get(l), l), observed=hist.get(l)))
            k += 1
    # class / instance / super-proxy specifications (declarations.py's own change propagation) under declaration histories
    wf = worldcommon.stale_stream("C02", ("SRO-STALE", "IMPLIED-STALE"), dict(quick=40, thorough=800), "cached resolution order / extension set")(chk, tier)
    worldcommon.report_world(chk, wf)
    fails += wf
    seen = set()
    for f in fails:
        if f.get("layer") == "world":
            continue
        k = msg_kind(f["message"])[:80]
        if k in seen:
            continue
        seen.add(k)
        if len(seen) > 3:
            break
        script = f["script"]
        if "freshly built" not in f["message"]:
            script = runner.ddmin(script, lambda s: still_fails(s, f["mode"], msg_kind(f["message"])), budget=25)
        chk.violation("%s [mode=%s]" % (f["message"], f["mode"]),
                      dict(kind="history", mode=f["mode"], script=script, observed=f["observed"], expected_by="spec", minimised=True))
    if not fails:
        runner.report_divergences(chk, divs, "graph-layer correspondence (ZI.Graph2 vs interface.py Specification.__setBases/changed); theorems " + ", ".join(THEOREMS[:3]),
                                  "reachability oracle accepted all %d node answers" % chk.counters.get("nodes_checked", 0))
        core.lean_failure_violation(chk)
    chk.samples.append(scripts[0][:16])
    return chk.finish(len(lines), len(nontrivial),
                      "random mixed interface/Declaration DAGs with shared dependents, rebasing at random nodes, all-pairs isOrExtends/extends/__sro__ "
                      "after every step, both twins; non-trivial = distinct scripts where a rebasing changed the ancestors of an indirect dependent")


def replay(path):
    rep = runner.load_replay(path)
    if rep.get("layer") == "world":
        return worldcommon.replay_world("C02", rep, path)
    script = rep["script"]
    mode = rep.get("mode", "c")
    out = core.run_impl("graph", script, mode)
    bad = oracle(_Null(), script, out)
    model = core.run_model("graph", script, ["default"])
    for l, o, m in zip(script, out, model):
        print("%-28s impl: %s%s" % (l, o, "" if o == m else "   MODEL: " + m))
    for i, msg in bad:
        print("ORACLE line %d: %s" % (i, msg))
    if bad or out != model:
        print("VIOLATION property=C02 replay=%s" % path)
        return 1
    print("replay passes on the current tree")
    return 0
