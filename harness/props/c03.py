"""C03 — resolution orders are valid linearizations and equal C3 whenever C3 exists.

Lean: ZI/Props/C03.lean (C03_valid, C03_eq_c3, C03_ro_eq_c3, C03_strict_iff, C03_consistent_iff,
C03_cached_valid, C03_cached_eq_c3 over all rebasing histories).
Tie: graph-layer correspondence (real interfaces/declarations vs model) in three environments
(default, ZOPE_INTERFACE_STRICT_IRO=1, ZOPE_INTERFACE_USE_LEGACY_IRO=1), both twins.
Oracle (independent of the model): validity of every __sro__, CPython's type.mro() of the mirrored class
hierarchy, and a textbook C3 on the literal base lists for ro.ro / strict / is_consistent."""
import re

from .. import core, runner

THEOREMS = [
    "ZI.RO.C03_valid_thm", "ZI.RO.C03_eq_c3", "ZI.RO.C03_ro_eq_c3", "ZI.RO.C03_strict_iff_thm",
    "ZI.RO.C03_consistent_iff_thm", "ZI.RO.C03_asis_violates", "ZI.Graph2.C03_cached_valid",
    "ZI.Graph2.C03_cached_eq_c3", "ZI.RO.legacy_valid", "ZI.RO.roFull_valid",
]


# ---------------------------------------------------------------------------
# independent oracles

def textbook_merge(seqs):
    """textbook C3 merge: pop the chosen head from the lists it heads"""
    seqs = [list(s) for s in seqs if s]
    res = []
    while seqs:
        for s in seqs:
            h = s[0]
            if not any(h in t[1:] for t in seqs):
                break
        else:
            return None
        res.append(h)
        seqs = [(s[1:] if s[0] == h else s) for s in seqs]
        seqs = [s for s in seqs if s]
    return res


def lin(bases, c, memo=None):
    memo = {} if memo is None else memo
    if c in memo:
        return memo[c]
    ls = []
    for b in bases.get(c, []):
        l = lin(bases, b, memo)
        if l is None:
            memo[c] = None
            return None
        ls.append(l)
    m = textbook_merge(ls + [list(bases.get(c, []))])
    memo[c] = None if m is None else [c] + m
    return memo[c]


def cpython_mirror_mro(bases, c):
    """MRO CPython gives the identically shaped class hierarchy (empty bases = object = root 0); None if refused"""
    cls = {0: object}
    order = []
    seen = set()

    def visit(x):
        if x in seen:
            return
        seen.add(x)
        for b in bases.get(x, []):
            visit(b)
        order.append(x)
    visit(c)
    for x in order:
        if x == 0:
            continue
        bs = tuple(cls[b] for b in bases.get(x, [])) or (object,)
        try:
            cls[x] = type("K%d" % x, bs, {})
        except TypeError:
            return None
    inv = {v: k for k, v in cls.items()}
    return [inv[k] for k in cls[c].__mro__]


def reach(bases, c):
    seen = set()
    st = [c]
    while st:
        x = st.pop()
        if x in seen:
            continue
        seen.add(x)
        st.extend(bases.get(x, []))
    return seen


def valid_sro(bases, c, sro):
    """the first clause of the property"""
    if not sro or sro[0] != c:
        return "does not start with itself"
    if len(set(sro)) != len(sro):
        return "lists an ancestor twice"
    if set(sro) != reach(bases, c) | {0}:
        return "members differ from ancestors+Interface"
    pos = {x: i for i, x in enumerate(sro)}
    for x in sro:
        for b in bases.get(x, []):
            if pos[x] >= pos[b]:
                return "specification %d not before its base %d" % (x, b)
    if sro[-1] != 0:
        return "does not end with Interface"
    return None


def rooted(bases, c):
    return all(bases.get(x) for x in reach(bases, c) if x != 0)


def nodup(bases, c):
    return all(len(set(bases.get(x, []))) == len(bases.get(x, [])) for x in reach(bases, c))


# ---------------------------------------------------------------------------
# generator (pure)

def twin_scenario(rnd, lines, bases, kind, n):
    # a re-loaded twin: a distinct interface with the same name and module replaces an interface in the bases of one of
    # its dependents, and is re-based afterwards (dependents are tracked per OBJECT, equal names notwithstanding).
    # The twin starts without bases and is never given a base of the original, so that the two equal-keyed objects are
    # never dependents of one common specification (that collision is the recorded finding equal-keyed-twin-dependents).
    # ... and the original must drop out of every ancestry the twin enters (equal-keyed interfaces in ONE resolution
    # order are one entry, by design): the original has exactly one dependent, which is re-based onto the twin
    cands = [(x, sdep) for x in range(1, n) if kind[x] == "I" for sdep in range(1, n) if x in bases[sdep]
             and sum(1 for d in range(1, n) if x in bases[d]) == 1]
    if cands:
        x, sdep = rnd.choice(cands)
        t = n
        lines.append("newtwin %d %d I :" % (t, x))
        kind[t] = "I"
        bases[t] = []
        bases[sdep] = [t if b == x else b for b in bases[sdep]]
        lines.append("set %d : %s" % (sdep, " ".join(map(str, bases[sdep]))))
        for j in list(range(1, n)) + [t]:
            lines.append("q %d :" % j)
        down = {j for j in bases if t in reach(bases, j)}
        pool = [j for j in range(1, n) if j not in down and kind[j] == "I" and j != x and j not in reach(bases, x) and x not in reach(bases, j)]
        pool = [j for j in pool if not (set(bases[x]) & {j})]
        if pool:
            bs = rnd.sample(pool, min(len(pool), rnd.choice([1, 1, 2])))
            bases[t] = bs
            lines.append("set %d : %s" % (t, " ".join(map(str, bs))))
            for j in list(range(1, n)) + [t]:
                lines.append("q %d :" % j)


def twin_merge_scenario(rnd, lines, bases, kind, n):
    """both generations of a re-loaded interface in ONE ancestry (reached through different bases): resolution orders work
    by identity, so both objects are listed.  All nodes are fresh and the twins never share a base (two equal-keyed
    dependents of one specification are one dictionary key: the recorded collision)."""
    ifaces = [j for j in range(1, n) if kind[j] == "I"]
    x, t, a, b, s = n, n + 1, n + 2, n + 3, n + 4
    bx = rnd.sample(ifaces, min(len(ifaces), rnd.choice([0, 1, 1])))
    anc_bx = set()
    for j in bx:
        anc_bx |= reach(bases, j)
    by = [j for j in ifaces if j not in anc_bx and not (reach(bases, j) & anc_bx - {0})]
    by = rnd.sample(by, min(len(by), rnd.choice([0, 0, 1])))
    shape = rnd.choice(["AB", "AX", "XA"])
    for i_, bs_ in ((x, bx), (t, []), (a, [x]), (b, [t])):
        bases[i_], kind[i_] = bs_, "I"
    lines.append("new %d I : %s" % (x, " ".join(map(str, bx))))
    lines.append("newtwin %d %d I :" % (t, x))
    if by:
        bases[t] = by
        lines.append("set %d : %s" % (t, " ".join(map(str, by))))
    lines.append("new %d I : %d" % (a, x))
    lines.append("new %d I : %d" % (b, t))
    sb = {"AB": [a, b], "AX": [a, t], "XA": [b, x]}[shape]
    bases[s], kind[s] = sb, "I"
    if cpython_mirror_mro(bases, s) is None:
        for i_ in (x, t, a, b, s):
            bases.pop(i_, None)
            kind.pop(i_, None)
        del lines[-(4 + bool(by)):]
        return
    lines.append("new %d I : %s" % (s, " ".join(map(str, sb))))
    for j in (x, t, a, b, s):
        lines.append("qs %d :" % j)
    # a dependent of S
    d = n + 5
    bases[d], kind[d] = [s], "I"
    lines.append("new %d I : %d" % (d, s))
    lines.append("qs %d :" % d)


def gen_script(rnd, tier, env):
    """one script = one DAG + a rebasing history, with queries after every step"""
    big = tier == "thorough"
    n = rnd.randint(3, 14 if big else 10)
    stream = rnd.choice(["consistent", "random", "nearmiss"])
    lines = ["reset :"]
    bases = {0: []}
    kind = {0: "I"}
    ops = 0

    def anc(j):
        return reach(bases, j) - {j}

    def ok_consistent(i, bs):
        b2 = dict(bases)
        b2[i] = bs
        return cpython_mirror_mro(b2, i) is not None

    for i in range(1, n):
        k = rnd.choice([0, 1, 1, 2, 2, 3, 4])
        pool = list(range(0 if stream != "consistent" or rnd.random() < 0.3 else 1, i)) or [0]
        bs = rnd.sample(pool, min(k, len(pool)))
        if env == "strict" or stream == "consistent" or (stream == "nearmiss" and i < n - 1):
            if not bs and (env == "strict" or rnd.random() < 0.8):
                bs = [0]
            tries = 0
            while not ok_consistent(i, bs) and tries < 8:
                bs = rnd.sample(pool, min(rnd.choice([1, 1, 2]), len(pool)))
                tries += 1
            if not ok_consistent(i, bs):
                bs = [0]
        if stream == "nearmiss" and i == n - 1:
            # I3(I0, I1) with I1(I0): an ancestor listed before its descendant, or a permuted base list
            cands = [(a, b) for b in range(1, i) for a in anc(b) if a != 0 or rnd.random() < 0.3]
            if cands:
                a, b = rnd.choice(cands)
                bs = [a, b] + ([rnd.choice(range(1, i))] if rnd.random() < 0.3 else [])
                bs = list(dict.fromkeys(bs))
        kind[i] = "I" if (rnd.random() < 0.75 and all(kind[b] == "I" for b in bs)) else "D"
        bases[i] = bs
        if kind[i] == "I":
            lines.append("new %d I : %s" % (i, " ".join(map(str, bs))))
        else:
            lines.append("new %d D :" % i)
            if bs:
                lines.append("set %d : %s" % (i, " ".join(map(str, bs))))
        if env == "strict" and cpython_mirror_mro(bases, i) is None:
            # creation is expected to raise; the node does not exist afterwards
            del bases[i]
            del kind[i]
            if lines[-1].startswith("set"):
                # a Declaration created empty then re-based: the re-base raises, node exists with no usable state
                lines.pop()
                lines.pop()
    live = sorted(bases)
    for j in live[1:]:
        lines.append("q %d :" % j)
    steps = rnd.randint(0, 8 if big else 5)
    for _ in range(steps):
        cand = [j for j in live if j != 0]
        if not cand:
            break
        i = rnd.choice(cand)
        down = {j for j in live if i in reach(bases, j)}
        pool = [j for j in live if j not in down and (kind[i] == "D" or kind[j] == "I")]
        bs = rnd.sample(pool, min(len(pool), rnd.choice([0, 1, 1, 2, 3])))
        if env == "strict":
            b2 = dict(bases)
            b2[i] = bs or []
            if not bs or any(cpython_mirror_mro(b2, j) is None for j in down) or not all(rooted(b2, j) for j in down):
                continue
        bases[i] = bs
        lines.append("set %d : %s" % (i, " ".join(map(str, bs))))
        ops += 1
        for j in sorted(down):
            lines.append("q %d :" % j)
        if rnd.random() < 0.4:
            for j in live[1:]:
                lines.append("q %d :" % j)
    if env == "default" and len(live) == n and rnd.random() < 0.3:
        if rnd.random() < 0.5:
            twin_scenario(rnd, lines, bases, kind, n)
        else:
            twin_merge_scenario(rnd, lines, bases, kind, n)
    return lines, stream


def parse_q(out):
    d = {}
    for part in out.split(" | "):
        k, _, v = part.partition(" ")
        d[k] = v
    return d


def ints(s):
    return [int(x) for x in s.split()] if s and s != "ERR" else []


def oracle(chk, lines, outs, env, mode):
    """evaluate the property on the implementation's answers; returns list of (index, message)"""
    bad = []
    bases = {0: []}
    kind = {0: "I"}
    tainted = False
    for i, (line, out) in enumerate(zip(lines, outs)):
        cmd, _, rest = line.partition(":")
        f = cmd.split()
        a = [int(x) for x in rest.split()]
        if f[0] == "reset":
            bases = {0: []}
            kind = {0: "I"}
            tainted = False
        elif tainted:
            continue            # an exception out of a re-basing left the hierarchy half-updated: nothing more to judge in this script
        elif f[0] == "newtwin":
            if out == "ok":
                bases[int(f[1])] = []
                kind[int(f[1])] = f[3]
        elif f[0] == "new":
            s = int(f[1])
            if out == "ok":
                bases[s] = list(a)
                kind[s] = f[2]
            b2 = dict(bases)
            b2[s] = list(a)
            if env == "strict" and f[2] == "I" and rooted(b2, s) and nodup(b2, s):
                expect_err = cpython_mirror_mro(b2, s) is None
                if expect_err != out.startswith("err Inconsistent"):
                    bad.append((i, "strict mode %s for a hierarchy where a C3 linearization %s" % (
                        "raised" if not expect_err else "did not raise", "exists" if not expect_err else "does not exist")))
            elif out != "ok" and env != "strict":
                bad.append((i, "creation failed: " + out))
        elif f[0] == "set":
            if out == "ok":
                bases[int(f[1])] = list(a)
            elif env == "strict" and out.startswith("err Inconsistent") and int(f[1]) in bases:
                b2 = dict(bases)
                b2[int(f[1])] = list(a)
                down = [j for j in b2 if int(f[1]) in reach(b2, j)]
                tainted = True
                if all(rooted(b2, j) and nodup(b2, j) and cpython_mirror_mro(b2, j) is not None for j in down):
                    bad.append((i, "strict mode raised InconsistentResolutionOrderError on re-basing %s although every specification of the resulting hierarchy "
                                   "has a C3 linearization (a dependent was recomputed against the not-yet-updated order of another dependent; the hierarchy is left half-updated)" % f[1]))
        elif f[0] in ("q", "qs"):
            c = int(f[1])
            if c not in bases:
                continue
            d = parse_q(out)
            if "sro" not in d:
                bad.append((i, "query failed: " + out))
                continue
            sro = ints(d["sro"])
            chk.count("nodes_checked")
            v = valid_sro(bases, c, sro)
            if v:
                bad.append((i, "__sro__ of %d invalid: %s (sro=%s)" % (c, v, sro)))
            if ints(d["iro"]) != [x for x in sro if kind.get(x) == "I"]:
                bad.append((i, "__iro__ is not __sro__ restricted to interfaces"))
            if env == "legacy":
                continue
            if f[0] == "qs":
                pm = cpython_mirror_mro(bases, c) if nodup(bases, c) else None
                if pm is not None and sro != pm:
                    bad.append((i, "__sro__ %s differs from the C3 linearization %s (CPython MRO of the mirrored hierarchy)" % (sro, pm)))
                continue
            if nodup(bases, c):
                pm = cpython_mirror_mro(bases, c)
                if pm is not None:
                    chk.count("c3_exists")
                    if sro != pm:
                        bad.append((i, "__sro__ %s differs from the C3 linearization %s (CPython MRO of the mirrored hierarchy)" % (sro, pm)))
                else:
                    chk.count("c3_missing")
                l = lin(bases, c)
                if rooted(bases, c) and (l is None) != (pm is None):
                    raise core.Infra("oracle self-check failed: textbook lin vs CPython mro disagree on a rooted hierarchy")
                ro_ = ints(d["ro"])
                strict = d["strict"]
                cons = d["cons"] == "true"
                if l is not None:
                    if ro_ != l:
                        bad.append((i, "ro.ro %s differs from C3 %s" % (ro_, l)))
                    if strict == "ERR":
                        bad.append((i, "strict mode raised although a C3 linearization exists: %s" % l))
                    elif ints(strict) != l:
                        bad.append((i, "strict ro %s differs from C3 %s" % (strict, l)))
                    if not cons:
                        bad.append((i, "is_consistent is False although a C3 linearization exists"))
                else:
                    chk.count("literal_inconsistent")
                    if strict != "ERR":
                        bad.append((i, "strict mode did not raise although no C3 linearization exists"))
                    if cons:
                        bad.append((i, "is_consistent is True although no C3 linearization exists"))
    return bad


def signature(msg):
    if "is_consistent is True although no C3" in msg:
        return "is_consistent-skips-leaf-merge"
    if "strict mode raised InconsistentResolutionOrderError on re-basing" in msg:
        return "strict-rebase-transient-inconsistency"
    return None


KNOWN_SIGS = ("strict-rebase-transient-inconsistency",)


ENVS = {
    "default": ({}, "default"),
    "strict": ({"ZOPE_INTERFACE_STRICT_IRO": "1"}, "strict"),
    "legacy": ({"ZOPE_INTERFACE_USE_LEGACY_IRO": "1"}, "legacy"),
}

CORPUS = [
    # the is_consistent witness: I3(I0, I1), I1(I0)
    ["reset :", "new 1 I : 0", "new 2 I : 1", "new 3 I : 1 2", "q 3 :"],
    ["reset :", "new 1 I :", "new 2 I : 1", "new 4 I : 1 2", "q 4 :", "set 2 :", "q 4 :"],
]


def run_batch(chk, scripts, env, modes=("c", "py")):
    lines = [l for s in scripts for l in s]
    envx, margs = ENVS[env]
    impl, model, divs = runner.correspond(chk, "graph", lines, modes, model_args=[margs], env_extra=envx, label="graph/" + env)
    fails = []
    for m in modes:
        if impl.get(m) is None:
            continue
        for idx, msg in oracle(chk, lines, impl[m], env, m):
            s, e = runner.script_of(lines, idx)
            fails.append(dict(mode=m, env=env, script=lines[s:e], message=msg, observed=impl[m][idx]))
            if signature(msg) in KNOWN_SIGS:
                # the model does not raise there: the rest of that script is not comparable
                end = next((k for k in range(idx + 1, len(lines)) if lines[k].startswith("reset")), len(lines))
                divs = [d for d in divs if not (d["mode"] == m and s <= d["index"] < end)]
    return lines, divs, fails


def msg_kind(msg):
    return re.sub(r"[0-9\[\], ]+", "#", msg)


def still_fails(script, env, mode, kind):
    """the shrunk script must fail the oracle in the same way (same message up to ids)"""
    try:
        out = core.run_impl("graph", script, mode, env_extra=ENVS[env][0])
    except core.ImplBroken:
        return False
    try:
        return any(msg_kind(m) == kind for _, m in oracle(_Null(), script, out, env, mode))
    except Exception:
        return False


class _Null:
    def count(self, *a, **k):
        pass


def check(tier):
    chk = core.Check("C03", tier)
    chk.obligations(THEOREMS)
    rnd = core.rng("C03")
    nscripts = {"quick": 1500, "thorough": 8000}[tier]
    total = 0
    nontrivial = set()
    streams = {}
    all_divs = []
    all_fails = []
    for env, share in (("default", 0.6), ("strict", 0.2), ("legacy", 0.2)):
        scripts = [list(s) for s in CORPUS] if env == "default" else []
        for _ in range(int(nscripts * share)):
            s, stream = gen_script(rnd, tier, env)
            scripts.append(s)
            streams[stream] = streams.get(stream, 0) + 1
        lines, divs, fails = run_batch(chk, scripts, env)
        total += len(lines)
        all_divs += divs
        all_fails += fails
        for s in scripts:
            key = "\n".join(s)
            if sum(1 for l in s if l.startswith("new") and len(l.partition(":")[2].split()) >= 2) >= 1:
                nontrivial.add(hash((env, key)))
        if len(chk.samples) < 4:
            chk.samples.append(dict(env=env, script=scripts[-1][:14]))
    # failing inputs first
    seen_sig = set()
    for f in all_fails:
        sig = signature(f["message"])
        keyf = (sig or f["message"][:60])
        if keyf in seen_sig:
            continue
        seen_sig.add(keyf)
        if len(seen_sig) > 3:
            break
        script = f["script"] if sig in KNOWN_SIGS else runner.ddmin(f["script"], lambda s: still_fails(s, f["env"], f["mode"], msg_kind(f["message"])), budget=25)
        chk.violation("%s [env=%s mode=%s]" % (f["message"], f["env"], f["mode"]),
                      dict(kind="input", mode=f["mode"], env=f["env"], script=script, observed=f["observed"],
                           expected_by="spec", minimised=True), sig=sig)
    if not [f for f in all_fails if signature(f["message"]) not in KNOWN_SIGS]:
        runner.report_divergences(chk, all_divs, "graph-layer correspondence (ZI.Graph2 / ZI.RO vs ro.py, interface.py); theorems " + ", ".join(THEOREMS[:5]),
                                  "oracle accepted all %d nodes checked" % chk.counters.get("nodes_checked", 0))
        core.lean_failure_violation(chk)
    chk.counters["streams"] = streams
    return chk.finish(total, len(nontrivial),
                      "random ordered DAGs (consistent-by-construction / random / near-miss streams) with rebasing histories, 3 environments x 2 twins; "
                      "non-trivial = distinct scripts containing a node with >=2 bases (diamond or potential inconsistency)")


def replay(path):
    rep = runner.load_replay(path)
    script = rep["script"]
    env = rep.get("env", "default")
    mode = rep.get("mode", "c")
    out = core.run_impl("graph", script, mode, env_extra=ENVS[env][0])
    bad = oracle(_Null(), script, out, env, mode)
    model = core.run_model("graph", script, [ENVS[env][1]])
    for l, o, m in zip(script, out, model):
        print("%-28s impl: %s%s" % (l, o, "" if o == m else "   MODEL: " + m))
    for i, msg in bad:
        print("ORACLE line %d: %s" % (i, msg))
    if bad or out != model:
        print("VIOLATION property=C03 replay=%s" % path)
        return 1
    print("replay passes on the current tree")
    return 0
