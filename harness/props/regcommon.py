"""Shared generator and flat-specification oracle for the adapter-registry layer (C04, C06, C07, C08, C09).

The oracle is an independent Python transcription of the *specification* (a flat set of live registrations and a flat
list of live subscriptions per registry, C3 orders from CPython's own MRO) -- it shares no code with the model in
lean/ZI/Registry.lean and never looks at nested containers, caches or extendors."""
import re

from .. import core, runner
from . import c03

NAMES = ["", "a", "b", "é", "e\u0301"]      # incl. two canonically equivalent but different spellings (NFC / NFD)


# ---------------------------------------------------------------------------
# flat specification state, rebuilt from the operation lines

class Flat:
    def __init__(self):
        self.bases = {0: []}          # spec graph
        self.kind = {0: "I"}
        self.regbases = {}
        self.regs = {}                # r -> {(req, p, name): (ident, eqc)}
        self.subs = {}                # r -> [(req, p, (ident, eqc))]  subscription order
        self.objs = {}
        self._sro = {}

    def sro(self, x):
        if x not in self._sro:
            m = c03.cpython_mirror_mro(self.bases, x)
            if m is None:
                raise core.Infra("generator produced an inconsistent spec hierarchy at %s" % x)
            self._sro[x] = m
        return self._sro[x]

    def ro(self, r):
        l = c03.lin(self.regbases, r)
        if l is None:
            raise core.Infra("generator produced an inconsistent registry hierarchy at %s" % r)
        return l

    @staticmethod
    def conv(req):
        return tuple(0 if t == "N" else int(t) for t in req.split())

    def apply(self, f):
        """apply a mutating operation line (already split on '|')"""
        op = f[0]
        if op == "iface":
            self.bases[int(f[1])] = [int(x) for x in f[2].split()] or [0]
            self.kind[int(f[1])] = "I"
        elif op == "decl":
            self.bases[int(f[1])] = [int(x) for x in f[2].split()]
            self.kind[int(f[1])] = "D"
        elif op == "obj":
            self.objs[int(f[1])] = int(f[2])
        elif op in ("newreg", "rbases"):
            r = int(f[1])
            self.regbases[r] = [int(x) for x in f[2].split()]
            self.regs.setdefault(r, {})
            self.subs.setdefault(r, [])
        elif op == "clone":
            r, r2 = int(f[1]), int(f[2])
            self.regbases[r2] = list(self.regbases[r])
            self.regs[r2] = dict(self.regs[r])
            self.subs[r2] = list(self.subs[r])
        elif op == "reg":
            r = int(f[1])
            key = (self.conv(f[2]), int(f[3]), f[4])
            if f[5].strip() == "N":
                self.regs[r].pop(key, None)
            else:
                i, e = [int(x) for x in f[5].split()]
                self.regs[r][key] = (i, e)
        elif op == "unreg":
            r = int(f[1])
            key = (self.conv(f[2]), int(f[3]), f[4])
            cur = self.regs[r].get(key)
            if cur is not None:
                if f[5].strip() == "N" or int(f[5].split()[0]) == cur[0]:
                    del self.regs[r][key]
        elif op == "sub":
            r = int(f[1])
            i, e = [int(x) for x in f[4].split()]
            self.subs[r].append((self.conv(f[2]), None if f[3] == "N" else int(f[3]), (i, e)))
        elif op == "unsub":
            r = int(f[1])
            key = (self.conv(f[2]), None if f[3] == "N" else int(f[3]))
            if f[4].strip() == "N":
                self.subs[r] = [s for s in self.subs[r] if (s[0], s[1]) != key]
            else:
                e = int(f[4].split()[1])
                self.subs[r] = [s for s in self.subs[r] if (s[0], s[1]) != key or s[2][1] != e]

    # ---- queries of the specification
    def candidates(self, r, specs, p, name):
        """[(rank, provided, ident)] of the applicable registrations"""
        out = []
        for k, b in enumerate(self.ro(r)):
            for (req, prov, nm), v in self.regs.get(b, {}).items():
                if nm != name or len(req) != len(specs):
                    continue
                if p not in self.sro(prov):
                    continue
                rank = [k]
                ok = True
                for q, s in zip(req, specs):
                    sr = self.sro(s)
                    if q not in sr:
                        ok = False
                        break
                    rank.append(sr.index(q))
                if ok:
                    out.append((tuple(rank), prov, v[0]))
        return out

    def acceptable(self, r, specs, p, name):
        """set of idents the statement allows lookup to return (None = default)"""
        c = self.candidates(r, specs, p, name)
        if not c:
            return {None}, 0, False
        best = min(x[0] for x in c)
        top = [x for x in c if x[0] == best]
        acc = set()
        for x in top:
            if not any(y[1] != x[1] and y[1] in self.sro(x[1]) for y in top):
                acc.add(x[2])
        later = len({x[0] for x in c}) >= 2
        return acc, len(c), later

    def names(self, r, specs, p):
        res = set()
        for b in self.ro(r):
            for (req, prov, nm), v in self.regs.get(b, {}).items():
                if len(req) == len(specs) and p in self.sro(prov) and all(q in self.sro(s) for q, s in zip(req, specs)):
                    res.add(nm)
        return res

    def subscriptions(self, r, specs, p):
        """[(sortkey, fullkey, ident)] of applicable live subscriptions in subscription order per registry"""
        out = []
        ro = self.ro(r)
        for k, b in enumerate(ro):
            for n, (req, prov, v) in enumerate(self.subs.get(b, [])):
                if len(req) != len(specs):
                    continue
                if (p is None) != (prov is None):
                    continue
                if p is not None and p not in self.sro(prov):
                    continue
                pos = []
                ok = True
                for q, s in zip(req, specs):
                    sr = self.sro(s)
                    if q not in sr:
                        ok = False
                        break
                    pos.append(-sr.index(q))
                if ok:
                    out.append(((-k,) + tuple(pos), (b, req, prov), n, v[0]))
        return out


def check_subs_answer(flat, r, specs, p, got):
    """None if `got` (list of idents in order) satisfies C07 for the current flat state, else a message.

    Valid answers: entries sorted by (registry: bases first; required positions: less specific first, left to right);
    entries with an identical key in subscription order; the relative order of *different* provided interfaces under the
    same registry and required key is left open by the statement."""
    import itertools
    exp = flat.subscriptions(r, specs, p)
    if sorted(x[3] for x in exp) != sorted(got):
        return "subscriptions returned %s, applicable live subscribers (multiset): %s" % (got, sorted(x[3] for x in exp))
    groups = {}
    for x in exp:
        groups.setdefault(x[0], {}).setdefault(x[1], []).append(x)
    pos = 0
    for sk in sorted(groups):
        keys = groups[sk]
        size = sum(len(v) for v in keys.values())
        seg = got[pos:pos + size]
        pos += size
        lists = [[x[3] for x in sorted(v, key=lambda x: x[2])] for v in keys.values()]
        if sorted(seg) != sorted(i for l in lists for i in l):
            return ("subscribers %s are out of order: entries of base registries must precede derived ones and less specific required "
                    "specifications more specific ones (expected the group %s here)" % (got, sorted(i for l in lists for i in l)))
        if len(lists) > 6:
            continue
        if not any([i for l in perm for i in l] == seg for perm in itertools.permutations(lists)):
            return "subscribers %s under an identical key are not in subscription order (per-key lists: %s)" % (seg, lists)
    return None


# ---------------------------------------------------------------------------
# oracle over a batch of lines + implementation outputs

def oracle(chk, lines, outs, focus=None):
    bad = []
    flat = Flat()
    last = {}            # (kind-neutral key) -> last impl answer, for entry-point agreement
    for i, (line, out) in enumerate(zip(lines, outs)):
        f = line.split("|")
        op = f[0]
        if op == "reset":
            flat = Flat()
            last = {}
            continue
        if op in ("iface", "decl", "obj", "newreg", "rbases", "reg", "unreg", "sub", "unsub", "clone", "rebuild", "relookup"):
            if out != "ok":
                bad.append((i, "%s failed: %s" % (op, out)))
            flat.apply(f)
            last = {}
            continue
        if out.startswith("err ") and not (len(f) > 4 and f[4].startswith("#")):
            bad.append((i, "%s raised %s" % (op, out)))
            continue
        if "other:" in out:
            bad.append((i, "%s returned an object that is not a registered value / an adapter built by a registered factory: %s" % (op, out[:120])))
            continue
        if op in ("lookup", "lookup1", "qadapter") and f[4].startswith("#"):
            chk.count("nonstring_names")
            if out != "err ValueError":
                bad.append((i, "non-string name accepted by %s: %s" % (op, out)))
            continue
        r = int(f[1])
        if op in ("lookup", "lookup1"):
            specs = [int(x) for x in f[2].split()]
            p = int(f[3])
            acc, ncand, later = flat.acceptable(r, specs, p, f[4])
            chk.count("lookups")
            if ncand:
                chk.count("lookup_hits")
            if ncand >= 2:
                chk.count("lookups_multi_candidate")
            if later:
                chk.count("lookups_candidates_of_different_rank")
            got = None if out == "N" else int(out)
            if got not in acc:
                bad.append((i, "%s returned %s, the most specific applicable registration is %s (%d applicable)" % (op, out, sorted(acc, key=str), ncand)))
            last[("lookup", r, f[2], f[3], f[4])] = out
            if op == "lookup1":
                prev = last.get(("lookupL", r, f[2], f[3], f[4]))
                if prev is not None and prev != out:
                    bad.append((i, "lookup1 %s differs from lookup %s for the same key" % (out, prev)))
            else:
                last[("lookupL", r, f[2], f[3], f[4])] = out
        elif op in ("lookupAll", "names"):
            specs = [int(x) for x in f[2].split()]
            p = int(f[3])
            want = flat.names(r, specs, p)
            chk.count("lookupAlls")
            if op == "names":
                got = set(out.split(" ")) if out != "" else set()
                if out == "" and "" in want and len(want) == 1:
                    got = {""}
                gotnames = got
            else:
                pairs = [x.rsplit("=", 1) for x in out.split(" ")] if out else []
                gotnames = {a for a, b in pairs}
                for a, b in pairs:
                    acc, _, _ = flat.acceptable(r, specs, p, a)
                    if int(b) not in acc:
                        bad.append((i, "lookupAll maps name %r to %s, lookup's most specific registration is %s" % (a, b, sorted(acc, key=str))))
            if op == "names" and "" in want:
                # the empty name cannot be told apart in the space-joined rendering; compare the others
                gotnames = (gotnames - {""}) | {""}
            if gotnames != want:
                bad.append((i, "%s has names %s, applicable names are %s" % (op, sorted(gotnames), sorted(want))))
        elif op == "subs":
            specs = [int(x) for x in f[2].split()]
            p = None if f[3] == "N" else int(f[3])
            got = [int(x) for x in out.split()]
            chk.count("subscription_queries")
            if len(got) >= 3:
                chk.count("subscription_results_ge3")
            msg = check_subs_answer(flat, r, specs, p, got)
            if msg:
                bad.append((i, msg))
            last[("subs", r, f[2], f[3])] = got
        elif op == "qadapter":
            obs = [int(x) for x in f[2].split()]
            specs = [flat.objs[o] for o in obs]
            acc, ncand, _ = flat.acceptable(r, specs, int(f[3]), f[4])
            chk.count("object_adaptations")
            oks = set()
            for v in acc:
                oks.add("default" if (v is None or v % 4 == 0) else "res %d %s" % (v, f[2]))
            if out not in oks:
                bad.append((i, "%s(objects %s) gave %r, expected one of %s" % ({"q": "queryAdapter", "h": "adapter_hook", "m": "queryMultiAdapter"}[f[5]], f[2], out, sorted(oks))))
        elif op == "subscribers":
            obs = [int(x) for x in f[2].split()]
            specs = " ".join(str(flat.objs[o]) for o in obs)
            prev = last.get(("subs", r, specs, f[3]))
            got = [int(x) for x in out.split()]
            chk.count("subscribers_calls")
            if prev is not None:
                want = [] if f[3] == "N" else [v for v in prev if v % 4 != 0]
                if got != want:
                    bad.append((i, "subscribers gave %s, calling subscriptions() %s in order and dropping None gives %s" % (got, prev, want)))
        elif op == "registered":
            key = (flat.conv(f[2]), int(f[3]), f[4])
            cur = flat.regs[r].get(key)
            chk.count("registered_queries")
            if (out == "N") != (cur is None) or (cur is not None and out != str(cur[0])):
                bad.append((i, "registered%s returned %s, the live registration is %s" % (key, out, cur)))
        elif op == "subscribed":
            key = (flat.conv(f[2]), None if f[3] == "N" else int(f[3]))
            vi, ve = [int(x) for x in f[4].split()]
            live = [s for s in flat.subs[r] if (s[0], s[1]) == key and (s[2][0] == vi or s[2][1] == ve)]
            chk.count("subscribed_queries")
            if (out == "N") != (not live):
                bad.append((i, "subscribed%s(%s) returned %s, live equal subscribers: %s" % (key, f[4], out, [s[2][0] for s in live])))
        elif op == "allreg":
            want = sorted("[%s/%s/%s=%d]" % (" ".join(map(str, k[0])), k[1], k[2], v[0]) for k, v in flat.regs[r].items())
            chk.count("enumerations")
            if sorted(re.findall(r"\[[^\]]*\]", out)) != want:
                bad.append((i, "allRegistrations() = %s, live registrations: %s" % (out, " ".join(want))))
        elif op == "allsub":
            want = sorted("[%s/%s=%d]" % (" ".join(map(str, s[0])), "N" if s[1] is None else s[1], s[2][0]) for s in flat.subs[r])
            chk.count("enumerations")
            if sorted(re.findall(r"\[[^\]]*\]", out)) != want:
                bad.append((i, "allSubscriptions() = %s, live subscriptions: %s" % (out, " ".join(want))))
        elif op == "ro":
            want = " ".join(map(str, flat.ro(r)))
            chk.count("ro_queries")
            if out != want:
                bad.append((i, "registry %d consults %s, C3 order of its current base chain is %s" % (r, out, want)))
    return bad


# ---------------------------------------------------------------------------
# generator

class Gen:
    def __init__(self, rnd, tier, profile):
        self.rnd = rnd
        self.tier = tier
        self.p = profile
        self.vid = 0

    def script(self, verifying):
        rnd = self.rnd
        P = self.p
        big = self.tier == "thorough"
        L = ["reset|%d" % verifying]
        flat = Flat()
        n = rnd.randint(4, 8 if big else 7)
        for i in range(1, n + 1):
            for _ in range(10):
                bs = rnd.sample(range(1, i), min(i - 1, rnd.choice([0, 1, 1, 2, 2, 3])))
                b2 = dict(flat.bases)
                b2[i] = bs or [0]
                if c03.cpython_mirror_mro(b2, i) is not None:
                    break
            else:
                bs = []
            line = "iface|%d|%s" % (i, " ".join(map(str, bs)))
            L.append(line)
            flat.apply(line.split("|"))
        nd = rnd.randint(0, 2) if P.get("decls", True) else 0
        specs_all = list(range(1, n + 1))
        for d in range(n + 1, n + 1 + nd):
            for _ in range(10):
                bs = rnd.sample(range(1, n + 1), rnd.randint(1, 3))
                b2 = dict(flat.bases)
                b2[d] = bs
                if c03.cpython_mirror_mro(b2, d) is not None:
                    break
            else:
                bs = [1]
            line = "decl|%d|%s" % (d, " ".join(map(str, bs)))
            L.append(line)
            flat.apply(line.split("|"))
            specs_all.append(d)
        ifaces = list(range(1, n + 1))
        nobj = rnd.randint(1, 4) if P.get("objects") else 0
        for o in range(1, nobj + 1):
            line = "obj|%d|%d" % (o, rnd.choice(specs_all))
            L.append(line)
            flat.apply(line.split("|"))
        nr = rnd.randint(*P.get("nregs", (1, 4)))
        # layered registry DAG with a diamond below a re-basable apex (tops, apex(top), 2-3 sides(apex[, top]), bottom(sides),
        # sometimes a registry below the bottom): a descendant reached through two paths must be refreshed after BOTH
        layered = None
        if rnd.random() < P.get("layered", 0):
            ntop = rnd.randint(1, 2)
            nside = rnd.randint(2, 3)
            layered = [[] for _ in range(ntop)]
            apex = ntop
            layered.append([rnd.randrange(ntop)])
            sides = list(range(apex + 1, apex + 1 + nside))
            for _ in sides:
                layered.append([apex] + ([rnd.randrange(ntop)] if rnd.random() < 0.25 else []))
            layered.append(sides[:] if rnd.random() < 0.7 else rnd.sample(sides, 2))
            if rnd.random() < 0.5:
                layered.append([len(layered) - 1])
            nr = len(layered)
        for r in range(nr):
            for _ in range(10):
                bs = rnd.sample(range(r), min(r, rnd.choice(P.get("regbases", [0, 1, 1, 2]))))
                if layered is not None:
                    bs = layered[r]
                rb = dict(flat.regbases)
                rb[r] = bs
                if c03.lin(rb, r) is not None:
                    break
            else:
                bs = []
            line = "newreg|%d|%s" % (r, " ".join(map(str, bs)))
            L.append(line)
            flat.apply(line.split("|"))

        def anc(x):
            return c03.reach(flat.bases, x) - {x}

        def desc(x):
            return {j for j in specs_all if x in c03.reach(flat.bases, j) and j != x}

        def ranc(r):
            return c03.reach(flat.regbases, r) - {r}

        def rdown(r):
            return {j for j in range(nr) if r in c03.reach(flat.regbases, j)}

        pool = []

        def val():
            if pool and rnd.random() < 0.3:
                return rnd.choice(pool)
            self.vid += 1
            v = (self.vid, rnd.randint(1, 3))
            pool.append(v)
            return v

        def sreq(req):
            return " ".join("N" if x is None else str(x) for x in req)

        def relative(x):
            if x is None:
                return rnd.choice([None] + specs_all)
            x0 = x
            c = list((anc(x0) - {0}) | desc(x0)) + [x0, None]
            return rnd.choice(c)

        live = []        # (req tuple with None, p) of registrations / subscriptions made so far

        def affected(req, p):
            specs = [rnd.choice(list(desc(x)) + [x]) if x is not None else rnd.choice(specs_all) for x in req]
            return specs, rnd.choice(list(anc(p) - {0}) + [p, p])

        def emit_queries(q, specs, p, name, pp):
            ss = " ".join(map(str, specs))
            kinds = P["queries"]
            if "lookup" in kinds:
                L.append("lookup|%d|%s|%d|%s" % (q, ss, p, name))
            if "lookup1" in kinds and len(specs) == 1:
                L.append("lookup1|%d|%s|%d|%s" % (q, ss, p, name))
            if "lookupAll" in kinds:
                L.append("lookupAll|%d|%s|%d" % (q, ss, p))
            if "names" in kinds and rnd.random() < 0.5:
                L.append("names|%d|%s|%d" % (q, ss, p))
            if "subs" in kinds:
                L.append("subs|%d|%s|%s" % (q, ss, "N" if pp is None else pp))

        def entry_points(q):
            """C08: every entry point in random order, cold and warm, objects and specs"""
            objs = list(flat.objs)
            if not objs:
                return
            ar = rnd.choice([1, 1, 1, 2, 0])
            os_ = [rnd.choice(objs) for _ in range(ar)]
            specs = [flat.objs[o] for o in os_]
            p = rnd.choice(ifaces)
            if live and rnd.random() < 0.7:
                lk = rnd.choice(live)
                # objects whose spec is affected by a live key, when there are any
                cand = []
                for x in lk[0]:
                    ok = [o for o in objs if x is None or x in c03.reach(flat.bases, flat.objs[o])]
                    cand.append(ok)
                if all(cand):
                    os_ = [rnd.choice(c) for c in cand]
                    specs = [flat.objs[o] for o in os_]
                    p = rnd.choice(list(anc(lk[1]) - {0}) + [lk[1], lk[1]])
            name = rnd.choice(NAMES)
            if rnd.random() < 0.08:
                name = rnd.choice(["#%d" % rnd.randint(0, 9), "#N", "#F", "#b", "#t", "#f", "#B", "#o", "#T", "#fs"])
            ss = " ".join(map(str, specs))
            oss = " ".join(map(str, os_))
            calls = ["lookup|%d|%s|%d|%s" % (q, ss, p, name)]
            if len(specs) == 1:
                calls.append("lookup1|%d|%s|%d|%s" % (q, ss, p, name))
                calls.append("qadapter|%d|%s|%d|%s|q" % (q, oss, p, name))
                calls.append("qadapter|%d|%s|%d|%s|h" % (q, oss, p, name))
            calls.append("qadapter|%d|%s|%d|%s|m" % (q, oss, p, name))
            if not name.startswith("#"):
                calls.append("lookupAll|%d|%s|%d" % (q, ss, p))
                calls.append("names|%d|%s|%d" % (q, ss, p))
            rnd.shuffle(calls)
            # lookup must precede lookup1 once for the agreement check; repeat some calls warm
            L.extend(calls)
            L.extend(rnd.sample(calls, min(len(calls), 2)))
            if name == "" and rnd.random() < 0.35:
                # the caches for the unnamed registration are warm now (positive or negative entry): a FALSY non-string name selects
                # the same cache slot and must still be rejected on every single-object path (and a truthy one as well)
                bad = rnd.choice(["#N", "#0", "#F", "#b", "#t", "#f", "#fs", "#B", "#o"])
                again = ["lookup|%d|%s|%d|%s" % (q, ss, p, bad)]
                if len(specs) == 1:
                    again += ["lookup1|%d|%s|%d|%s" % (q, ss, p, bad), "qadapter|%d|%s|%d|%s|q" % (q, oss, p, bad),
                              "qadapter|%d|%s|%d|%s|h" % (q, oss, p, bad)]
                again.append("qadapter|%d|%s|%d|%s|m" % (q, oss, p, bad))
                rnd.shuffle(again)
                L.extend(again)
            pp = "N" if rnd.random() < 0.2 else str(p)
            L.append("subs|%d|%s|%s" % (q, ss, pp))
            L.append("subscribers|%d|%s|%s" % (q, oss, pp))

        if rnd.random() < P.get("replace_then_subscribe", 0.3):
            # the ONLY registration that mentions a provided interface is replaced by another value (the interface stays
            # mentioned exactly once); then subscribers for that interface arrive: each is listed once
            r0 = rnd.randrange(nr)
            ar0 = rnd.choice([0, 1, 1, 2])
            req0 = [rnd.choice([None] + specs_all) for _ in range(ar0)]
            p0 = rnd.choice(ifaces)
            nm0 = rnd.choice(NAMES)
            for _ in range(rnd.randint(2, 3)):
                v = val()
                line = "reg|%d|%s|%d|%s|%d %d" % (r0, sreq(req0), p0, nm0, v[0], v[1])
                L.append(line)
                flat.apply(line.split("|"))
            live.append((tuple(req0), p0))
            s0, pq = affected(req0, p0)
            for _ in range(rnd.randint(1, 2)):
                v = val()
                rq = req0 if rnd.random() < 0.6 else [rnd.choice([None] + specs_all) for _ in range(rnd.choice([0, 1, 2]))]
                line = "sub|%d|%s|%d|%d %d" % (r0, sreq(rq), p0, v[0], v[1])
                L.append(line)
                flat.apply(line.split("|"))
                live.append((tuple(rq), p0))
                s1, pq1 = affected(rq, p0)
                for q in sorted(rdown(r0)):
                    emit_queries(q, s1, pq1, nm0, pq1)
            emit_queries(r0, s0, pq, nm0, pq)
        if rnd.random() < P.get("deep_rebase", 0.3):
            # a chain leaf -> low -> mid -> top -> root_old; `top` is re-based onto root_new: EVERY registry below it, however deep,
            # consults the new chain from then on (its own resolution order contains the re-based registry's)
            ro_, rn_, top_, mid_, low_, leaf_ = range(nr + 20, nr + 26)
            for rid, bs_ in ((ro_, []), (rn_, []), (top_, [ro_]), (mid_, [top_]), (low_, [mid_]), (leaf_, [low_])):
                line = "newreg|%d|%s" % (rid, " ".join(map(str, bs_)))
                L.append(line)
                flat.apply(line.split("|"))
            req0 = [rnd.choice([None] + specs_all) for _ in range(rnd.choice([0, 1, 1, 2]))]
            p0 = rnd.choice(ifaces)
            nm0 = rnd.choice(NAMES)
            for rid in (ro_, rn_):
                v = val()
                line = "reg|%d|%s|%d|%s|%d %d" % (rid, sreq(req0), p0, nm0, v[0], v[1])
                L.append(line)
                flat.apply(line.split("|"))
                v = val()
                line = "sub|%d|%s|%d|%d %d" % (rid, sreq(req0), p0, v[0], v[1])
                L.append(line)
                flat.apply(line.split("|"))
            s0, pq = affected(req0, p0)
            for q in (leaf_, low_, mid_):
                emit_queries(q, s0, pq, nm0, pq)
            line = "rbases|%d|%d" % (top_, rn_)
            L.append(line)
            flat.apply(line.split("|"))
            for q in (leaf_, low_, mid_, top_):
                emit_queries(q, s0, pq, nm0, pq)
                if "ro" in P["queries"]:
                    L.append("ro|%d" % q)
        if rnd.random() < P.get("equal_pair", 0.3):
            # two (three) EQUAL but distinct subscribers under one key, an unequal one between them; then `unsubscribe` is given one
            # of those very objects: every entry equal to it goes, the unequal one stays
            r0 = rnd.randrange(nr)
            req0 = [rnd.choice([None] + specs_all) for _ in range(rnd.choice([0, 1, 1, 2]))]
            p0 = rnd.choice(ifaces)
            pp0 = "N" if rnd.random() < 0.25 else str(p0)
            e0, e1 = rnd.sample([1, 2, 3], 2)
            ids0 = []
            for e_ in [e0, e1, e0] + ([e0] if rnd.random() < 0.4 else []):
                self.vid += 1
                ids0.append((self.vid, e_))
                line = "sub|%d|%s|%s|%d %d" % (r0, sreq(req0), pp0, self.vid, e_)
                L.append(line)
                flat.apply(line.split("|"))
            live.append((tuple(req0), p0))
            s0, pq = affected(req0, p0)
            for q in sorted(rdown(r0)):
                emit_queries(q, s0, pq, "", None if pp0 == "N" else pq)
            v0 = rnd.choice([v for v in ids0 if v[1] == e0])
            line = "unsub|%d|%s|%s|%d %d" % (r0, sreq(req0), pp0, v0[0], v0[1])
            L.append(line)
            flat.apply(line.split("|"))
            for q in sorted(rdown(r0)):
                emit_queries(q, s0, pq, "", None if pp0 == "N" else pq)
            if "book" in P["queries"]:
                L.append("allsub|%d" % r0)
        if rnd.random() < P.get("arity_hole", 0.3):
            # registrations at several arities in one registry; then the LAST registration (or subscription) of a lower
            # arity goes away: those of the higher arities stay where they are
            r0 = rnd.randrange(nr)
            ars = sorted(rnd.sample([0, 1, 2, 3], rnd.randint(2, 3)))
            made = []
            for a in ars:
                req0 = [rnd.choice([None] + specs_all) for _ in range(a)]
                p0 = rnd.choice(ifaces)
                nm0 = rnd.choice(NAMES)
                v = val()
                sub = rnd.random() < 0.3
                line = ("sub|%d|%s|%d|%d %d" % (r0, sreq(req0), p0, v[0], v[1])) if sub else \
                    ("reg|%d|%s|%d|%s|%d %d" % (r0, sreq(req0), p0, nm0, v[0], v[1]))
                L.append(line)
                flat.apply(line.split("|"))
                live.append((tuple(req0), p0))
                made.append((req0, p0, nm0, sub))

            def ask_made():
                for req0, p0, nm0, sub in made:
                    s0, pq = affected(req0, p0)
                    emit_queries(rnd.choice(sorted(rdown(r0))), s0, pq, nm0, pq)
                    if "book" in P["queries"]:
                        L.append("registered|%d|%s|%d|%s" % (r0, sreq(req0), p0, nm0))
                if "book" in P["queries"]:
                    L.append("allreg|%d" % r0)
                    L.append("allsub|%d" % r0)
            ask_made()
            for req0, p0, nm0, sub in rnd.sample(made[:-1], rnd.randint(1, len(made) - 1)):
                if sub:
                    line = "unsub|%d|%s|%d|N" % (r0, sreq(req0), p0)
                elif rnd.random() < 0.5:
                    line = "unreg|%d|%s|%d|%s|N" % (r0, sreq(req0), p0, nm0)
                else:
                    line = "reg|%d|%s|%d|%s|N" % (r0, sreq(req0), p0, nm0)
                L.append(line)
                flat.apply(line.split("|"))
                ask_made()
        if P.get("families", True) and rnd.random() < 0.4:
            # one required key and name, several PROVIDED interfaces of one family registered in a random order (the
            # extendors list of every common ancestor must come out 'more general first' whatever the order), then
            # removals in another order
            tops = [t for t in ifaces if len(desc(t) & set(ifaces)) >= 2]
            if tops:
                t = rnd.choice(tops)
                fam = sorted((desc(t) & set(ifaces)) | {t})
                members = rnd.sample(fam, min(len(fam), rnd.randint(3, 5)))
                r0 = rnd.randrange(nr)
                ar0 = rnd.choice([0, 1, 1, 2])
                req0 = [rnd.choice([None] + specs_all) for _ in range(ar0)]
                name0 = rnd.choice(NAMES)
                qspecs = [rnd.choice(list(desc(x)) + [x]) if x is not None else rnd.choice(specs_all) for x in req0]
                targets = sorted({a for m_ in members for a in (anc(m_) | {m_})})
                subs_too = rnd.random() < 0.5

                def ask_family():
                    for a in targets:
                        emit_queries(rnd.choice(sorted(rdown(r0))), qspecs, a, name0, a)
                for m_ in members:
                    v = val()
                    line = "reg|%d|%s|%d|%s|%d %d" % (r0, sreq(req0), m_, name0, v[0], v[1])
                    L.append(line)
                    flat.apply(line.split("|"))
                    live.append((tuple(req0), m_))
                    if subs_too:
                        v = val()
                        line = "sub|%d|%s|%d|%d %d" % (r0, sreq(req0), m_, v[0], v[1])
                        L.append(line)
                        flat.apply(line.split("|"))
                    if rnd.random() < 0.5:
                        ask_family()
                ask_family()
                for m_ in rnd.sample(members, rnd.randint(1, len(members))):
                    line = "unreg|%d|%s|%d|%s|N" % (r0, sreq(req0), m_, name0)
                    L.append(line)
                    flat.apply(line.split("|"))
                    ask_family()
        # TWO ARITIES, ONE PROVIDED by construction (seeded change o09a: `unregister` zeroing the cross-arity `_provided` count when the
        # table of the arity just touched is trimmed away — a live lower-arity registration for the same provided interface lost its
        # extendor entry; the random keys keep the arity of the live key they derive from): register under arity 1 and arity 3 for one
        # provided interface, remove the arity-3 one (the trailing tables go), ask for the survivor through every query and the listing
        ra_ = rnd.randrange(nr)
        pa_ = rnd.choice(ifaces)
        lo_, hi_ = [rnd.choice(specs_all)], [rnd.choice(specs_all) for _ in range(3)]
        na_, nb_ = rnd.choice(NAMES), rnd.choice(NAMES)
        va_, vb_ = val(), val()
        for line in ("reg|%d|%s|%d|%s|%d %d" % (ra_, sreq(lo_), pa_, na_, va_[0], va_[1]),
                     "reg|%d|%s|%d|%s|%d %d" % (ra_, sreq(hi_), pa_, nb_, vb_[0], vb_[1])):
            L.append(line)
            flat.apply(line.split("|"))
        live.append((tuple(lo_), pa_))
        emit_queries(rnd.choice(sorted(rdown(ra_))), lo_, pa_, na_, pa_)
        line = "unreg|%d|%s|%d|%s|N" % (ra_, sreq(hi_), pa_, nb_)
        L.append(line)
        flat.apply(line.split("|"))
        for q_ in sorted(rdown(ra_)):
            emit_queries(q_, lo_, pa_, na_, pa_)
        L.append("registered|%d|%s|%d|%s" % (ra_, sreq(lo_), pa_, na_))
        L.append("allreg|%d" % ra_)
        W = P["weights"]        # reg unreg sub unsub rbases rebuild clone
        kinds = ["reg", "unreg", "sub", "unsub", "rbases", "rebuild", "clone"]
        nsteps = rnd.randint(*(P.get("steps_big", (10, 60)) if big else P.get("steps", (5, 30))))
        nclones = 0
        for step in range(nsteps):
            k = rnd.choices(kinds, weights=W)[0]
            r = rnd.randrange(nr)
            ar = rnd.choice(P.get("arity", [0, 1, 1, 1, 2, 2, 3]))
            req = [rnd.choice([None] + specs_all) for _ in range(ar)]
            p = rnd.choice(ifaces)
            name = rnd.choice(NAMES)
            removal = k in ("unreg", "unsub")
            if live and rnd.random() < (0.8 if removal else 0.6):
                req, p = rnd.choice(live)
                req = list(req)
                if removal and rnd.random() < 0.8:
                    pass
                elif rnd.random() < 0.35:
                    # same required key and name, another PROVIDED interface of the same family (ancestor, descendant or
                    # sibling under a common ancestor): the order in which a family is registered must not matter
                    fam = set(anc(p) - {0}) | (desc(p) & set(ifaces))
                    for a in list(anc(p) - {0}):
                        fam |= desc(a) & set(ifaces)
                    p = rnd.choice(sorted(fam) + [p])
                elif req:
                    j = rnd.randrange(len(req))
                    req[j] = relative(req[j])
                elif rnd.random() < 0.5:
                    p = rnd.choice(list(anc(p) - {0}) + list(desc(p) & set(ifaces)) + [p])
            hotq = rnd.choice(sorted(rdown(r)))
            hspecs, hp = affected(req, p)
            hot = (hotq, hspecs, hp, name, hp if rnd.random() < 0.85 else None)
            emit_queries(*hot)
            line = None
            if k == "reg":
                v = val()
                if rnd.random() < 0.06:
                    line = "reg|%d|%s|%d|%s|N" % (r, sreq(req), p, name)
                else:
                    # sometimes re-register the very same object, or an equal-but-distinct one
                    cur = flat.regs[r].get((tuple(0 if x is None else x for x in req), p, name))
                    if cur is not None and rnd.random() < 0.4:
                        v = cur if rnd.random() < 0.5 else (val()[0], cur[1])
                        if v[0] != cur[0]:
                            self.vid += 1
                            v = (self.vid, cur[1])
                    line = "reg|%d|%s|%d|%s|%d %d" % (r, sreq(req), p, name, v[0], v[1])
                    live.append((tuple(req), p))
            elif k == "unreg":
                cur = flat.regs[r].get((tuple(0 if x is None else x for x in req), p, name))
                c = rnd.random()
                if c < 0.45 or cur is None:
                    vs = "N" if rnd.random() < 0.6 else "%d %d" % val()
                elif c < 0.75:
                    vs = "%d %d" % cur                    # that very object
                else:
                    vs = "0 %d" % cur[1]                  # equal but distinct: must not remove
                line = "unreg|%d|%s|%d|%s|%s" % (r, sreq(req), p, name, vs)
            elif k == "sub":
                v = val()
                pp = p if rnd.random() < 0.8 else None
                line = "sub|%d|%s|%s|%d %d" % (r, sreq(req), "N" if pp is None else pp, v[0], v[1])
                live.append((tuple(req), p))
                hot = hot[:4] + (pp,)
            elif k == "unsub":
                pp = p if rnd.random() < 0.8 else None
                vs = "N" if rnd.random() < 0.4 else "0 %d" % rnd.randint(1, 3)
                if pool and rnd.random() < 0.35:
                    vs = "%d %d" % rnd.choice(pool)          # one of the very objects subscribed: every EQUAL entry under the key goes
                line = "unsub|%d|%s|%s|%s" % (r, sreq(req), "N" if pp is None else pp, vs)
                hot = hot[:4] + (pp,)
            elif k == "rbases":
                down = rdown(r)
                cand = [j for j in range(nr) if j not in down]
                cur = list(flat.regbases[r])
                for _ in range(8):
                    bs = rnd.sample(cand, min(len(cand), rnd.choice([0, 1, 1, 2, 2, 3])))
                    c = rnd.random()
                    if len(cur) >= 2 and c < 0.3:
                        bs = cur[:]                     # the same bases in another order
                        while bs == cur:
                            rnd.shuffle(bs)
                    elif cur and c < 0.4:
                        extra = [j for j in cand if j not in cur]
                        bs = cur + ([rnd.choice(extra)] if extra else [])
                    elif len(cur) >= 2 and c < 0.5:
                        bs = cur[:]
                        bs.pop(rnd.randrange(len(bs)))
                    rb = dict(flat.regbases)
                    rb[r] = bs
                    if all(c03.lin(rb, j) is not None for j in down):
                        break
                else:
                    bs = []
                    rb = dict(flat.regbases)
                    rb[r] = bs
                    if not all(c03.lin(rb, j) is not None for j in down):
                        continue            # dropping base links can destroy C3 consistency of a descendant too
                line = "rbases|%d|%s" % (r, " ".join(map(str, bs)))
            elif k == "rebuild":
                line = ("relookup|%d" if rnd.random() < 0.45 else "rebuild|%d") % r
            elif k == "clone":
                if nclones >= 2:
                    continue
                nclones += 1
                r2 = nr + nclones + 10
                line = "clone|%d|%d" % (r, r2)
                L.append(line)
                flat.apply(line.split("|"))
                # the clone must answer like the original
                for _ in range(4):
                    if live:
                        lk = rnd.choice(live)
                        s2, p2 = affected(list(lk[0]), lk[1])
                    else:
                        s2, p2 = [rnd.choice(specs_all)], rnd.choice(ifaces)
                    nm = rnd.choice(NAMES)
                    emit_queries(r, s2, p2, nm, p2)
                    emit_queries(r2, s2, p2, nm, p2)
                L.append("allreg|%d" % r2)
                L.append("allsub|%d" % r2)
                continue
            L.append(line)
            flat.apply(line.split("|"))
            emit_queries(*hot)
            if k == "rbases" and rnd.random() < 0.7:
                # a registry BELOW the re-based one answers once (whatever it keeps about its ancestors is refreshed now),
                # then a registry that the re-basing made reachable gets a registration / a subscription: it must be seen
                below = sorted(rdown(r) - {r}) or [r]
                q2 = rnd.choice(below)
                newly = sorted(set().union(*[c03.reach(flat.regbases, b) for b in bs]) if bs else set())
                if newly:
                    t2 = rnd.choice(newly)
                    ar2 = rnd.choice([0, 1, 1, 2])
                    req2 = [rnd.choice([None] + specs_all) for _ in range(ar2)]
                    p2 = rnd.choice(ifaces)
                    nm2 = rnd.choice(NAMES)
                    s2, pq2 = affected(req2, p2)
                    emit_queries(q2, s2, pq2, nm2, pq2)
                    v = val()
                    if rnd.random() < 0.7:
                        line2 = "reg|%d|%s|%d|%s|%d %d" % (t2, sreq(req2), p2, nm2, v[0], v[1])
                    else:
                        line2 = "sub|%d|%s|%d|%d %d" % (t2, sreq(req2), p2, v[0], v[1])
                    L.append(line2)
                    flat.apply(line2.split("|"))
                    live.append((tuple(req2), p2))
                    emit_queries(q2, s2, pq2, nm2, pq2)
            if k == "rbases" and "ro" in P["queries"]:
                # every registry below the re-based one consults the new chain (each is reached by the cascade, some twice)
                for j in sorted(rdown(r)):
                    L.append("ro|%d" % j)
            if "book" in P["queries"]:
                rq = req
                L.append("registered|%d|%s|%d|%s" % (r, sreq(rq), p, name))
                if rnd.random() < 0.5:
                    L.append("allreg|%d" % r)
                    L.append("allsub|%d" % r)
                sv = rnd.choice(pool) if pool else (0, 1)          # (never an identity of its own: identities belong to the values the history creates)
                if rnd.random() < 0.5:
                    sv = (0, sv[1])
                L.append("subscribed|%d|%s|%s|%d %d" % (r, sreq(rq), "N" if rnd.random() < 0.15 else p, sv[0], sv[1]))
            for _ in range(P.get("extra_queries", 3)):
                q = rnd.randrange(nr)
                ar = rnd.choice([0, 1, 1, 2])
                specs = [rnd.choice(specs_all) for _ in range(ar)]
                pq = rnd.choice(ifaces)
                nm = rnd.choice(NAMES)
                if live and rnd.random() < 0.6:
                    lk = rnd.choice(live)
                    specs, pq = affected(list(lk[0]), lk[1])
                emit_queries(q, specs, pq, nm, pq if rnd.random() < 0.8 else None)
            if P.get("objects"):
                for _ in range(P.get("entry_rounds", 1)):
                    entry_points(rnd.randrange(nr))
            if "ro" in P["queries"]:
                L.append("ro|%d" % rnd.randrange(nr))
        return L


def msg_kind(msg):
    return re.sub(r"[0-9\[\]\(\)', ]+", "#", msg)[:70]


class Null:
    def count(self, *a, **k):
        pass


def still_fails(script, mode, kind):
    try:
        out = core.run_impl("registry", script, mode)
    except core.ImplBroken:
        return False
    try:
        return any(msg_kind(m) == kind for _, m in oracle(Null(), script, out))
    except Exception:      # an ill-formed shrink candidate (e.g. the registry creation line was removed)
        return False


# minimised past failures, executed first on every run (both flavours where the script says so)
CORPUS = {
    "C06": [
        # verifying flavour: an ancestor is re-based, then the registry itself is mutated (its own change re-snapshots the
        # generations) -- `ro` must still follow the current chain (second fix: commit 462a8cb)
        ["reset|1", "iface|1|", "newreg|0|", "newreg|1|", "newreg|2|1 0", "newreg|3|2", "reg|1||1||7 1", "lookup|3||1|", "ro|3",
         "rbases|2|0", "sub|3||1|5 1", "ro|3", "lookup|3||1|", "lookupAll|3||1", "subs|3||1"],
        # both flavours: plain stale chain after an ancestor was re-based (first fix: dbf66b8)
        ["reset|0", "iface|1|", "newreg|0|", "newreg|1|", "newreg|2|0", "newreg|3|2", "reg|1||1||7 1", "lookup|3||1|", "rbases|2|1",
         "ro|3", "lookup|3||1|"],
        ["reset|1", "iface|1|", "newreg|0|", "newreg|1|", "newreg|2|0", "newreg|3|2", "reg|1||1||7 1", "lookup|3||1|", "rbases|2|1",
         "ro|3", "lookup|3||1|"],
    ],
}


def run_property(prop, tier, theorems, profile, nscripts, nontrivial_rule, nontrivial_counter, theorem_hint, stated_not_proved=(),
                 extra_stream=None, reentry_eps=None, reentry_scenarios=None):
    chk = core.Check(prop, tier)
    chk.obligations(theorems, stated_not_proved)
    rnd = core.rng(prop)
    gen = Gen(rnd, tier, profile)
    scripts = [list(c) for c in CORPUS.get(prop, [])] + [gen.script(i % 2) for i in range(nscripts[tier])]
    lines = [l for s in scripts for l in s]
    impl, model, divs = runner.correspond(chk, "registry", lines, label="registry")
    fails = []
    for m, outs in impl.items():
        if outs is None:
            continue
        before = dict(chk.counters)
        for idx, msg in oracle(chk if m == "c" else Null(), lines, outs):
            s, e = runner.script_of(lines, idx)
            fails.append(dict(mode=m, script=lines[s:e], message=msg, observed=outs[idx], index=idx))
    if reentry_eps:
        from . import worldcommon
        rf = worldcommon.reentry_stage(chk, reentry_eps, *([reentry_scenarios] if reentry_scenarios else []))
        worldcommon.report_reentry(chk, rf)
        fails += rf
    if extra_stream is not None:
        for f in extra_stream(chk, tier):
            chk.violation("%s [mode=%s]" % (f["message"], f["mode"]),
                          dict(kind="history", mode=f["mode"], script=f["script"], observed=f["observed"], expected_by="spec", minimised=False,
                               layer="world", executor_args=["twin"]))
            fails.append(f)
            break
    seen = set()
    for f in fails:
        if f.get("layer") in ("world", "reentry"):
            continue
        k = msg_kind(f["message"])
        if k in seen:
            continue
        seen.add(k)
        if len(seen) > 3:
            break
        script = runner.ddmin(f["script"], lambda s: still_fails(s, f["mode"], k), budget=30)
        chk.violation("%s [mode=%s]" % (f["message"], f["mode"]),
                      dict(kind="history", mode=f["mode"], script=script, observed=f["observed"], expected_by="spec", minimised=True))
    if not fails:
        runner.report_divergences(chk, divs, theorem_hint, "flat-specification oracle accepted every answer of this run")
        core.lean_failure_violation(chk)
    ops = {}
    for l in lines:
        k = l.split("|", 1)[0]
        ops[k] = ops.get(k, 0) + 1
    chk.counters["op_histogram"] = ops
    # sanity of the generator: the biased streams must actually reach the interesting cases
    nt = chk.counters.get(nontrivial_counter, 0)
    if nt == 0 and not fails and not divs:
        chk.notes.append("generator sanity: counter %s is zero" % nontrivial_counter)
        raise core.Infra("generator produced no non-trivial case (%s == 0)" % nontrivial_counter)
    chk.samples.append(scripts[len(CORPUS.get(prop, []))][:25])
    distinct = len({hash("\n".join(s)) for s in scripts})
    return chk.finish(len(lines), min(nt, max(2, nt)) if nt else distinct, nontrivial_rule)


def replay(prop, path):
    rep = runner.load_replay(path)
    script = rep["script"]
    mode = rep.get("mode", "c")
    if rep.get("layer") == "reentry":
        from . import worldcommon
        return worldcommon.replay_reentry(prop, rep, path)
    if rep.get("layer") == "world":
        out = core.run_impl("world", script, mode, ["twin"])
        for l, o in zip(script, out):
            print("%-44s impl: %s" % (l, o))
        if any("TWIN-DIFF" in o for o in out):
            print("VIOLATION property=%s replay=%s" % (prop, path))
            return 1
        print("replay passes on the current tree")
        return 0
    out = core.run_impl("registry", script, mode)
    bad = oracle(Null(), script, out)
    model = core.run_model("registry", script)
    for l, o, m in zip(script, out, model):
        print("%-44s impl: %s%s" % (l, o, "" if o == m else "   MODEL: " + m))
    for i, msg in bad:
        print("ORACLE line %d: %s" % (i, msg))
    if bad or out != model:
        print("VIOLATION property=%s replay=%s" % (prop, path))
        return 1
    print("replay passes on the current tree")
    return 0
