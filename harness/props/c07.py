"""C07 — subscriptions() returns every applicable subscriber, with multiplicity, in order."""
from . import regcommon, worldcommon

THEOREMS = ["ZI.Registry.subsRec_eq_concat", "ZI.Registry.C07_multiset", "ZI.Registry.C07_order_first_position", "ZI.Lv.find_update", "ZI.Lv.find_remove",
            # over histories / in every world (ZI/Props/C07Hist.lean)
            "ZI.Registry.C07_chain", "ZI.Registry.C07_regSubs_flat", "ZI.Registry.C07_flat", "ZI.Registry.C07_count", "ZI.Registry.C07_appKeys_spec",
            "ZI.Registry.C07_mem_some", "ZI.Registry.C07_mem_none", "ZI.Registry.C07_multiplicity", "ZI.Registry.C07_order_chain", "ZI.Registry.C07_order_required",
            "ZI.Registry.C07_sreqs_order", "ZI.Registry.C07_leaf_history", "ZI.Registry.C07_subscribe_history", "ZI.Registry.C07_unsubscribe_history",
            "ZI.Registry.C07_unsubscribe_result", "ZI.Registry.C07_hist_flat", "ZI.Registry.C07_hist_mem_some", "ZI.Registry.C07_hist_mem_none",
            "ZI.Registry.C07_hist_count", "ZI.Registry.C07_hist_multiplicity", "ZI.Registry.C07_hist_order_chain", "ZI.Registry.C05_registry_transparent_subscriptions"]
PROFILE = dict(weights=[0.5, 0.2, 7, 2.5, 0.6, 0.1, 0], queries=["lookupAll", "subs", "book"], nregs=(1, 5), regbases=[0, 1, 1, 1, 1, 2], extra_queries=4, arity=[0, 1, 1, 1, 2, 2, 3])
# "every reachable state" includes states reached by declaration and hierarchy changes on the required specifications
WORLD_PROFILE = dict(weights=[0.5, 0.2, 5, 1.5, 2.5, 2.5, 2, 1.0, 0.2], nregs=(1, 5), extra=1, provq=0, arity=[1, 2, 2, 3], scen_rebuild=0.08)


def check(tier):
    return regcommon.run_property(
        "C07", tier, THEOREMS, PROFILE, dict(quick=160, thorough=3000),
        "subscribe/unsubscribe histories with duplicates, equal-but-distinct values, handlers (provided None), arity 0-3, registry chains; "
        "distinct_nontrivial = subscriptions() results with >=3 entries, each checked as a multiset and for the three ordering clauses",
        "subscription_results_ge3",
        "registry-layer correspondence (ZI.Registry.subscribe/unsubscribe/subscriptions vs adapter.py)",
        reentry_eps=["subscriptions"],
        extra_stream=worldcommon.twin_stream("C07", WORLD_PROFILE, dict(quick=30, thorough=600), ("subs", "subscribers")))


def replay(path):
    return regcommon.replay("C07", path)
