"""Executor for the method-description layer (C18).  A line describes a function; the executor builds it (code objects
are compiled once per distinct parameter list and shared between functions that differ only in their defaults),
describes it with fromFunction / fromMethod / an interface definition / an ABC-style wrapper, and prints: the real code
object's fields, zope.interface's description, and what inspect.signature says about the same callable.

Default VALUES.  The statement quantifies over every function, hence over every kind of object a default can be.  A line
may name, per positional default, one value kind of `VALUE_KINDS` (otherwise the default is an opaque object whose repr
is its id): falsy and ordinary atoms, strings made of the characters the rendering itself uses (`%`, `{}`, `, `, `=`,
`*`, quotes), containers, tuples of every length and tuple subclasses, and objects whose `repr` is the only thing that
may be asked of them.  `repr(value)` of every default is handed to the model next to the value's id (the model's
`reprOf`), so the model renders the very same values."""
import collections
import inspect
import types

_CODE = {}


class _Repr:
    """an object that renders as `text` and as nothing else: str() / format() give other answers"""
    def __init__(self, text):
        self.text = text

    def __repr__(self):
        return self.text

    def __str__(self):
        return "STR-NOT-REPR"

    def __format__(self, spec):
        return "FORMAT-NOT-REPR"


class _ReprOnly(_Repr):
    """... and one that refuses every other question (truth, equality, hash, length, iteration, str, format)"""
    def _no(self, *a, **k):
        raise RuntimeError("a default value is only ever rendered with repr()")
    __bool__ = __len__ = __iter__ = __eq__ = __ne__ = __hash__ = __str__ = __format__ = __getitem__ = _no


class _StrSub(str):
    def __repr__(self):
        return "StrSub<%s>" % str.__str__(self)


class _IntSub(int):
    def __repr__(self):
        return "IntSub<%d>" % int(self)


class _TupleSub(tuple):
    pass


class _TupleSubRepr(tuple):
    def __repr__(self):
        return "TupleSub<%s>" % ", ".join(map(repr, self))


class _ListSub(list):
    def __repr__(self):
        return "ListSub%s" % list.__repr__(self)


class _DictSub(dict):
    pass


_Point = collections.namedtuple("Point", "x y")
_One = collections.namedtuple("One", "only")
_Nil = collections.namedtuple("Nil", "")

# name -> (class of value, factory); the generator (props/c18.py) draws the names
VALUE_KINDS = collections.OrderedDict([
    # falsy atoms and ordinary atoms
    ("none", ("atom", lambda: None)), ("zero", ("atom", lambda: 0)), ("false", ("atom", lambda: False)),
    ("true", ("atom", lambda: True)), ("int", ("atom", lambda: 42)), ("neg", ("atom", lambda: -7)),
    ("big", ("atom", lambda: 10 ** 30)), ("float", ("atom", lambda: 1.5)), ("nan", ("atom", lambda: float("nan"))),
    ("cplx", ("atom", lambda: 2j)), ("dots", ("atom", lambda: Ellipsis)), ("bytes", ("atom", lambda: b"z%s")),
    ("cls", ("atom", lambda: int)), ("builtin", ("atom", lambda: len)), ("range", ("atom", lambda: range(3))),
    # strings: empty, and made of the characters the rendering itself uses
    ("s_empty", ("string", lambda: "")), ("s_plain", ("string", lambda: "x")), ("s_pct_s", ("string", lambda: "%s")),
    ("s_pct_r", ("string", lambda: "%r=%(a)s %d")), ("s_pct", ("string", lambda: "100%")), ("s_brace", ("string", lambda: "{} {0} {x!r}")),
    ("s_sep", ("string", lambda: "x, y=2, *z")), ("s_quote", ("string", lambda: "it's")), ("s_dquote", ("string", lambda: 'say "hi" it\'s')),
    ("s_bslash", ("string", lambda: "a\\b\nc\t")), ("s_paren", ("string", lambda: "(1,)")), ("s_uni", ("string", lambda: "caf\u00e9 \u4e2d")),
    # containers
    ("l_empty", ("container", lambda: [])), ("l_one", ("container", lambda: [1])), ("l_two", ("container", lambda: [1, "b"])),
    ("d_empty", ("container", lambda: {})), ("d_one", ("container", lambda: {"a": 1})), ("d_name", ("container", lambda: {"q0": 1, "p0": 2})),
    ("set_empty", ("container", lambda: set())), ("fset", ("container", lambda: frozenset([3]))), ("l_sub", ("container", lambda: _ListSub([1, 2]))),
    ("d_sub", ("container", lambda: _DictSub(a=1))), ("l_tuple", ("container", lambda: [(1,), ()])),
    # tuples of every length, nested, and tuple subclasses
    ("t_empty", ("tuple", lambda: ())), ("t_one", ("tuple", lambda: (1,))), ("t_one_s", ("tuple", lambda: ("x",))),
    ("t_one_pct", ("tuple", lambda: ("%s %r",))), ("t_one_none", ("tuple", lambda: (None,))), ("t_one_t", ("tuple", lambda: ((),))),
    ("t_two", ("tuple", lambda: (640, 480))), ("t_three", ("tuple", lambda: (1, "b", None))), ("t_nested", ("tuple", lambda: ((0, 0), (1, 1)))),
    ("t_long", ("tuple", lambda: tuple(range(12)))), ("t_list", ("tuple", lambda: ([], {}))),
    ("nt_two", ("tuple", lambda: _Point(0, 0))), ("nt_one", ("tuple", lambda: _One(1))), ("nt_nil", ("tuple", lambda: _Nil())),
    ("t_sub_empty", ("tuple", lambda: _TupleSub())), ("t_sub_one", ("tuple", lambda: _TupleSub([5]))), ("t_sub_two", ("tuple", lambda: _TupleSub([5, 6]))),
    ("t_sub_repr", ("tuple", lambda: _TupleSubRepr([1]))),
    # objects with a repr of their own
    ("r_word", ("custom", lambda: _Repr("Marker"))), ("r_empty", ("custom", lambda: _Repr(""))), ("r_pct", ("custom", lambda: _Repr("%s%r%(a)s%"))),
    ("r_brace", ("custom", lambda: _Repr("{}{0}{v}"))), ("r_sep", ("custom", lambda: _Repr("a, b=2, *c, **d"))), ("r_paren", ("custom", lambda: _Repr("(1,)"))),
    ("r_only", ("custom", lambda: _ReprOnly("<only repr>"))), ("r_str", ("custom", lambda: _StrSub("s"))), ("r_int", ("custom", lambda: _IntSub(3))),
])


def build(posonly, pos, va, kwonly, kw, nlocals, with_self, selfname="self"):
    """-> code object for def f(<self,> p0.., /, q0.., *args, k0.., **kws): x0 = 1 .."""
    key = (posonly, pos, va, kwonly, kw, nlocals, with_self, selfname)
    if key not in _CODE:
        # (the names are NOT in alphabetical order: the declared order is what every rendering must follow)
        ps = ([selfname] if with_self else []) + ["p%d" % (posonly - 1 - i) for i in range(posonly)]
        if posonly or (with_self and False):
            ps.append("/")
        ps += ["%sq%d" % ("zyxwvutsrponm"[i % 13], i) for i in range(pos)]
        if va:
            ps.append("*args")
        elif kwonly:
            ps.append("*")
        ps += ["k%d" % i for i in range(kwonly)]
        if kw:
            ps.append("**kws")
        body = "; ".join("x%d = %d" % (i, i) for i in range(nlocals)) or "pass"
        ns = {}
        exec("def f(%s): %s" % (", ".join(ps), body), ns)
        _CODE[key] = ns["f"].__code__
    return _CODE[key]


def run(lines, out, args):
    from zope.interface import Interface
    from zope.interface.interface import fromFunction, fromMethod, InterfaceClass

    class Dflt:
        def __init__(self, k):
            self.k = k

        def __repr__(self):
            return str(self.k)

    for line in lines:
        f = line.split()
        try:
            if f[0] != "fn":
                out.write("bad\n")
                continue
            posonly, pos, va, kwonly, kw, nlocals = [int(x) for x in f[1:7]]
            kind = f[7]                       # F function, M bound method, S bound method whose self is absorbed by *args, I interface definition
            ndef = int(f[8])
            kwd = f[9]                        # which keyword-only parameters have defaults: string of 0/1 or '-'
            first = int(f[10])                # id of the first default value
            vals = f[11].split(",") if len(f) > 11 and f[11] != "-" else []    # value kinds of the defaults ('D': opaque)
            with_self = kind in ("M", "A")
            body_override_wrong = None
            # the instance parameter of a method is whatever comes first, whatever it is called (`this`, `me`, `_`, `cls`)
            selfname = "self" if kind != "A" else ["self", "this", "me", "_", "cls"][first % 5]
            code = build(posonly, pos, va, kwonly, kw, nlocals, with_self, selfname)
            ids = [first + i for i in range(ndef)]
            defaults = tuple(VALUE_KINDS[vals[i]][1]() if i < len(vals) and vals[i] != "D" else Dflt(ids[i]) for i in range(ndef))
            # the function is described once BEFORE it gets its final defaults and attributes (a description must not
            # be remembered per function) ...
            # -- with ANOTHER NUMBER of defaults (what is required is a matter of how many there are now), and for every other
            # function with another code object altogether (`f.__code__ = ...`: other names, other * / ** parameters)
            npre = (ndef + 1 + first) % (code.co_argcount + 1)
            if npre == ndef:
                npre = (ndef + 1) % (code.co_argcount + 1)
            code0 = code
            if first % 2:
                code0 = build(pos, posonly, 1 - va, kwonly, 1 - kw, 2 - nlocals if nlocals in (0, 2) else 0, with_self)
                npre = min(npre, code0.co_argcount)
            fn = types.FunctionType(code0, {}, "f", tuple(Dflt(5000 + i) for i in range(npre)) or None)
            try:
                if kind in "MSA":
                    fromMethod(type("C0", (), {"f": fn})().f)
                else:
                    fromFunction(fn)
            except Exception:  # noqa
                pass
            if code0 is not code:
                fn.__defaults__ = None
                fn.__code__ = code
            fn.__defaults__ = defaults or None
            if kwd != "-":
                kd = {"k%d" % i: Dflt(900 + i) for i, c in enumerate(kwd) if c == "1"}
                if kd:
                    fn.__kwdefaults__ = kd
            fn.colour = "red"
            fn.answer = 42
            fn.nothing = None
            # attribute names of every shape a function's __dict__ can hold (seeded change o18a skipped the dunder-shaped ones as
            # "interpreter bookkeeping"): security declarations, private-looking names, a key that
            # is not an identifier, falsy values
            fn.__permission__ = "zope.View"
            fn.__roles__ = ("Manager",)          # (not __wrapped__: the inspect.signature oracle would follow it)
            fn._private_ = 0
            fn.__half = ""
            fn.__dict__["two words"] = ()
            want_tags = sorted(vars(fn).items(), key=lambda kv: kv[0])
            if kind in "MS":
                C = type("C", (), {"f": fn})
                target = C().f
                m = fromMethod(target)
                imlevel = 1
            elif kind == "A":
                # the method of an interface derived from an ABC (zope.interface.common): the ABC's function has an explicit
                # self, the interface method has not
                import abc
                from zope.interface.common import ABCInterface, ABCInterfaceClass
                Abc = abc.ABCMeta("Abc", (), {"f": fn, "__module__": "zi.gen"})
                I = ABCInterfaceClass("IAbc", (ABCInterface,), {"abc": Abc, "__module__": "zi.gen"})
                m = I["f"]
                target = Abc().f
                imlevel = 1
                # ... and an interface body that RE-SPECIFIES the name with a plain function (written, like every interface
                # method, without self): it is described as it stands
                ns2 = {}
                exec("def f(zx, yy=2, *rest): pass", ns2)
                I2 = ABCInterfaceClass("IAbc", (ABCInterface,), {"abc": Abc, "f": ns2["f"], "__module__": "zi.gen.two"})      # (the name is I + the ABC's)
                i2 = I2["f"].getSignatureInfo()
                if (tuple(i2["positional"]), tuple(i2["required"]), dict(i2["optional"]), i2["varargs"]) != (("zx", "yy"), ("zx",), {"yy": 2}, "rest"):
                    body_override_wrong = "%r" % (i2,)
            elif kind == "I":
                # ... and the interface also holds another function made from the SAME code object with other defaults
                # and attributes (functions produced by one `def` in a factory or loop)
                g = types.FunctionType(code, {}, "g", tuple(Dflt(7000 + i) for i in range(ndef)) or None)
                g.colour = "blue"
                I = InterfaceClass("I", (Interface,), {"g": g, "f": fn}, __module__="zi.gen")
                m = I["f"]
                target = fn
                imlevel = 0
            else:
                target = fn
                m = fromFunction(fn)
                imlevel = 0
            info = m.getSignatureInfo()
            if kind == "A" and body_override_wrong:
                raise AssertionError("a body function re-specifying an ABC's method is described as " + body_override_wrong[:120])
            try:
                sigstr = m.getSignatureString()
            except Exception as e:  # noqa  -- rendering a description must not fail, whatever the defaults are
                sigstr = "<getSignatureString raised %s: %s>" % (type(e).__name__, str(e)[:80])
            got = "pos=%s req=%s opt=%s var=%s kw=%s str=%s" % (
                ",".join(info["positional"]), ",".join(info["required"]),
                ",".join("%s=%s" % (k, repr(v)) for k, v in info["optional"].items()), info["varargs"], info["kwargs"], sigstr)
            # the defaults reported must be the function's own objects (identity, not an equal or re-made value)
            optvals = list(info["optional"].values())
            if len(optvals) > len(defaults) or any(a is not b for a, b in zip(optvals, defaults[len(defaults) - len(optvals):])):
                got += " DEFAULTS-NOT-IDENTICAL"
            try:
                tags = sorted((k, m.getTaggedValue(k)) for k in m.getTaggedValueTags())
                tags2 = sorted((k, m.queryTaggedValue(k, "absent")) for k in ("answer", "colour", "nothing"))
            except Exception as e:  # noqa
                tags = tags2 = "raised %s" % type(e).__name__
            if tags != want_tags or tags2 != [("answer", 42), ("colour", "red"), ("nothing", None)] or len(want_tags) != 8:
                got += " TAGS-WRONG:%r" % (tags,)
            # the other places the rendered signature is observed at: str() / repr() of the description and the
            # interface's documentation
            try:
                want_tail = ("zi.gen.I.f" if kind == "I" else "zi.gen.IAbc.f" if kind == "A" else "f") + sigstr
                if str(m) != want_tail or not repr(m).endswith(" " + want_tail + ">"):
                    got += " STR-WRONG:%s" % str(m)[:80]
                if kind == "I":
                    from zope.interface.document import asStructuredText
                    if ("\n  f%s -- no documentation\n" % sigstr) not in asStructuredText(I):
                        got += " DOC-WRONG"
            except Exception as e:  # noqa
                got += " STR-WRONG:raised %s" % type(e).__name__
            # the real code object, for the model; every default is an id, a named value kind comes with its repr (hex of
            # the UTF-8 text), which is the model's `reprOf` for that id
            c = fn.__code__
            codeline = "ff %d %d %d %d %d %s %s" % (imlevel, c.co_argcount, c.co_kwonlyargcount, bool(c.co_flags & 4), bool(c.co_flags & 8),
                                                    ",".join(str(n) if isinstance(d, Dflt) else "%d:%s" % (n, repr(d).encode("utf-8").hex())
                                                             for n, d in zip(ids, defaults)) or "-", " ".join(c.co_varnames))
            # inspect.signature of the same callable
            sig = inspect.signature(target)
            P = inspect.Parameter
            ps = list(sig.parameters.values())
            positional = [p for p in ps if p.kind in (P.POSITIONAL_ONLY, P.POSITIONAL_OR_KEYWORD)]
            ins = "pos=%s req=%s opt=%s var=%s kw=%s" % (
                ",".join(p.name for p in positional), ",".join(p.name for p in positional if p.default is P.empty),
                ",".join(p.name + "=" + repr(p.default) for p in positional if p.default is not P.empty),
                next((p.name for p in ps if p.kind == P.VAR_POSITIONAL), None), next((p.name for p in ps if p.kind == P.VAR_KEYWORD), None))
            want_str = "(%s)" % ", ".join(
                [p.name if p.default is P.empty else p.name + "=" + repr(p.default) for p in positional] +
                ["*" + p.name for p in ps if p.kind == P.VAR_POSITIONAL] + ["**" + p.name for p in ps if p.kind == P.VAR_KEYWORD])
            out.write("%s || %s || %s str=%s\n" % (got, codeline, ins, want_str))
        except Exception as e:   # noqa
            out.write("err %s %s\n" % (type(e).__name__, str(e)[:100]))
