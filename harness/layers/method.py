"""Executor for the method-description layer (C18).  A line describes a function; the executor builds it (code objects
are compiled once per distinct parameter list and shared between functions that differ only in their defaults),
describes it with fromFunction / fromMethod / an interface definition / an ABC-style wrapper, and prints: the real code
object's fields, zope.interface's description, and what inspect.signature says about the same callable."""
import inspect
import types

_CODE = {}


def build(posonly, pos, va, kwonly, kw, nlocals, with_self):
    """-> code object for def f(<self,> p0.., /, q0.., *args, k0.., **kws): x0 = 1 .."""
    key = (posonly, pos, va, kwonly, kw, nlocals, with_self)
    if key not in _CODE:
        ps = (["self"] if with_self else []) + ["p%d" % i for i in range(posonly)]
        if posonly or (with_self and False):
            ps.append("/")
        ps += ["q%d" % i for i in range(pos)]
        if va:
            ps.append("*args")
        elif kwonly:
            ps.append("*")
        ps += ["k%d" % i for i in range(kwonly)]
        if kw:
            ps.append("**kws")
        body = "; ".join("x%d = %d" % (i, i) for i in range(nlocals)) or "pass"
        ns = {}
        exec("def f(%s): %s" % (", ".join(ps), body), ns)
        _CODE[key] = ns["f"].__code__
    return _CODE[key]


def run(lines, out, args):
    from zope.interface import Interface
    from zope.interface.interface import fromFunction, fromMethod, InterfaceClass

    class Dflt:
        def __init__(self, k):
            self.k = k

        def __repr__(self):
            return str(self.k)

    for line in lines:
        f = line.split()
        try:
            if f[0] != "fn":
                out.write("bad\n")
                continue
            posonly, pos, va, kwonly, kw, nlocals = [int(x) for x in f[1:7]]
            kind = f[7]                       # F function, M bound method, S bound method whose self is absorbed by *args, I interface definition
            ndef = int(f[8])
            kwd = f[9]                        # which keyword-only parameters have defaults: string of 0/1 or '-'
            first = int(f[10])                # id of the first default value
            with_self = kind == "M"
            code = build(posonly, pos, va, kwonly, kw, nlocals, with_self)
            defaults = tuple(Dflt(first + i) for i in range(ndef))
            # the function is described once BEFORE it gets its final defaults and attributes (a description must not
            # be remembered per function) ...
            fn = types.FunctionType(code, {}, "f", tuple(Dflt(5000 + i) for i in range(ndef)) or None)
            try:
                if kind in "MS":
                    fromMethod(type("C0", (), {"f": fn})().f)
                else:
                    fromFunction(fn)
            except Exception:  # noqa
                pass
            fn.__defaults__ = defaults or None
            if kwd != "-":
                kd = {"k%d" % i: Dflt(900 + i) for i, c in enumerate(kwd) if c == "1"}
                if kd:
                    fn.__kwdefaults__ = kd
            fn.colour = "red"
            fn.answer = 42
            fn.nothing = None
            if kind in "MS":
                C = type("C", (), {"f": fn})
                target = C().f
                m = fromMethod(target)
                imlevel = 1
            elif kind == "I":
                # ... and the interface also holds another function made from the SAME code object with other defaults
                # and attributes (functions produced by one `def` in a factory or loop)
                g = types.FunctionType(code, {}, "g", tuple(Dflt(7000 + i) for i in range(ndef)) or None)
                g.colour = "blue"
                I = InterfaceClass("I", (Interface,), {"g": g, "f": fn}, __module__="zi.gen")
                m = I["f"]
                target = fn
                imlevel = 0
            else:
                target = fn
                m = fromFunction(fn)
                imlevel = 0
            info = m.getSignatureInfo()
            got = "pos=%s req=%s opt=%s var=%s kw=%s str=%s" % (
                ",".join(info["positional"]), ",".join(info["required"]),
                ",".join("%s=%r" % (k, v) for k, v in info["optional"].items()), info["varargs"], info["kwargs"],
                m.getSignatureString())
            try:
                tags = sorted((k, m.getTaggedValue(k)) for k in m.getTaggedValueTags())
                tags2 = sorted((k, m.queryTaggedValue(k, "absent")) for k in ("answer", "colour", "nothing"))
            except Exception as e:  # noqa
                tags = tags2 = "raised %s" % type(e).__name__
            if tags != [("answer", 42), ("colour", "red"), ("nothing", None)] or tags2 != tags:
                got += " TAGS-WRONG:%r" % (tags,)
            # the real code object, for the model
            c = fn.__code__
            codeline = "ff %d %d %d %d %d %s %s" % (imlevel, c.co_argcount, c.co_kwonlyargcount, bool(c.co_flags & 4), bool(c.co_flags & 8),
                                                    ",".join(str(d.k) for d in defaults) or "-", " ".join(c.co_varnames))
            # inspect.signature of the same callable
            sig = inspect.signature(target)
            P = inspect.Parameter
            ps = list(sig.parameters.values())
            positional = [p for p in ps if p.kind in (P.POSITIONAL_ONLY, P.POSITIONAL_OR_KEYWORD)]
            ins = "pos=%s req=%s opt=%s var=%s kw=%s" % (
                ",".join(p.name for p in positional), ",".join(p.name for p in positional if p.default is P.empty),
                ",".join("%s=%r" % (p.name, p.default) for p in positional if p.default is not P.empty),
                next((p.name for p in ps if p.kind == P.VAR_POSITIONAL), None), next((p.name for p in ps if p.kind == P.VAR_KEYWORD), None))
            want_str = "(%s)" % ", ".join(
                [p.name if p.default is P.empty else "%s=%r" % (p.name, p.default) for p in positional] +
                ["*" + p.name for p in ps if p.kind == P.VAR_POSITIONAL] + ["**" + p.name for p in ps if p.kind == P.VAR_KEYWORD])
            out.write("%s || %s || %s str=%s\n" % (got, codeline, ins, want_str))
        except Exception as e:   # noqa
            out.write("err %s %s\n" % (type(e).__name__, str(e)[:100]))
