"""Executor for the declarations layer (C01, C20 users): real classes, instances, declaration calls."""
import gc


def run(lines, out, args):
    from zope.interface import (Interface, implementedBy, providedBy, classImplements, classImplementsOnly,
                                classImplementsFirst, directlyProvides, alsoProvides, noLongerProvides,
                                directlyProvidedBy, implementer, implementer_only)
    from zope.interface.interface import InterfaceClass
    ifs = {}
    classes = {}
    objs = {}
    serial = 0
    metas = []            # the metaclasses of this script: Meta0, Meta1(Meta0)
    metadecl = {}         # metaclass -> interface numbers declared for it, in order
    cdirect = {}          # class -> interface numbers its class object was given directly

    def class_object_want(K):
        """what the CLASS OBJECT K provides: the closure of what it was given directly and of what its metaclass (chain) implements"""
        want = {Interface}
        for x in cdirect.get(K, []):
            want |= set(ifs[x].__iro__)
        for M in type(K).__mro__:
            for x in metadecl.get(M, []):
                want |= set(ifs[x].__iro__)
        return want

    def class_objects_bad():
        notes = []
        for k, K in classes.items():
            if k and set(providedBy(K).flattened()) != class_object_want(K):
                notes.append("the class object C%s provides %s" % (k, sorted(i.__name__ for i in providedBy(K).flattened())))
            if k and not all(I.providedBy(K) == (I in class_object_want(K)) for I in ifs.values()):
                notes.append("I.providedBy(C%s) disagrees" % k)
        return notes

    def ids(xs):
        inv = {id(v): k for k, v in ifs.items()}
        return " ".join(str(inv[id(x)]) for x in xs if id(x) in inv)

    for line in lines:
        cmd, _, rest = line.partition(":")
        f = cmd.split()
        a = [int(x) for x in rest.split()]
        got = "ok"
        x = X = ob = None
        try:
            if f[0] == "reset":
                ifs = {0: Interface}
                classes = {0: object}
                objs = {}
                serial += 1
                M0 = type("Meta0", (type,), {})
                metas = [M0, type("Meta1", (M0,), {})]
                metadecl = {}
                cdirect = {}
                gc.collect()
            elif f[0] == "iface":
                ifs[int(f[1])] = InterfaceClass("I%d_%s" % (serial, f[1]), tuple(ifs[b] for b in a) or (Interface,), __module__="zi.gen")
            elif f[0] == "class":
                # some root classes have a metaclass of their own (subclasses get the most derived one of their bases)
                k = int(f[1])
                mk = type if (a or k % 2) else metas[(k // 2) % 2]
                classes[k] = mk("C%d_%s" % (serial, f[1]), tuple(classes[b] for b in a) or (object,), {})
            elif f[0] == "inst":
                objs[int(f[1])] = classes[a[0]]()
            elif f[0] == "add":
                if len(f) > 2 and f[2] == "d":
                    implementer(*[ifs[x] for x in a])(classes[int(f[1])])
                else:
                    classImplements(classes[int(f[1])], *[ifs[x] for x in a])
            elif f[0] == "only":
                if len(f) > 2 and f[2] == "d":
                    implementer_only(*[ifs[x] for x in a])(classes[int(f[1])])
                else:
                    classImplementsOnly(classes[int(f[1])], *[ifs[x] for x in a])
            elif f[0] == "first":
                classImplementsFirst(classes[int(f[1])], ifs[a[0]])
            elif f[0] == "cprov":
                # `@provider(...)` / directlyProvides on a CLASS object: what the class object itself provides.  Judged here, on
                # the real objects: the class object then provides exactly the closure of what was named (and Interface); what the
                # class IMPLEMENTS and what its instances, subclasses and their instances provide is untouched
                from zope.interface import provider
                C = classes[int(f[1])]
                watch = [("implementedBy(C%s)" % k, (lambda K=K: implementedBy(K))) for k, K in classes.items()
                         if k and (K is C or issubclass(K, C) or issubclass(C, K))] + \
                        [("providedBy(o%s)" % k, (lambda o=o: providedBy(o))) for k, o in objs.items()]
                before = [(n_, tuple(g()) ) for n_, g in [(n_, (lambda fn=fn: fn().flattened())) for n_, fn in watch]]
                if len(f) > 2 and f[2] == "d":
                    provider(*[ifs[x] for x in a])(C)
                else:
                    directlyProvides(C, *[ifs[x] for x in a])
                after = [(n_, tuple(fn().flattened())) for n_, fn in watch]
                cdirect[C] = list(a)
                notes = class_objects_bad()
                if not all(ifs[x].providedBy(C) for x in a):
                    notes.append("the class object does not provide what it was given")
                if before != after:
                    notes.append("changed: " + ",".join(n_ for (n_, b_), (_, a_) in zip(before, after) if b_ != a_))
                if notes:
                    got = "ok CPROV-BAD " + "; ".join(notes)
            elif f[0] == "mprov":
                # a declaration for the METACLASS of a class (`classImplements(type(C), ...)`): every class object of that
                # metaclass provides it from now on, whatever was computed or asked before; instances are untouched
                C = classes[int(f[1])]
                M = type(C)
                if M is not type:
                    watch = [("providedBy(o%s)" % k, o) for k, o in objs.items()]
                    before = [tuple(providedBy(o).flattened()) for _, o in watch]
                    if len(f) > 2 and f[2] == "d":
                        implementer(*[ifs[x] for x in a])(M)
                    else:
                        classImplements(M, *[ifs[x] for x in a])
                    metadecl.setdefault(M, []).extend(a)
                    notes = class_objects_bad()
                    # a class of that metaclass made NOW and asked at once (nothing has computed its own specification yet), and what
                    # the metaclass object itself is given directly is the metaclass's business, not its classes'
                    directlyProvides(M, *[I for k_, I in list(ifs.items())[-1:] if k_])
                    Fresh = M("Fresh%d" % serial, (), {})
                    want_f = set()
                    for M_ in M.__mro__:
                        for x in metadecl.get(M_, []):
                            want_f |= set(ifs[x].__iro__)
                    want_f.add(Interface)
                    if set(providedBy(Fresh).flattened()) != want_f:
                        notes.append("a class created after the declaration provides %s" % sorted(i.__name__ for i in providedBy(Fresh).flattened()))
                    directlyProvides(M)
                    after = [tuple(providedBy(o).flattened()) for _, o in watch]
                    if before != after:
                        notes.append("changed: " + ",".join(n_ for (n_, _), b_, a_ in zip(watch, before, after) if b_ != a_))
                    if notes:
                        got = "ok CPROV-BAD " + "; ".join(notes)
            elif f[0] == "dp":
                if len(f) > 2 and f[2] == "d":
                    from zope.interface import provider
                    provider(*[ifs[x] for x in a])(objs[int(f[1])])
                else:
                    directlyProvides(objs[int(f[1])], *[ifs[x] for x in a])
            elif f[0] == "also":
                alsoProvides(objs[int(f[1])], *[ifs[x] for x in a])
            elif f[0] == "nl":
                try:
                    noLongerProvides(objs[int(f[1])], ifs[a[0]])
                except ValueError:
                    got = "ValueError"
            elif f[0] == "prov":
                ob = objs[int(f[1])]
                spec = providedBy(ob)
                fl = list(spec.flattened())
                got = ids(fl)
                # the four query forms must agree
                for k, I in ifs.items():
                    if I.providedBy(ob) != (I in fl):
                        got += " MISMATCH-I.providedBy(%d)" % k
                spec = fl = None
            elif f[0] == "impl":
                spec = implementedBy(classes[int(f[1])])
                fl = list(spec.flattened())
                got = ids(fl)
                for k, I in ifs.items():
                    if I.implementedBy(classes[int(f[1])]) != (I in fl):
                        got += " MISMATCH-I.implementedBy(%d)" % k
                spec = fl = None
            elif f[0] == "direct":
                got = ids(directlyProvidedBy(objs[int(f[1])]))
            elif f[0] == "plist":
                got = ids(list(providedBy(objs[int(f[1])])))
            elif f[0] == "ilist":
                got = ids(list(implementedBy(classes[int(f[1])])))
            else:
                got = "bad"
        except Exception as e:  # noqa
            got = "err " + type(e).__name__
        out.write(got + "\n")
        if f[0] in ("dp", "also", "nl"):
            # a replaced declaration sits in a reference cycle (spec -> _implied -> spec): collect it now, as the
            # reference-free model does
            x = X = ob = None
            gc.collect()
