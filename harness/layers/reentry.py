"""C11 runtime tie: re-entrancy injection at the callback points of the lookup functions, on the real code.

One input line = one scenario `<scenario> <flavour push|verifying> <entry point>`; one output line: `ok` or `FAIL: …`.
Scenarios
  stray     the overridden `_uncached_*` runs `self.changed(None)` and then allocates fresh dicts: a store through a
            dangling cache pointer lands in one of them (CPython's dict free list) — none may be touched
  stale     the overridden `_uncached_*` computes the answer and THEN mutates the registry: the interrupted lookup may
            return the old or the new answer, but every later lookup must return the new one
  stale-pre the mutation happens BEFORE the answer is computed: the answer must be the new one, and stay
  leak      a factory / `_uncached_lookup` that raises, an unhashable `provided`: reference counts stay put
  leak3     the uncached callback raises on every miss: reference counts of the arguments must not grow
  lazyreq   `required` is a lazy iterable that mutates the registry while it is being turned into a tuple
  descr     a `__providedBy__` descriptor that mutates the registry during queryAdapter
  pychanged a specification whose `unsubscribe` performs a lookup while `changed()` iterates its bookkeeping
  midwalk   the registry's `_mappingType` (a documented extension point, e.g. a persistent mapping) runs code on `.get`:
            while the uncached lookup walks the candidates for the provided interface, the registration of the
            candidate being visited is removed
  shrink    between the uncached lookup's check of how many arities a registry holds and its fetch of that arity's
            table, the last registration of the arity is removed (what a mutator thread can do at that point; injected
            through the lookup object's extendors table, which is consulted in between)
  hashhook  the HIDDEN callbacks of the cache probes: `hashhook <flavour> <entry point> <provided|required|name>`.  The provided
            interface / the required specification is an instance of a user subclass of InterfaceClass with a `__hash__` written
            in Python, the name an instance of a str subclass with `__bool__`; while the lookup hashes (truth-tests) it, that
            code mutates the registry (every cache is dropped) and then creates empty dictionaries of its own -- which
            CPython's dict free list serves from the memory of the caches just freed.  None of them may be written, the
            answer must be the one before or after the mutation, and later calls answer the registry's content
  superself `queryAdapter` / `adapter_hook` / `queryMultiAdapter` on an instance of a SUBCLASS of `super` whose `__self__` is
            computed (a property returning a fresh object): the factory must be handed a live object
  genhook   (generation-checking flavour) the window inside `changed()` of a verifying lookup: while it reads the generations of
            its base registries (an attribute read on an arbitrary registry object: a property here, another thread in
            general) a COMPLETE lookup runs and caches its answer, and then the base is mutated.  The interrupted call may
            answer old or new; every later call must answer the base's current content
  inmut     the dual schedule: a MUTATOR interrupted by lookups.  `inmut <flavour> <placement> <mutator> <how> [<stride>
            <offset>]`.  The registry stores its data in instrumented versions of the documented storage types
            (`_sequenceType`, `_mappingType`, `_providedType`, `_leafSequenceType` + `_addValueToLeaf` /
            `_removeValueFromLeaf`; what a persistent registry does), so every constructor call and every access the
            mutator makes is a point at which other Python code can run.  The points of one mutator call are counted in
            a dry run; then, for every point k (quick tier: every <stride>-th), a fresh, identically populated registry
            runs the mutator and at point k an observer performs every kind of lookup — re-entrantly (`reenter`) or in
            a second thread to which the mutator thread is forced to yield exactly there (`thread`) — on the registry
            itself (`same`), on registries one / two levels below it (`below1`, `below2`) or on a verifying registry
            below an invalidating one (`mixed`).  Judged against a ledger of what the scenario registered, never
            against the library: an answer seen inside an elementary mutator is the one before or the one after it
            (inside `rebuild()`, which takes everything out and puts it back one registration at a time: the one of a
            registry holding part of the registrations); once the mutator has RETURNED every lookup answers what the
            ledger says, twice (nothing computed inside the mutator survives in a cache); and a following mutation is
            still seen by every registry.  Answers `ok points=<P> runs=<n> lookups=<n> partial=<n>` (statistics)."""
import gc
import sys
import threading


def run(lines, out, args):
    from zope.interface import Interface, implementer, providedBy
    from zope.interface.interface import InterfaceClass
    from zope.interface import adapter as A

    class IR(Interface):
        pass

    class IP(Interface):
        pass

    def mkreg(flavour, hook, mapping=None):
        """a registry whose lookup object calls `hook(kind, self, compute)` inside _uncached_*"""
        base_lookup = A.VerifyingAdapterLookup if flavour == "verifying" else A.AdapterLookup
        base_reg = A.VerifyingAdapterRegistry if flavour == "verifying" else A.AdapterRegistry

        class L(base_lookup):
            def _uncached_lookup(self, required, provided, name=""):
                return hook("lookup", self, lambda: base_lookup._uncached_lookup(self, required, provided, name))

            def _uncached_lookupAll(self, required, provided):
                return hook("lookupAll", self, lambda: base_lookup._uncached_lookupAll(self, required, provided))

            def _uncached_subscriptions(self, required, provided):
                return hook("subscriptions", self, lambda: base_lookup._uncached_subscriptions(self, required, provided))

        class Reg(base_reg):
            LookupClass = L
            if mapping is not None:
                _mappingType = mapping
        return Reg()

    def ask(reg, ep, ob=None):
        if ep == "lookup":
            return reg.lookup((IR,), IP, "")
        if ep == "lookup1":
            return reg.lookup1(IR, IP, "")
        if ep == "lookupAll":
            return tuple(sorted(reg.lookupAll((IR,), IP)))
        if ep == "subscriptions":
            return tuple(reg.subscriptions((IR,), IP))
        if ep == "queryAdapter":
            return reg.queryAdapter(ob, IP, "")
        if ep == "adapter_hook":
            return reg.adapter_hook(IP, ob, "")
        if ep == "queryMultiAdapter":
            return reg.queryMultiAdapter((ob,), IP, "")
        raise KeyError(ep)

    @implementer(IR)
    class Ob:
        pass

    def fac1(*a):
        return "adapter-1"

    def fac2(*a):
        return "adapter-2"

    def expect(ep, fac):
        """the uncached answer when `fac` (or nothing) is registered / subscribed"""
        if ep in ("lookup", "lookup1"):
            return fac
        if ep == "lookupAll":
            return (("", fac),) if fac else ()
        if ep == "subscriptions":
            return (fac,) if fac else ()
        return fac() if fac else None

    # ------------------------------------------------------------------ inmut: a mutator interrupted by lookups
    IPA = InterfaceClass("IPA", (Interface,), __module__="zi.gen")
    IPB = InterfaceClass("IPB", (Interface,), __module__="zi.gen")
    IPC = InterfaceClass("IPC", (Interface,), __module__="zi.gen")
    PROVIDED = (IPA, IPB, IPC)

    def mkfac(tag):
        def fac(*a):
            return tag
        fac.__name__ = tag
        return fac
    FAC = {t: mkfac(t) for t in ("fA", "fA2", "fB", "fB2", "fBn", "fC", "sA", "sB1", "sB2", "sB3", "sC")}

    class Pt:
        """the points of a mutator at which other Python code can run (calls into the storage objects)"""
        armed = False
        count = 0
        at = None
        action = None

    def point():
        if Pt.armed:
            Pt.count += 1
            if Pt.count == Pt.at:
                Pt.armed = False              # the observer's own accesses to the storage are not points
                Pt.action()

    class HookMap(dict):                       # reads: the point is before the access; writes: after it
        def __init__(self, *a):
            point()
            dict.__init__(self, *a)

        def get(self, k, d=None):
            point()
            return dict.get(self, k, d)

        def __getitem__(self, k):
            point()
            return dict.__getitem__(self, k)

        def __setitem__(self, k, v):
            dict.__setitem__(self, k, v)
            point()

        def __delitem__(self, k):
            dict.__delitem__(self, k)
            point()

    class HookProvided(HookMap):
        pass

    class HookSeq(list):
        def __init__(self, *a):
            point()
            list.__init__(self, *a)

        def append(self, x):
            list.append(self, x)
            point()

        def __getitem__(self, i):
            point()
            return list.__getitem__(self, i)

        def __delitem__(self, i):
            list.__delitem__(self, i)
            point()

    class HookLeaf(tuple):
        def __new__(cls, it=()):
            point()
            return tuple.__new__(cls, it)

    def hooked(base_reg):
        class HookReg(base_reg):
            _sequenceType = HookSeq
            _mappingType = HookMap
            _providedType = HookProvided
            _leafSequenceType = HookLeaf

            def _addValueToLeaf(self, existing, new_item):
                return self._leafSequenceType(tuple(existing or ()) + (new_item,))

            def _removeValueFromLeaf(self, existing, to_remove):
                return self._leafSequenceType([v for v in existing if v != to_remove])
        return HookReg
    HOOKED = {"push": hooked(A.AdapterRegistry), "verifying": hooked(A.VerifyingAdapterRegistry)}

    class Ledger:
        """what the scenario registered: the independent source of expected answers"""

        def __init__(self, ad=None, su=None):
            self.ad = dict(ad or {})            # (provided, name) -> factory
            self.su = {k: list(v) for k, v in (su or {}).items()}     # provided -> [subscriber]

        def copy(self):
            return Ledger(self.ad, self.su)

        def expect(self, ep, prov, name):
            if ep in ("lookup", "lookup1"):
                return self.ad.get((prov, name))
            if ep == "lookupAll":
                return tuple(sorted(((n, f) for (p, n), f in self.ad.items() if p is prov), key=lambda x: x[0]))
            if ep == "subscriptions":
                return tuple(self.su.get(prov, ()))
            f = self.ad.get((prov, name))
            return f() if f else None

        def parts(self, prov):
            """the ledgers of a registry that holds only part of what this one holds for `prov`"""
            keys = [k for k in self.ad if k[0] is prov]
            subs = self.su.get(prov, [])
            out = []
            for mask in range(1 << len(keys)):
                ad = {k: self.ad[k] for i, k in enumerate(keys) if mask >> i & 1}
                for n in range(len(subs) + 1):
                    out.append(Ledger(ad, {prov: subs[:n]}))
            return out

    EPS_ALL = ("lookup", "lookup1", "lookupAll", "subscriptions", "queryAdapter", "adapter_hook", "queryMultiAdapter")
    KEYS = [(e, p, n) for e in EPS_ALL for p in PROVIDED for n in (("", "n") if e in ("lookup", "queryAdapter") else ("",))]

    def ask_key(reg, key, ob):
        e, p, n = key
        if e == "lookup":
            return reg.lookup((IR,), p, n)
        if e == "lookup1":
            return reg.lookup1(IR, p, n)
        if e == "lookupAll":
            return tuple(sorted(reg.lookupAll((IR,), p), key=lambda x: x[0]))
        if e == "subscriptions":
            return tuple(reg.subscriptions((IR,), p))
        if e == "queryAdapter":
            return reg.queryAdapter(ob, p, n)
        if e == "adapter_hook":
            return reg.adapter_hook(p, ob, n)
        return reg.queryMultiAdapter((ob,), p, n)

    def show(x):
        if isinstance(x, tuple):
            return "(%s)" % ", ".join(show(y) for y in x)
        return getattr(x, "__name__", None) or repr(x)

    def inmut_setup(flavour, placement):
        """-> (the registry that is mutated, the registries that are queried, the ledger)"""
        plain = A.VerifyingAdapterRegistry if flavour == "verifying" else A.AdapterRegistry
        R = HOOKED[flavour]()
        led = Ledger()
        for prov, name, tag in ((IPA, "", "fA"), (IPB, "", "fB"), (IPB, "n", "fBn")):
            R.register((IR,), prov, name, FAC[tag])
            led.ad[(prov, name)] = FAC[tag]
        for prov, tag in ((IPB, "sB1"), (IPB, "sB2"), (IPA, "sA")):
            R.subscribe((IR,), prov, FAC[tag])
            led.su.setdefault(prov, []).append(FAC[tag])
        if placement == "same":
            Q = [R]
        elif placement == "below1":
            Q = [plain((R,))]
        elif placement == "below2":
            mid = plain((R,))
            Q = [mid, plain((mid,))]
        elif placement == "mixed":
            Q = [A.VerifyingAdapterRegistry((R,)), A.VerifyingAdapterRegistry((A.AdapterRegistry((R,)),))]
        else:
            raise KeyError(placement)
        return R, Q, led

    def inmut_mutator(name):
        """-> (the mutation, its effect on the ledger)"""
        def ad(prov, nm, tag):
            return lambda led: led.ad.__setitem__((prov, nm), FAC[tag])

        def unad(prov, nm):
            return lambda led: led.ad.pop((prov, nm))
        return {
            "register": (lambda R: R.register((IR,), IPC, "", FAC["fC"]), ad(IPC, "", "fC")),
            "replace": (lambda R: R.register((IR,), IPB, "", FAC["fB2"]), ad(IPB, "", "fB2")),
            "unregister": (lambda R: R.unregister((IR,), IPB, ""), unad(IPB, "")),
            "unregister-last": (lambda R: R.unregister((IR,), IPA, ""), unad(IPA, "")),
            "subscribe": (lambda R: R.subscribe((IR,), IPB, FAC["sB3"]), lambda led: led.su[IPB].append(FAC["sB3"])),
            "subscribe-new": (lambda R: R.subscribe((IR,), IPC, FAC["sC"]), lambda led: led.su.setdefault(IPC, []).append(FAC["sC"])),
            "unsubscribe": (lambda R: R.unsubscribe((IR,), IPB, FAC["sB1"]), lambda led: led.su[IPB].remove(FAC["sB1"])),
            "unsubscribe-last": (lambda R: R.unsubscribe((IR,), IPA, FAC["sA"]), lambda led: led.su.pop(IPA)),
            "rebuild": (lambda R: R.rebuild(), lambda led: None),
        }[name]

    def inmut(flavour, placement, mutator, how, stride, offset):
        mutate, effect = inmut_mutator(mutator)
        ob = Ob()
        stats = dict(points=0, runs=0, lookups=0, partial=0)

        def one(k):
            """run the mutator on a fresh registry, the observer at point k (None: count the points); -> failure or None"""
            R, Q, pre = inmut_setup(flavour, placement)
            post = pre.copy()
            effect(post)
            during, errors, fired = [], [], []

            def observe():
                fired.append(1)
                try:
                    for q in Q:
                        for key in KEYS:
                            during.append((q, key, ask_key(q, key, ob)))
                except Exception as e:  # noqa
                    errors.append("%s: %s" % (type(e).__name__, str(e)[:120]))
            for q in Q:                                    # warm caches: the answers of the state before the mutator
                for key in KEYS:
                    ask_key(q, key, ob)
            thread = None
            if how == "thread" and k is not None:
                go, done = threading.Event(), threading.Event()

                def looker():
                    if go.wait(30) and fired:
                        observe()
                    done.set()
                thread = threading.Thread(target=looker)
                thread.start()

                def action():
                    fired.append(1)
                    go.set()
                    if not done.wait(30):
                        errors.append("the lookup thread did not finish")
            else:
                action = observe
            Pt.count, Pt.at, Pt.action, Pt.armed = 0, k, action, True
            try:
                mutate(R)
            finally:
                Pt.armed = False
                if thread is not None:
                    go.set()
                    thread.join(30)
            if k is None:
                return None
            where = "%s point %d of %s(), lookups %s" % (how, k, mutator, "on the same registry" if placement == "same" else "on registries below (%s)" % placement)
            if errors:
                return "a lookup made at %s raised %s" % (where, errors[0])
            if not fired:
                return "harness: point %d of %s() was never reached" % (k, mutator)
            stats["runs"] += 1
            stats["lookups"] += len(during)
            for q, key, a in during:                       # (i) inside the mutator: the answer before or after it
                want = (pre.expect(*key), post.expect(*key))
                if a in want:
                    continue
                if mutator == "rebuild" and any(a == part.expect(*key) for part in pre.parts(key[1])):
                    stats["partial"] += 1
                    continue
                return "%s(%s%s) at %s answered %s, neither the answer before (%s) nor after (%s) the mutation" % (
                    key[0], key[1].__name__, key[2] and ", %r" % key[2], where, show(a), show(want[0]), show(want[1]))
            regs = sorted(((p.__name__, n, f.__name__) for r, p, n, f in R.allRegistrations()))
            subs = sorted(((p.__name__, f.__name__) for r, p, f in R.allSubscriptions()))
            if regs != sorted((p.__name__, n, f.__name__) for (p, n), f in post.ad.items()) or \
                    subs != sorted((p.__name__, f.__name__) for p, fs in post.su.items() for f in fs):
                return "after %s() interrupted at %s the registry lists %r / %r, not what was registered" % (mutator, where, regs, subs)
            for rnd in (1, 2):                             # (ii) after it has returned: what the ledger says, and again
                for q in Q + ([R] if R not in Q else []):
                    for key in KEYS:
                        a, want = ask_key(q, key, ob), post.expect(*key)
                        stats["lookups"] += 1
                        if a != want:
                            seen = [d for dq, dk, d in during if dq is q and dk == key]
                            return ("after %s() has returned, %s(%s%s) on %s answers %s (ask %d); the registrations say %s; a lookup made at %s "
                                    "had answered %s and that is still cached" % (
                                        mutator, key[0], key[1].__name__, key[2] and ", %r" % key[2],
                                        "the mutated registry" if q is R else "a registry below it", show(a), rnd, show(want), where,
                                        show(seen[0]) if seen else "<not asked there>"))
            R.register((IR,), IPA, "", FAC["fA2"])         # (iii) the next mutation is seen everywhere
            for q in Q:
                a = q.lookup((IR,), IPA, "")
                if a is not FAC["fA2"]:
                    return "after %s() interrupted at %s a later register() is not seen by lookup: %s" % (mutator, where, show(a))
            return None

        one(None)
        stats["points"] = P = Pt.count
        if P == 0:
            return "FAIL: harness: %s() made no call into the instrumented storage" % mutator
        for k in range(1, P + 1):
            if (k + offset) % stride:
                continue
            bad = one(k)
            if bad:
                return "FAIL: " + bad
        return "ok points=%(points)d runs=%(runs)d lookups=%(lookups)d partial=%(partial)d" % stats

    for line in lines:
        f = line.split()
        scen, flavour, ep = f[0], f[1], f[2] if len(f) > 2 else "lookup"
        got = "ok"
        try:
            ob = Ob()
            if scen == "inmut":
                got = inmut(flavour, f[2], f[3], f[4], int(f[5]) if len(f) > 5 else 1, int(f[6]) if len(f) > 6 else 0)
            elif scen == "stray":
                pool = []

                def hook(kind, lk, compute):
                    r = compute()
                    lk.changed(None)                    # what a concurrent / re-entrant mutation does to the caches
                    pool.extend({} for _ in range(24))  # the freed dicts are handed out again
                    return r
                reg = mkreg(flavour, hook)
                reg.register((IR,), IP, "", fac1)
                reg.subscribe((IR,), IP, fac1)
                ask(reg, ep, ob)
                dirty = [d for d in pool if d]
                if dirty:
                    got = "FAIL: a dictionary allocated after the caches were cleared received a stray write: %r" % (dirty[0],)
            elif scen in ("stale", "stale-pre"):
                state = {"armed": True}

                def mutate(reg):
                    reg.register((IR,), IP, "", fac2)              # replace the registration
                    for x in list(reg.subscriptions((), IP)):
                        pass
                    reg.unsubscribe((IR,), IP, fac1)
                    reg.subscribe((IR,), IP, fac2)

                def hook(kind, lk, compute):
                    if not state["armed"]:
                        return compute()
                    state["armed"] = False
                    if scen == "stale-pre":
                        mutate(state["reg"])
                        return compute()
                    r = compute()
                    mutate(state["reg"])
                    return r
                reg = mkreg(flavour, hook)
                state["reg"] = reg
                reg.register((IR,), IP, "", fac1)
                reg.subscribe((IR,), IP, fac1)
                first = ask(reg, ep, ob)
                later = [ask(reg, ep, ob) for _ in range(3)]
                old, new = expect(ep, fac1), expect(ep, fac2)
                if scen == "stale-pre" and first != new:
                    got = "FAIL: answer %r computed after the mutation is not the new one %r" % (first, new)
                elif first not in (old, new):
                    got = "FAIL: the interrupted %s returned %r, neither the answer before (%r) nor after (%r) the mutation" % (ep, first, old, new)
                elif any(x != new for x in later):
                    got = "FAIL: after the mutation %s keeps answering %r, the registry now holds %r (an answer computed before the mutation survived in the cache)" % (ep, later, new)
            elif scen == "superself":
                died, seen = [], []

                class Temp:
                    def __del__(self):
                        died.append(1)

                class S(super):
                    @property
                    def __self__(self):
                        return Temp()

                def factory(o):
                    seen.append((type(o).__name__, len(died)))
                    return "adapted"
                reg = mkreg(flavour, lambda kind, lk, compute: compute())
                reg.register((IR,), IP, "", factory)
                for _ in range(3):
                    Sub = type("ObSub", (Ob,), {})
                    r = ask(reg, ep, S(Sub, Sub()))
                    if r != "adapted" or not seen or seen[-1] != ("Temp", len(seen) - 1):
                        got = "FAIL: %s on a super subclass with a computed __self__: the factory saw %r (type, temporaries already deallocated) and the call answered %r" % (ep, seen[-1:] or None, r)
                        break
            elif scen == "genhook":
                state = {"hook": None, "skip": 0}

                class HookedBase(A.AdapterRegistry):
                    _gen = 0

                    def _get(self):
                        h = state["hook"]
                        if h is not None:
                            if state["skip"]:
                                state["skip"] -= 1
                            else:
                                state["hook"] = None
                                h()
                        return self._gen

                    def _set(self, value):
                        self._gen = value
                    _generation = property(_get, _set)
                IPx = InterfaceClass("IPx", (Interface,), __module__="zi.gen")
                base = HookedBase()
                reg = A.VerifyingAdapterRegistry((base,))
                base.register((IR,), IP, "", fac1)
                base.subscribe((IR,), IP, fac1)
                old, new = expect(ep, fac1), expect(ep, fac2)
                for skip in (0, 1, 2):
                    base.register((IR,), IP, "", fac1)
                    base.unsubscribe((IR,), IP, fac2)
                    if fac1 not in base.subscriptions((IR,), IP):
                        base.subscribe((IR,), IP, fac1)
                    warm = ask(reg, ep, ob)
                    base.register((IR,), IPx, "", mkfac("unrelated-%d" % skip))        # an earlier, completed change (of an unrelated key): the next call re-verifies
                    seen = []

                    def interloper():
                        seen.append(ask(reg, ep, ob))                  # a complete lookup ...
                        base.register((IR,), IP, "", fac2)             # ... then a mutation of the base
                        base.unsubscribe((IR,), IP, fac1)
                        base.subscribe((IR,), IP, fac2)
                    state["skip"], state["hook"] = skip, interloper
                    first = ask(reg, ep, ob)
                    fired = state["hook"] is None
                    state["hook"] = None
                    later = [ask(reg, ep, ob) for _ in range(2)]
                    if warm != old:
                        got = "FAIL: %s answers %r before anything happened, the base holds %r" % (ep, warm, old)
                    elif fired and first not in (old, new):
                        got = "FAIL: the interrupted %s returned %r, neither %r nor %r" % (ep, first, old, new)
                    elif fired and any(x != new for x in later):
                        got = "FAIL: a complete %s ran while changed() was reading the base generations (read #%d), then the base was changed; later calls keep answering %r, the base holds %r" % (ep, skip + 1, later, new)
                    if got != "ok":
                        break
            elif scen == "provleak":
                # an object whose `__provides__` is not a specification (any other value under that name; a class that has no
                # declarations, so that the attribute is what the lookup consults first): the lookup falls back to the class, and the
                # value it looked at is released again
                Reg = A.VerifyingAdapterRegistry if flavour == "verifying" else A.AdapterRegistry
                reg = Reg()
                reg.register((Interface,), IP, "", fac1)

                class NotASpec:
                    pass
                marker = NotASpec()

                def once():
                    # (a fresh class every time: the path is the one taken for an instance of a class that has no specification yet)
                    oddball = type("Oddball", (), {})()
                    oddball.__provides__ = marker
                    if ep == "queryAdapter":
                        return reg.queryAdapter(oddball, IP, "")
                    if ep == "adapter_hook":
                        return reg.adapter_hook(IP, oddball, "")
                    if ep == "queryMultiAdapter":
                        return reg.queryMultiAdapter((oddball,), IP, "")
                    return providedBy(oddball)
                once()
                before = sys.getrefcount(marker)
                for _ in range(100):
                    once()
                after = sys.getrefcount(marker)
                if after - before >= 50:
                    got = "FAIL: 100 calls of %s on an object whose __provides__ is not a specification left %d references to that value behind" % (ep, after - before)
            elif scen == "mixrebase":
                # a generation-checking registry V below registries that are TOLD of changes (V -> A2 -> A1): re-basing A1 or A2 is a
                # change V can only learn from the generation counters of the registries in between.  `flavour` picks which of the
                # two is re-based; no registration is made anywhere in V's old chain in between
                A1, A1b = A.AdapterRegistry(), A.AdapterRegistry()
                A0 = A.AdapterRegistry()
                A1 = A.AdapterRegistry((A0,))
                A2 = A.AdapterRegistry((A1,))
                V = A.VerifyingAdapterRegistry((A2,))
                A1b.register((IR,), IP, "", fac2)
                A1b.subscribe((IR,), IP, fac2)
                A0.register((IR,), IP, "", fac1)
                A0.subscribe((IR,), IP, fac1)
                warm = ask(V, ep, ob)
                if flavour == "push":
                    A2.__bases__ = (A1b,)
                else:
                    A1.__bases__ = (A1b,)
                later = [ask(V, ep, ob) for _ in range(2)]
                old, new = expect(ep, fac1), expect(ep, fac2)
                if warm != old:
                    got = "FAIL: %s answers %r before the re-basing, the chain holds %r" % (ep, warm, old)
                elif any(x != new for x in later):
                    got = ("FAIL: a registry between a generation-checking registry and the top was re-based (%s); %s on the generation-checking "
                           "registry keeps answering %r, its current chain holds %r" % ("A2" if flavour == "push" else "A1", ep, later, new))
            elif scen == "eqhook":
                # (generation-checking flavour) the generations of the base registries are compared with the snapshot: an `__eq__`
                # written in Python (`_generation` is whatever the base registry hands out) makes the lookup object take a NEW
                # snapshot in the middle of that comparison.  The members of the old snapshot are referenced by the snapshot only;
                # their finalizer logs (and resurrects them): none may be compared after it has been finalized
                events, graveyard = [], []

                class Gen:
                    hook = None
                    __hash__ = None

                    def __init__(self, owner, n):
                        self.owner, self.n = owner, n

                    def __add__(self, k):
                        return self.n + k

                    def __eq__(self, other):
                        events.append(("eq", id(self)))
                        hook, Gen.hook = Gen.hook, None
                        if hook is not None:
                            hook()
                        return isinstance(other, Gen) and self.n == other.n

                    def __ne__(self, other):
                        return not self.__eq__(other)

                    def __del__(self):
                        events.append(("finalized", id(self)))
                        graveyard.append(self)

                class GBase(A.VerifyingAdapterRegistry):
                    label = None
                    gen = 0

                    def _get(self):
                        return Gen(self.label, self.gen)

                    def _set(self, value):
                        self.gen = value
                    _generation = property(_get, _set)
                b1, b2 = GBase(), GBase()
                b1.label, b2.label = "b1", "b2"
                reg = A.VerifyingAdapterRegistry((b1, b2))
                reg.register((IR,), IP, "", fac1)
                reg.subscribe((IR,), IP, fac1)
                ask(reg, ep, ob)
                del events[:]
                Gen.hook = lambda: reg._v_lookup.changed(None)
                first = ask(reg, ep, ob)
                fin = {}
                for i_, ev in enumerate(events):
                    if ev[0] == "finalized":
                        fin.setdefault(ev[1], i_)
                late = [i_ for i_, ev in enumerate(events) if ev[0] == "eq" and ev[1] in fin and fin[ev[1]] < i_]
                if late:
                    got = ("FAIL: the comparison of the generation snapshot inside %s went on reading a member of the snapshot AFTER the snapshot "
                           "had been released (a Python __eq__ made the lookup object take a new one): use after free" % ep)
                elif first != expect(ep, fac1):
                    got = "FAIL: %s answered %r" % (ep, first)
            elif scen == "delleak":
                # the destructor re-entry of `delhook`, repeated: every round a cached factory dies inside the cache invalidation and its
                # destructor performs a lookup (for a generation-checking registry: a complete nested changed()).  Nothing may be left
                # behind: the reference counts of the base registry and of the registry itself stay where they were
                Reg = A.VerifyingAdapterRegistry if flavour == "verifying" else A.AdapterRegistry
                base = Reg()
                reg = Reg((base,))
                IPy = InterfaceClass("IPy", (Interface,), __module__="zi.gen")
                base.register((IR,), IPy, "", fac1)

                class Dying:
                    def __call__(self, *a):
                        return "dying"

                    def __del__(self):
                        reg.lookup((IR,), IPy, "")
                        reg.lookupAll((IR,), IPy)

                def cycle():
                    f1 = Dying()
                    base.register((IR,), IP, "", f1)
                    base.subscribe((IR,), IP, f1)
                    ask(reg, ep, ob)
                    base.unsubscribe((IR,), IP, f1)
                    base.register((IR,), IP, "", fac2)
                    f1 = None
                    ask(reg, ep, ob)
                for _ in range(5):
                    cycle()
                gc.collect()
                before = (sys.getrefcount(base), sys.getrefcount(reg), len(gc.get_referrers(base)))
                for _ in range(60):
                    cycle()
                gc.collect()
                after = (sys.getrefcount(base), sys.getrefcount(reg), len(gc.get_referrers(base)))
                if any(a_ - b_ >= 30 for a_, b_ in zip(after, before)):
                    got = ("FAIL: 60 rounds of a cached factory dying inside the cache invalidation of %s (its destructor looks the registry up) "
                           "changed (refcount of the base registry, refcount of the registry, objects referring to the base) from %r to %r" % (ep, before, after))
            elif scen == "notifyhook":
                # a dependent of an interface S (anything may `S.subscribe()`: a registry of another kind, a persistence layer) that,
                # from INSIDE the notification of a re-basing of S, asks the registry about a sub-interface D of S that has not been
                # recomputed yet.  Whatever that nested call answers, once the assignment `S.__bases__ = …` has returned every call
                # answers what the registrations say for the new hierarchy
                Reg = A.VerifyingAdapterRegistry if flavour == "verifying" else A.AdapterRegistry
                reg = Reg()
                IBn = InterfaceClass("IBn", (Interface,), __module__="zi.gen")
                ISn = InterfaceClass("ISn", (Interface,), __module__="zi.gen")
                reg.register((IBn,), IP, "", fac1)
                reg.subscribe((IBn,), IP, fac1)
                seen = []

                def askn(spec, o):
                    if ep == "lookup":
                        return reg.lookup((spec,), IP, "")
                    if ep == "lookup1":
                        return reg.lookup1(spec, IP, "")
                    if ep == "lookupAll":
                        return tuple(sorted(reg.lookupAll((spec,), IP)))
                    if ep == "subscriptions":
                        return tuple(reg.subscriptions((spec,), IP))
                    if ep == "queryAdapter":
                        return reg.queryAdapter(o, IP, "")
                    if ep == "adapter_hook":
                        return reg.adapter_hook(IP, o, "")
                    return reg.queryMultiAdapter((o,), IP, "")
                obS = implementer(ISn)(type("ObS", (), {}))()
                askn(ISn, obS)                         # the lookup object watches S (and is told first)

                class Dep:
                    def changed(self, originally_changed):
                        seen.append(askn(IDn, obD))
                dep = Dep()
                ISn.subscribe(dep)
                IDn = InterfaceClass("IDn", (ISn,), __module__="zi.gen")
                obD = implementer(IDn)(type("ObD", (), {}))()
                ISn.__bases__ = (IBn,)
                later = [askn(IDn, obD) for _ in range(2)]
                want = expect(ep, fac1)
                if not seen:
                    got = "FAIL: harness: the dependent was not notified"
                elif any(x != want for x in later):
                    got = ("FAIL: after `S.__bases__ = (B,)` has returned, %s for the sub-interface D of S answers %r; the registrations say %r "
                           "(a call made from inside the notification had answered %r and that is still cached)" % (ep, later, want, seen))
                ISn.unsubscribe(dep)
            elif scen == "delhook":
                # a DESTRUCTOR as the re-entry point: a factory that only the lookup's cache keeps alive (it was replaced in the
                # base registry) dies while the caches are being dropped, and its __del__ asks the registry about ANOTHER key whose
                # registrations had changed (completely) before.  Those answers must be the current ones
                IPy = InterfaceClass("IPy", (Interface,), __module__="zi.gen")
                Reg = A.VerifyingAdapterRegistry if flavour == "verifying" else A.AdapterRegistry
                base = Reg()
                reg = Reg((base,))
                seen = []

                def probe():
                    return (tuple(sorted(reg.lookupAll((IR,), IPy))), tuple(reg.subscriptions((IR,), IPy)), reg.lookup((IR,), IPy, ""),
                            tuple(sorted(reg.names((IR,), IPy))), tuple(reg.subscribers((ob,), IPy)))

                # ... and about a key whose REQUIRED interface is re-based afterwards: an answer cached from inside the invalidation
                # must be dropped by that change like any other (the lookup object must still be / again be a dependent of it)
                IB1 = InterfaceClass("IB1", (Interface,), __module__="zi.gen")
                IB2 = InterfaceClass("IB2", (Interface,), __module__="zi.gen")
                IA_ = InterfaceClass("IA_", (IB1,), __module__="zi.gen")
                IC_ = InterfaceClass("IC_", (Interface,), __module__="zi.gen")
                fb1, fb2 = mkfac("for-IB1"), mkfac("for-IB2")

                class Dying:
                    def __call__(self, *a):
                        return "dying"

                    def __del__(self):
                        try:
                            seen.append(probe())
                            reg.lookup((IA_,), IC_, "")
                        except Exception as e:  # noqa
                            seen.append("raised %r" % (e,))
                f1 = Dying()
                base.register((IR,), IP, "", f1)
                base.subscribe((IR,), IP, f1)
                base.register((IR,), IPy, "", fac1)
                base.subscribe((IR,), IPy, fac1)
                base.register((IB1,), IC_, "", fb1)
                base.register((IB2,), IC_, "", fb2)
                warm = (ask(reg, ep, ob), probe(), reg.lookup((IA_,), IC_, ""))
                base.register((IR,), IPy, "", fac2)
                base.unsubscribe((IR,), IPy, fac1)
                base.subscribe((IR,), IPy, fac2)
                if flavour != "verifying":
                    ask(reg, ep, ob)                   # (the invalidating flavour dropped its caches already: fill the one for f1 again)
                base.unsubscribe((IR,), IP, f1)
                base.register((IR,), IP, "", fac2)     # f1 is now owned by reg's cache (and by `f1`)
                base.subscribe((IR,), IP, fac2)
                f1 = warm = None
                first = ask(reg, ep, ob)
                want = ((("", fac2),), (fac2,), fac2, ("",), (fac2(),))
                if first != expect(ep, fac2):
                    got = "FAIL: %s answers %r after the base registry replaced the factory by %r" % (ep, first, fac2)
                elif not seen:
                    got = "FAIL: harness: the replaced factory did not die"
                elif any(x != want for x in seen):
                    got = ("FAIL: lookups made by the destructor of a factory dying inside the cache invalidation of %s answered %r; the "
                           "registrations (changed before either call began) say %r" % (ep, seen, want))
                elif probe() != want:
                    got = "FAIL: afterwards the registry answers %r, the registrations say %r" % (probe(), want)
                else:
                    IA_.__bases__ = (IB2,)
                    late = reg.lookup((IA_,), IC_, "")
                    if late is not fb2:
                        got = ("FAIL: a lookup made by a destructor inside the cache invalidation of %s left an answer in the cache that a later "
                               "change of the required interface's bases does not drop: %r, the registrations say %r" % (ep, late, fb2))
            elif scen == "hashhook":
                who = f[3]
                state = {"armed": False, "pool": [], "reg": None}

                def fire():
                    if state["armed"]:
                        state["armed"] = False
                        reg_ = state["reg"]
                        reg_.register((IR,), IPo, "x", fac2)        # any mutation: changed() drops every cache
                        reg_.unregister((IR,), IPo, "x", fac2)
                        state["pool"].extend({} for _ in range(32))

                class HookedIC(InterfaceClass):
                    def __hash__(self):
                        fire()
                        return InterfaceClass.__hash__(self)

                class HookedName(str):
                    def __bool__(self):
                        fire()
                        return len(self) > 0
                IPo = InterfaceClass("IPo", (Interface,), __module__="zi.gen")
                IPh = (HookedIC if who == "provided" else InterfaceClass)("IPh", (Interface,), __module__="zi.gen")
                IRh = (HookedIC if who == "required" else InterfaceClass)("IRh", (Interface,), __module__="zi.gen")
                nm = HookedName("n") if who == "name" else "n"
                reg = mkreg(flavour, lambda kind, lk, compute: compute())
                state["reg"] = reg
                reg.register((IRh,), IPh, "n", fac1)
                reg.subscribe((IRh,), IPh, fac1)

                @implementer(IRh)
                class ObH:
                    pass
                obh = ObH()

                def ask_h():
                    if ep == "lookup":
                        return reg.lookup((IRh,), IPh, nm)
                    if ep == "lookup1":
                        return reg.lookup1(IRh, IPh, nm)
                    if ep == "lookupAll":
                        return tuple(sorted(reg.lookupAll((IRh,), IPh)))
                    if ep == "subscriptions":
                        return tuple(reg.subscriptions((IRh,), IPh))
                    if ep == "queryAdapter":
                        return reg.queryAdapter(obh, IPh, nm)
                    if ep == "adapter_hook":
                        return reg.adapter_hook(IPh, obh, nm)
                    return reg.queryMultiAdapter((obh,), IPh, nm)
                want = {"lookup": fac1, "lookup1": fac1, "lookupAll": (("n", fac1),), "subscriptions": (fac1,)}.get(ep, "adapter-1")
                for warm in (False, True):
                    if warm:
                        ask_h()
                    state["armed"] = True
                    del state["pool"][:]
                    first = ask_h()
                    state["armed"] = False
                    dirty = [d for d in state["pool"] if d]
                    later = ask_h()
                    if dirty:
                        got = "FAIL: while %s hashed / truth-tested its %s the registry was mutated; a dictionary created by that code afterwards was written by the lookup: %r" % (ep, who, dirty[0])
                    elif first != want or later != want:
                        got = "FAIL: %s interrupted while hashing its %s answered %r then %r; the registry holds %r before and after" % (ep, who, first, later, want)
                    if got != "ok":
                        break
            elif scen == "stale-rebase":
                # a chain T <- M <- B; while B's uncached lookup is in flight (its answer from T already computed) M is re-based
                # onto T2.  The interrupted call may answer from either chain; every later call answers from T2 and keeps doing so
                # (C06: exactly the registries CURRENTLY reachable).  Also: the re-basing happens before the answer is computed.
                state = {"armed": False, "pre": False}
                base_reg = A.VerifyingAdapterRegistry if flavour == "verifying" else A.AdapterRegistry
                T, T2 = base_reg(), base_reg()
                M = base_reg((T,))
                for R_, fac in ((T, fac1), (T2, fac2)):
                    R_.register((IR,), IP, "", fac)
                    R_.subscribe((IR,), IP, fac)

                def hook(kind, lk, compute):
                    if not state["armed"]:
                        return compute()
                    state["armed"] = False
                    if state["pre"]:
                        M.__bases__ = (T2,)
                        return compute()
                    r = compute()
                    M.__bases__ = (T2,)
                    return r
                B = mkreg(flavour, hook)
                B.__bases__ = (M,)
                old, new = expect(ep, fac1), expect(ep, fac2)
                for pre in (False, True):
                    M.__bases__ = (T,)
                    warm = ask(B, ep, ob)
                    B.changed(B) if flavour == "push" else B._v_lookup.changed(None)     # cold caches again, same chain
                    state["armed"], state["pre"] = True, pre
                    first = ask(B, ep, ob)
                    later = [ask(B, ep, ob) for _ in range(3)]
                    if warm != old:
                        got = "FAIL: before the re-basing %s answers %r, the chain holds %r" % (ep, warm, old)
                    elif pre and first != new and flavour == "push":
                        # (a generation-checking registry has verified its chain before the uncached walk started: the
                        # interrupted call itself may still answer from the chain as it was)
                        got = "FAIL: %s computed after a base registry was re-based answers %r, the current chain holds %r" % (ep, first, new)
                    elif first not in (old, new):
                        got = "FAIL: the interrupted %s returned %r, neither %r nor %r" % (ep, first, old, new)
                    elif any(x != new for x in later):
                        got = "FAIL: after a base registry was re-based during an uncached %s, later calls keep answering %r; the registries currently reachable hold %r" % (ep, later, new)
                    if got != "ok":
                        break
            elif scen == "leak2":
                # an uncached lookup that RAISES while the cache for the same provided interface is warm; then the registration goes
                # away: nothing may keep the removed component alive
                import weakref

                class Boom2(Exception):
                    pass
                IR2 = InterfaceClass("IR2", (IR,), __module__="zi.gen")
                state = {"boom": False}

                def hook(kind, lk, compute):
                    if state["boom"]:
                        raise Boom2()
                    return compute()
                reg = mkreg(flavour, hook)
                dead = []
                for rnd_ in range(40):
                    fac = mkfac("leak-%d" % rnd_)
                    w = weakref.ref(fac)
                    reg.register((IR,), IP, "", fac)
                    reg.subscribe((IR,), IP, fac)
                    ask(reg, ep, ob)                               # warm: the cached answer refers to fac
                    state["boom"] = True
                    try:
                        if ep in ("lookup", "lookup1", "queryAdapter", "adapter_hook", "queryMultiAdapter"):
                            reg.lookup((IR2,), IP, "")
                        elif ep == "lookupAll":
                            reg.lookupAll((IR2,), IP)
                        else:
                            reg.subscriptions((IR2,), IP)
                    except Boom2:
                        pass
                    state["boom"] = False
                    reg.unregister((IR,), IP, "", fac)
                    reg.unsubscribe((IR,), IP, fac)
                    del fac
                    gc.collect()
                    dead.append(w() is None)
                if not all(dead):
                    got = "FAIL: %d of %d unregistered components stay alive after an uncached %s raised while the cache for that interface was warm (a reference to the cache is leaked)" % (dead.count(False), len(dead), ep)
            elif scen == "leak":
                class Boom(Exception):
                    pass

                def bad_factory(*a):
                    raise Boom()
                reg = mkreg(flavour, lambda kind, lk, compute: compute())
                reg.register((IR,), IP, "", bad_factory)
                sentinel = object()
                req = (IR,)

                def once():
                    try:
                        ask(reg, ep, ob)
                    except Boom:
                        pass
                    try:
                        reg.lookup(req, [], "")            # unhashable `provided`: _getcache fails after `required` was made a tuple
                    except TypeError:
                        pass
                for _ in range(5):
                    once()
                gc.collect()
                r0 = (sys.getrefcount(bad_factory), sys.getrefcount(req), sys.getrefcount(IR), sys.getrefcount(ob))
                for _ in range(300):
                    once()
                gc.collect()
                r1 = (sys.getrefcount(bad_factory), sys.getrefcount(req), sys.getrefcount(IR), sys.getrefcount(ob))
                if any(b - a > 5 for a, b in zip(r0, r1)):
                    got = "FAIL: reference counts grew over 300 failing %s calls: %r -> %r (factory, required, interface, object)" % (ep, r0, r1)
            elif scen == "leak3":
                # the UNCACHED callback itself raises on a cache miss (seeded change o11a: the error branch of the C `_subscriptions` kept the
                # tuple made from `required`): nothing the failed call built or borrowed may stay referenced
                class Boom3(Exception):
                    pass

                def hook3(kind, lk, compute):
                    raise Boom3()
                reg = mkreg(flavour, hook3)
                req3, reql3 = (IR,), [IR]

                def once3():
                    for r_ in (req3, reql3):
                        try:
                            if ep == "lookupAll":
                                reg.lookupAll(r_, IP)
                            elif ep == "subscriptions":
                                reg.subscriptions(r_, IP)
                            else:
                                reg.lookup(r_, IP, "")
                        except Boom3:
                            pass
                for _ in range(5):
                    once3()
                gc.collect()
                r0 = (sys.getrefcount(req3), sys.getrefcount(IR), sys.getrefcount(IP))
                for _ in range(300):
                    once3()
                gc.collect()
                r1 = (sys.getrefcount(req3), sys.getrefcount(IR), sys.getrefcount(IP))
                if any(b_ - a_ > 5 for a_, b_ in zip(r0, r1)):
                    got = "FAIL: reference counts grew over 600 %s calls whose uncached callback raises: %r -> %r (required tuple, required interface, provided)" % (ep, r0, r1)
            elif scen == "lazyreq":
                reg = mkreg(flavour, lambda kind, lk, compute: compute())
                reg.register((IR,), IP, "", fac1)
                reg.subscribe((IR,), IP, fac1)

                class Lazy:
                    def __iter__(self):
                        reg.register((IR,), IP, "", fac2)
                        reg.unsubscribe((IR,), IP, fac1)
                        reg.subscribe((IR,), IP, fac2)
                        yield IR
                ask(reg, "lookup" if ep == "lookup1" else ep, ob) if ep not in ("queryAdapter", "adapter_hook", "queryMultiAdapter") else None
                if ep in ("lookup", "lookup1"):
                    first = reg.lookup(Lazy(), IP, "")
                    want = fac2
                elif ep == "lookupAll":
                    first = tuple(sorted(reg.lookupAll(Lazy(), IP)))
                    want = (("", fac2),)
                else:
                    first = tuple(reg.subscriptions(Lazy(), IP))
                    want = (fac2,)
                old = {fac2: fac1}.get(want, None) if ep in ("lookup", "lookup1") else ((("", fac1),) if ep == "lookupAll" else (fac1,))
                later = ask(reg, ep, ob)
                if first not in (want, old):
                    got = "FAIL: `required` mutated the registry while being iterated; the lookup answered %r, neither the old %r nor the new %r" % (first, old, want)
                elif later != want:
                    got = "FAIL: `required` mutated the registry while being iterated; afterwards %s answers %r, the registry holds %r" % (ep, later, want)
                else:
                    # which of the two the interrupted call answered is part of the output: C10 compares it between the twins (both
                    # resolve `required` before they fetch the cache since repair 7ee6ae2, so both answer the new state)
                    got = "ok interrupted=%s" % ("new" if first == want else "old")
            elif scen == "descr":
                reg = mkreg(flavour, lambda kind, lk, compute: compute())
                reg.register((IR,), IP, "", fac1)

                class D:
                    def __get__(self, inst, cls):
                        reg.register((IR,), IP, "", fac2)
                        return providedBy(Ob())

                class Ob2:
                    __providedBy__ = D()
                reg.queryAdapter(Ob(), IP, "")              # warm
                first = ask(reg, ep, Ob2())
                later = ask(reg, ep, Ob())
                if first not in ("adapter-1", "adapter-2") or later != "adapter-2":
                    got = "FAIL: __providedBy__ re-registered during %s; answers %r then %r, the registry holds adapter-2" % (ep, first, later)
            elif scen == "midwalk":
                IP1 = InterfaceClass("IP1", (IP,), __module__="zi.gen")
                IP2 = InterfaceClass("IP2", (IP,), __module__="zi.gen")
                state = {"armed": False}

                class HookDict(dict):
                    def get(self, k, d=None):
                        if state["armed"] and (k is IP1 or k is IP2):
                            state["armed"] = False
                            state["visited"] = k
                            state["reg"].unregister((IR,), k, "")       # the candidate being visited loses its only registration
                        return dict.get(self, k, d)
                reg = mkreg(flavour, lambda kind, lk, compute: compute(), HookDict)
                state["reg"] = reg
                reg.register((IR,), IP1, "", fac1)
                reg.register((IR,), IP2, "", fac2)
                facs = {id(IP1): fac1, id(IP2): fac2}
                state["armed"] = True
                first = ask(reg, ep, ob)
                later = [ask(reg, ep, ob) for _ in range(2)]
                if "visited" not in state:
                    got = "FAIL: harness: the mapping hook never fired"
                else:
                    k = state["visited"]
                    other = IP2 if k is IP1 else IP1
                    old, new = expect(ep, facs[id(k)]), expect(ep, facs[id(other)])
                    if first not in (old, new):
                        got = "FAIL: the %s interrupted while visiting candidate %s returned %r, neither the answer before (%r) nor after (%r) that candidate's registration was removed" % (
                            ep, k.__name__, first, old, new)
                    elif any(x != new for x in later):
                        got = "FAIL: after the mutation %s answers %r, the registry holds %r" % (ep, later, new)
            elif scen == "midrebase":
                # while the uncached lookup walks the registration tables (storage hook on `.get`; another thread in general), the
                # REQUIRED interface -- one the lookup object has never been asked about, so it is not watching it yet -- is re-based.
                # The interrupted call may answer for the old or the new hierarchy; every later call answers for the new one
                IA2 = InterfaceClass("IA2", (Interface,), __module__="zi.gen")
                IB2 = InterfaceClass("IB2", (Interface,), __module__="zi.gen")
                ISm = InterfaceClass("ISm", (IA2,), __module__="zi.gen")
                state = {"armed": False}

                class HookDict(dict):
                    def get(self, k, d=None):
                        if state["armed"]:
                            state["armed"] = False
                            ISm.__bases__ = (IB2,)
                        return dict.get(self, k, d)
                reg = mkreg(flavour, lambda kind, lk, compute: compute(), HookDict)
                fa, fb = mkfac("for-IA2"), mkfac("for-IB2")
                reg.register((IA2,), IP, "", fa)
                reg.register((IB2,), IP, "", fb)
                reg.subscribe((IA2,), IP, fa)
                reg.subscribe((IB2,), IP, fb)
                obm = implementer(ISm)(type("ObM", (), {}))()

                def askm():
                    if ep == "lookup":
                        return reg.lookup((ISm,), IP, "")
                    if ep == "lookup1":
                        return reg.lookup1(ISm, IP, "")
                    if ep == "lookupAll":
                        return tuple(sorted(reg.lookupAll((ISm,), IP)))
                    if ep == "subscriptions":
                        return tuple(reg.subscriptions((ISm,), IP))
                    if ep == "queryAdapter":
                        return reg.queryAdapter(obm, IP, "")
                    if ep == "adapter_hook":
                        return reg.adapter_hook(IP, obm, "")
                    return reg.queryMultiAdapter((obm,), IP, "")
                state["armed"] = True
                first = askm()
                later = [askm() for _ in range(2)]
                old, new = expect(ep, fa), expect(ep, fb)
                if state["armed"]:
                    got = "FAIL: harness: the mapping hook never fired"
                elif first not in (old, new):
                    got = "FAIL: the %s interrupted by a re-basing of its required interface returned %r, neither %r nor %r" % (ep, first, old, new)
                elif any(x != new for x in later):
                    got = ("FAIL: the required interface was re-based while %s walked the tables (the lookup object was not watching it yet); "
                           "later calls keep answering %r, the registrations say %r for the current hierarchy" % (ep, later, new))
            elif scen == "shrink":
                state = {"armed": False}
                reg = mkreg(flavour, lambda kind, lk, compute: compute())
                state["reg"] = reg
                subs_ep = ep == "subscriptions"
                if subs_ep:
                    reg.subscribe((IR,), IP, fac1)
                    reg.subscribe((), IP, fac2)
                else:
                    reg.register((IR,), IP, "", fac1)
                    reg.register((), IP, "lower-arity", fac2)
                # (the registration of a LOWER arity for the same provided interface keeps the extendors entry non-empty after the
                # removal, so that the walk does go on to fetch the table of the arity that has just been pruned away)

                class HookExt(dict):
                    def get(self, k, d=None):
                        if state["armed"]:
                            state["armed"] = False
                            if subs_ep:
                                reg.unsubscribe((IR,), IP, fac1)
                            else:
                                reg.unregister((IR,), IP, "")
                        return dict.get(self, k, d)
                lk = reg._v_lookup
                lk._extendors = HookExt(lk._extendors)
                state["armed"] = True
                first = ask(reg, ep, ob)
                if state["armed"]:
                    got = "FAIL: harness: the extendors hook never fired"
                else:
                    later = [ask(reg, ep, ob) for _ in range(2)]
                    old, new = expect(ep, fac1), expect(ep, None)
                    if first not in (old, new):
                        got = "FAIL: the interrupted %s returned %r, neither the answer before (%r) nor after (%r) the removal" % (ep, first, old, new)
                    elif any(x != new for x in later):
                        got = "FAIL: after the removal %s answers %r, the registry holds nothing" % (ep, later)
            elif scen == "pychanged":
                state = {}

                class SpecClass(InterfaceClass):
                    def unsubscribe(self, dependent):
                        reg = state.get("reg")
                        if reg is not None and state.get("arm"):
                            state["arm"] = False
                            reg.lookup((IOther,), IP, "")          # a lookup while changed() walks its bookkeeping
                        return InterfaceClass.unsubscribe(self, dependent)
                IS = SpecClass("IS", (IR,), __module__="zi.gen")
                IS2 = SpecClass("IS2", (IR,), __module__="zi.gen")
                IOther = InterfaceClass("IOther", (IR,), __module__="zi.gen")
                reg = mkreg(flavour, lambda kind, lk, compute: compute())
                state["reg"] = reg
                reg.register((IR,), IP, "", fac1)
                for s in (IS, IS2):
                    reg.lookup((s,), IP, "")
                state["arm"] = True
                reg.register((IR,), IP, "", fac2)                  # changed(): unsubscribes from IS, IS2 — re-entered
                a = reg.lookup((IS,), IP, "")
                reg.register((IR,), IP, "", fac1)                  # invalidation must still work afterwards
                b = reg.lookup((IS,), IP, "")
                if a is not fac2 or b is not fac1:
                    got = "FAIL: after a re-entered changed() lookups answer %r then %r" % (a, b)
            else:
                got = "bad"
        except Exception as e:  # noqa
            got = "FAIL: %s raised %s: %s" % (line, type(e).__name__, str(e)[:120].replace("\n", " "))
        out.write(got + "\n")
