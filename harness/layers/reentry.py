"""C11 runtime tie: re-entrancy injection at the callback points of the lookup functions, on the real code.

One input line = one scenario `<scenario> <flavour push|verifying> <entry point>`; one output line: `ok` or `FAIL: …`.
Scenarios
  stray     the overridden `_uncached_*` runs `self.changed(None)` and then allocates fresh dicts: a store through a
            dangling cache pointer lands in one of them (CPython's dict free list) — none may be touched
  stale     the overridden `_uncached_*` computes the answer and THEN mutates the registry: the interrupted lookup may
            return the old or the new answer, but every later lookup must return the new one
  stale-pre the mutation happens BEFORE the answer is computed: the answer must be the new one, and stay
  leak      a factory / `_uncached_lookup` that raises, an unhashable `provided`: reference counts stay put
  lazyreq   `required` is a lazy iterable that mutates the registry while it is being turned into a tuple
  descr     a `__providedBy__` descriptor that mutates the registry during queryAdapter
  pychanged a specification whose `unsubscribe` performs a lookup while `changed()` iterates its bookkeeping
  midwalk   the registry's `_mappingType` (a documented extension point, e.g. a persistent mapping) runs code on `.get`:
            while the uncached lookup walks the candidates for the provided interface, the registration of the
            candidate being visited is removed
  shrink    between the uncached lookup's check of how many arities a registry holds and its fetch of that arity's
            table, the last registration of the arity is removed (what a mutator thread can do at that point; injected
            through the lookup object's extendors table, which is consulted in between)"""
import gc
import sys


def run(lines, out, args):
    from zope.interface import Interface, implementer, providedBy
    from zope.interface.interface import InterfaceClass
    from zope.interface import adapter as A

    class IR(Interface):
        pass

    class IP(Interface):
        pass

    def mkreg(flavour, hook, mapping=None):
        """a registry whose lookup object calls `hook(kind, self, compute)` inside _uncached_*"""
        base_lookup = A.VerifyingAdapterLookup if flavour == "verifying" else A.AdapterLookup
        base_reg = A.VerifyingAdapterRegistry if flavour == "verifying" else A.AdapterRegistry

        class L(base_lookup):
            def _uncached_lookup(self, required, provided, name=""):
                return hook("lookup", self, lambda: base_lookup._uncached_lookup(self, required, provided, name))

            def _uncached_lookupAll(self, required, provided):
                return hook("lookupAll", self, lambda: base_lookup._uncached_lookupAll(self, required, provided))

            def _uncached_subscriptions(self, required, provided):
                return hook("subscriptions", self, lambda: base_lookup._uncached_subscriptions(self, required, provided))

        class Reg(base_reg):
            LookupClass = L
            if mapping is not None:
                _mappingType = mapping
        return Reg()

    def ask(reg, ep, ob=None):
        if ep == "lookup":
            return reg.lookup((IR,), IP, "")
        if ep == "lookup1":
            return reg.lookup1(IR, IP, "")
        if ep == "lookupAll":
            return tuple(sorted(reg.lookupAll((IR,), IP)))
        if ep == "subscriptions":
            return tuple(reg.subscriptions((IR,), IP))
        if ep == "queryAdapter":
            return reg.queryAdapter(ob, IP, "")
        if ep == "adapter_hook":
            return reg.adapter_hook(IP, ob, "")
        if ep == "queryMultiAdapter":
            return reg.queryMultiAdapter((ob,), IP, "")
        raise KeyError(ep)

    @implementer(IR)
    class Ob:
        pass

    def fac1(*a):
        return "adapter-1"

    def fac2(*a):
        return "adapter-2"

    def expect(ep, fac):
        """the uncached answer when `fac` (or nothing) is registered / subscribed"""
        if ep in ("lookup", "lookup1"):
            return fac
        if ep == "lookupAll":
            return (("", fac),) if fac else ()
        if ep == "subscriptions":
            return (fac,) if fac else ()
        return fac() if fac else None

    for line in lines:
        f = line.split()
        scen, flavour, ep = f[0], f[1], f[2] if len(f) > 2 else "lookup"
        got = "ok"
        try:
            ob = Ob()
            if scen == "stray":
                pool = []

                def hook(kind, lk, compute):
                    r = compute()
                    lk.changed(None)                    # what a concurrent / re-entrant mutation does to the caches
                    pool.extend({} for _ in range(24))  # the freed dicts are handed out again
                    return r
                reg = mkreg(flavour, hook)
                reg.register((IR,), IP, "", fac1)
                reg.subscribe((IR,), IP, fac1)
                ask(reg, ep, ob)
                dirty = [d for d in pool if d]
                if dirty:
                    got = "FAIL: a dictionary allocated after the caches were cleared received a stray write: %r" % (dirty[0],)
            elif scen in ("stale", "stale-pre"):
                state = {"armed": True}

                def mutate(reg):
                    reg.register((IR,), IP, "", fac2)              # replace the registration
                    for x in list(reg.subscriptions((), IP)):
                        pass
                    reg.unsubscribe((IR,), IP, fac1)
                    reg.subscribe((IR,), IP, fac2)

                def hook(kind, lk, compute):
                    if not state["armed"]:
                        return compute()
                    state["armed"] = False
                    if scen == "stale-pre":
                        mutate(state["reg"])
                        return compute()
                    r = compute()
                    mutate(state["reg"])
                    return r
                reg = mkreg(flavour, hook)
                state["reg"] = reg
                reg.register((IR,), IP, "", fac1)
                reg.subscribe((IR,), IP, fac1)
                first = ask(reg, ep, ob)
                later = [ask(reg, ep, ob) for _ in range(3)]
                old, new = expect(ep, fac1), expect(ep, fac2)
                if scen == "stale-pre" and first != new:
                    got = "FAIL: answer %r computed after the mutation is not the new one %r" % (first, new)
                elif first not in (old, new):
                    got = "FAIL: the interrupted %s returned %r, neither the answer before (%r) nor after (%r) the mutation" % (ep, first, old, new)
                elif any(x != new for x in later):
                    got = "FAIL: after the mutation %s keeps answering %r, the registry now holds %r (an answer computed before the mutation survived in the cache)" % (ep, later, new)
            elif scen == "leak":
                class Boom(Exception):
                    pass

                def bad_factory(*a):
                    raise Boom()
                reg = mkreg(flavour, lambda kind, lk, compute: compute())
                reg.register((IR,), IP, "", bad_factory)
                sentinel = object()
                req = (IR,)

                def once():
                    try:
                        ask(reg, ep, ob)
                    except Boom:
                        pass
                    try:
                        reg.lookup(req, [], "")            # unhashable `provided`: _getcache fails after `required` was made a tuple
                    except TypeError:
                        pass
                for _ in range(5):
                    once()
                gc.collect()
                r0 = (sys.getrefcount(bad_factory), sys.getrefcount(req), sys.getrefcount(IR), sys.getrefcount(ob))
                for _ in range(300):
                    once()
                gc.collect()
                r1 = (sys.getrefcount(bad_factory), sys.getrefcount(req), sys.getrefcount(IR), sys.getrefcount(ob))
                if any(b - a > 5 for a, b in zip(r0, r1)):
                    got = "FAIL: reference counts grew over 300 failing %s calls: %r -> %r (factory, required, interface, object)" % (ep, r0, r1)
            elif scen == "lazyreq":
                reg = mkreg(flavour, lambda kind, lk, compute: compute())
                reg.register((IR,), IP, "", fac1)
                reg.subscribe((IR,), IP, fac1)

                class Lazy:
                    def __iter__(self):
                        reg.register((IR,), IP, "", fac2)
                        reg.unsubscribe((IR,), IP, fac1)
                        reg.subscribe((IR,), IP, fac2)
                        yield IR
                ask(reg, "lookup" if ep == "lookup1" else ep, ob) if ep not in ("queryAdapter", "adapter_hook", "queryMultiAdapter") else None
                if ep in ("lookup", "lookup1"):
                    first = reg.lookup(Lazy(), IP, "")
                    want = fac2
                elif ep == "lookupAll":
                    first = tuple(sorted(reg.lookupAll(Lazy(), IP)))
                    want = (("", fac2),)
                else:
                    first = tuple(reg.subscriptions(Lazy(), IP))
                    want = (fac2,)
                old = {fac2: fac1}.get(want, None) if ep in ("lookup", "lookup1") else ((("", fac1),) if ep == "lookupAll" else (fac1,))
                later = ask(reg, ep, ob)
                if first not in (want, old):
                    got = "FAIL: `required` mutated the registry while being iterated; the lookup answered %r, neither the old %r nor the new %r" % (first, old, want)
                elif later != want:
                    got = "FAIL: `required` mutated the registry while being iterated; afterwards %s answers %r, the registry holds %r" % (ep, later, want)
            elif scen == "descr":
                reg = mkreg(flavour, lambda kind, lk, compute: compute())
                reg.register((IR,), IP, "", fac1)

                class D:
                    def __get__(self, inst, cls):
                        reg.register((IR,), IP, "", fac2)
                        return providedBy(Ob())

                class Ob2:
                    __providedBy__ = D()
                reg.queryAdapter(Ob(), IP, "")              # warm
                first = ask(reg, ep, Ob2())
                later = ask(reg, ep, Ob())
                if first not in ("adapter-1", "adapter-2") or later != "adapter-2":
                    got = "FAIL: __providedBy__ re-registered during %s; answers %r then %r, the registry holds adapter-2" % (ep, first, later)
            elif scen == "midwalk":
                IP1 = InterfaceClass("IP1", (IP,), __module__="zi.gen")
                IP2 = InterfaceClass("IP2", (IP,), __module__="zi.gen")
                state = {"armed": False}

                class HookDict(dict):
                    def get(self, k, d=None):
                        if state["armed"] and (k is IP1 or k is IP2):
                            state["armed"] = False
                            state["visited"] = k
                            state["reg"].unregister((IR,), k, "")       # the candidate being visited loses its only registration
                        return dict.get(self, k, d)
                reg = mkreg(flavour, lambda kind, lk, compute: compute(), HookDict)
                state["reg"] = reg
                reg.register((IR,), IP1, "", fac1)
                reg.register((IR,), IP2, "", fac2)
                facs = {id(IP1): fac1, id(IP2): fac2}
                state["armed"] = True
                first = ask(reg, ep, ob)
                later = [ask(reg, ep, ob) for _ in range(2)]
                if "visited" not in state:
                    got = "FAIL: harness: the mapping hook never fired"
                else:
                    k = state["visited"]
                    other = IP2 if k is IP1 else IP1
                    old, new = expect(ep, facs[id(k)]), expect(ep, facs[id(other)])
                    if first not in (old, new):
                        got = "FAIL: the %s interrupted while visiting candidate %s returned %r, neither the answer before (%r) nor after (%r) that candidate's registration was removed" % (
                            ep, k.__name__, first, old, new)
                    elif any(x != new for x in later):
                        got = "FAIL: after the mutation %s answers %r, the registry holds %r" % (ep, later, new)
            elif scen == "shrink":
                state = {"armed": False}
                reg = mkreg(flavour, lambda kind, lk, compute: compute())
                state["reg"] = reg
                subs_ep = ep == "subscriptions"
                if subs_ep:
                    reg.subscribe((IR,), IP, fac1)
                else:
                    reg.register((IR,), IP, "", fac1)

                class HookExt(dict):
                    def get(self, k, d=None):
                        if state["armed"]:
                            state["armed"] = False
                            if subs_ep:
                                reg.unsubscribe((IR,), IP, fac1)
                            else:
                                reg.unregister((IR,), IP, "")
                        return dict.get(self, k, d)
                lk = reg._v_lookup
                lk._extendors = HookExt(lk._extendors)
                state["armed"] = True
                first = ask(reg, ep, ob)
                if state["armed"]:
                    got = "FAIL: harness: the extendors hook never fired"
                else:
                    later = [ask(reg, ep, ob) for _ in range(2)]
                    old, new = expect(ep, fac1), expect(ep, None)
                    if first not in (old, new):
                        got = "FAIL: the interrupted %s returned %r, neither the answer before (%r) nor after (%r) the removal" % (ep, first, old, new)
                    elif any(x != new for x in later):
                        got = "FAIL: after the removal %s answers %r, the registry holds nothing" % (ep, later)
            elif scen == "pychanged":
                state = {}

                class SpecClass(InterfaceClass):
                    def unsubscribe(self, dependent):
                        reg = state.get("reg")
                        if reg is not None and state.get("arm"):
                            state["arm"] = False
                            reg.lookup((IOther,), IP, "")          # a lookup while changed() walks its bookkeeping
                        return InterfaceClass.unsubscribe(self, dependent)
                IS = SpecClass("IS", (IR,), __module__="zi.gen")
                IS2 = SpecClass("IS2", (IR,), __module__="zi.gen")
                IOther = InterfaceClass("IOther", (IR,), __module__="zi.gen")
                reg = mkreg(flavour, lambda kind, lk, compute: compute())
                state["reg"] = reg
                reg.register((IR,), IP, "", fac1)
                for s in (IS, IS2):
                    reg.lookup((s,), IP, "")
                state["arm"] = True
                reg.register((IR,), IP, "", fac2)                  # changed(): unsubscribes from IS, IS2 — re-entered
                a = reg.lookup((IS,), IP, "")
                reg.register((IR,), IP, "", fac1)                  # invalidation must still work afterwards
                b = reg.lookup((IS,), IP, "")
                if a is not fac2 or b is not fac1:
                    got = "FAIL: after a re-entered changed() lookups answer %r then %r" % (a, b)
            else:
                got = "bad"
        except Exception as e:  # noqa
            got = "FAIL: %s raised %s: %s" % (line, type(e).__name__, str(e)[:120].replace("\n", " "))
        out.write(got + "\n")
