"""Executor for the adaptation layer (C14): `I(obj[, alternate])` with controlled __conform__, hooks, custom __adapt__."""


class Boom(Exception):
    def __init__(self, eid):
        Exception.__init__(self, eid)
        self.eid = eid


class BoomA(AttributeError):
    """an AttributeError raised by the *body* of __conform__ / a hook / __adapt__: must propagate like any other"""

    def __init__(self, eid):
        AttributeError.__init__(self, eid)
        self.eid = eid


class BoomT(TypeError):
    """a TypeError raised by the *body* of __conform__: must propagate (only the call machinery's own TypeError, from
    calling an unbound method of a class object, is treated as "no __conform__")"""

    def __init__(self, eid):
        TypeError.__init__(self, eid)
        self.eid = eid


class BoomS(StopIteration):
    """a StopIteration raised by the body of a hook (`next(...)` on an empty iterator): an exception like any other"""

    def __init__(self, eid):
        StopIteration.__init__(self, eid)
        self.eid = eid


class Val:
    """what __conform__ / a hook / __adapt__ / a factory answers.  Every odd-numbered one is FALSY (an empty container-like
    adapter is a legal adapter: "non-None", not "true", is what the statement says)"""

    def __init__(self, k):
        self.k = k

    def __bool__(self):
        return self.k % 2 == 0


def run(lines, out, args):
    from zope.interface import Interface, directlyProvides, interfacemethod
    from zope.interface import interface as zi
    from zope.interface.adapter import AdapterRegistry
    hooks_list = zi.adapter_hooks
    saved = list(hooks_list)
    vals = {}

    def val(k):
        if k == 0:
            return None            # value 0 stands for Python's None as an explicit alternate
        if k not in vals:
            vals[k] = Val(k)
        return vals[k]

    class IX(Interface):
        pass

    class IX2(Interface):
        pass

    for line in lines:
        f = line.split()
        if f[0] != "call":
            out.write("bad\n")
            continue
        cf, prov, hs, alt, cu = f[1:6]
        log = []
        raised = {}

        def boom(e, attr=False):
            raised[e] = (BoomS if attr == "S" else BoomT if attr == "T" else BoomA if attr else Boom)(e)
            return raised[e]

        depth = [0]

        # the object
        if cf == "a":
            Ob = type("Ob", (), {})
        elif cf == "E":
            def getter(self):
                raise AttributeError("__conform__")
            Ob = type("Ob", (), {"__conform__": property(getter)})
        elif cf.startswith("A"):
            def getter(self, e=int(cf[1:])):
                raise boom(e)
            Ob = type("Ob", (), {"__conform__": property(getter)})
        elif cf[0] == "p":
            # what providedBy(obj) answers is not a specification object but a stand-in (a security proxy): asked whether it
            # extends the interface, its answer's truth test raises.  That exception is the caller's
            eid_ = int(cf[1:])

            class Raiser:
                def __bool__(self):
                    raise boom(eid_)

            class ProxySpec:
                """stands in for a specification: callable (`spec(iface)`), and with an `_implied` that can be asked `in`"""
                def __call__(self, iface):
                    return Raiser()

                def extends(self, iface, strict=True):      # (what makes providedBy() take it for a specification)
                    return Raiser()

                class _Implied:
                    def __contains__(self, k):
                        raise boom(eid_)

                    def get(self, k, d=None):
                        raise boom(eid_)
                _implied = _Implied()
            Ob = type("Ob", (), {"__providedBy__": ProxySpec()})
        elif cf[0] == "t":
            # the object is a TUPLE (an instance of a tuple subclass with 0, 1 or 2 items): it is the object, not an argument list
            Ob = None
        elif cf[0] == "Y":
            # the object is super(C, c): a base class after C carries declarations of its own (so the class has the
            # specification descriptor); the interface is declared (when `prov`) after C (Ya), on C (Yd) or on c (Yi)
            Ob = None
        elif cf == "K":
            # the object is a class whose METACLASS is what implements the interface (when `provided`)
            Meta = type("Meta", (type,), {})
            Ob = None
        elif cf == "U":
            # the object is a class whose *instances* conform: calling the unbound method with the interface alone is
            # the call machinery's TypeError, which the statement treats as "no __conform__"
            def conform(self, iface):
                log.append("c")
                return val(99)
            Ob = type("Ob", (), {"__conform__": conform})
        elif cf[0] in "ksm":
            # the object being adapted is a CLASS whose __conform__ can be called on the class itself: a classmethod (k), a
            # staticmethod (s), a method of its metaclass (m)
            def conformc(iface, cf=cf[1:]):
                log.append("c")
                if iface is not I:
                    log.append("WRONG-ARG")
                if cf == "n":
                    return None
                if cf.startswith("v"):
                    return val(int(cf[1:]))
                raise boom(int(cf[1:]), "T" if cf[0] == "T" else cf[0] == "Q")
            if cf[0] == "k":
                Ob = type("Ob", (), {"__conform__": classmethod(lambda cls, iface: conformc(iface))})
            elif cf[0] == "s":
                Ob = type("Ob", (), {"__conform__": staticmethod(conformc)})
            else:
                MetaC = type("MetaC", (type,), {"__conform__": lambda cls, iface: conformc(iface)})
                Ob = MetaC("Ob", (), {})
        elif cf.startswith("i"):
            # __conform__ is a plain function stored on the instance (no __self__)
            def conformi(iface, cf=cf[1:]):
                log.append("c")
                if iface is not I:
                    log.append("WRONG-ARG")
                if cf == "n":
                    return None
                if cf.startswith("v"):
                    return val(int(cf[1:]))
                raise boom(int(cf[1:]), "T" if cf[0] == "T" else cf[0] == "Q")
            Ob = type("Ob", (), {})
        else:
            def conform(self, iface, cf=cf):
                log.append("c")
                if iface is not I:
                    log.append("WRONG-ARG")
                if cf == "n":
                    return None
                if cf.startswith("v"):
                    return val(int(cf[1:]))
                raise boom(int(cf[1:]), "T" if cf[0] == "T" else cf[0] == "Q")
            Ob = type("Ob", (), {"__conform__": conform})
        if cf[0] == "t":
            TT = type("TT", (tuple,), {})
            ob = TT([Val(900 + j) for j in range(int(cf[1]))])
        elif cf[0] == "Y":
            from zope.interface import classImplements
            YB = type("YB", (), {})
            YC = type("YC", (YB,), {})
            classImplements(YB, IX2)
            yc = YC()
            ob = super(YC, yc)
        else:
            ob = Ob if cf == "U" or cf[0] in "ksm" else Meta("Cold", (), {}) if cf == "K" else Ob()
        if cf.startswith("i"):
            ob.__conform__ = conformi
        # the interface (custom __adapt__ through interfacemethod, or the plain one)
        if cu == "-":
            I = IX
        else:
            def mk(cu=cu):
                inherited = cu[0] == "I"
                tok = cu[1:] if inherited else cu

                class IC(Interface):
                    @interfacemethod
                    def __adapt__(self, obj):
                        log.append("x")
                        if obj is not ob:
                            log.append("WRONG-ARG")
                        if tok == "n":
                            return None
                        if tok.startswith("v"):
                            return val(int(tok[1:]))
                        raise boom(int(tok[1:]), tok[0] == "Q")
                if not inherited:
                    return IC

                # the custom __adapt__ is inherited; the derived interface defines another interfacemethod of its own
                class ID(IC):
                    @interfacemethod
                    def helper(self):
                        return 1
                return ID
            I = mk()
        # provided-check is observed through a providedBy that logs
        if prov == "1" and cf == "K":
            from zope.interface import classImplements, implementedBy
            classImplements(Meta, I)
            implementedBy(ob)           # what adapting an instance of the class does on the way: gives the class its own descriptor
        elif prov == "1" and cf[0] == "Y":
            if cf == "Yi":
                directlyProvides(yc, I)
            else:
                classImplements(YB if cf == "Ya" else YC, I)
        elif prov == "1":
            directlyProvides(ob, I)
        # hooks
        hl = []
        registry = None
        qexpected = None
        for k, t in enumerate([] if hs == "-" else hs.split(",")):
            if t.startswith("R") or t.startswith("W"):
                # a real registry's adapter_hook; R0 = nothing registered, Rn = factory returning None, Rv<k> = factory returning a value;
                # W..: a generation-checking registry below a base registry: asked once (answer cached), THEN the base gets the registration
                if t.startswith("W"):
                    from zope.interface.adapter import VerifyingAdapterRegistry
                    target = VerifyingAdapterRegistry()
                    registry = VerifyingAdapterRegistry((target,))
                    hooks_list[:] = [registry.adapter_hook]
                    try:
                        I(ob, None)
                    except Exception:  # noqa
                        pass
                    hooks_list[:] = []
                    del log[:]
                else:
                    target = registry = AdapterRegistry()
                if t[1:] != "0":
                    def factory(o, t=t):
                        return None if t[1:] == "n" else val(int(t[2:]))
                    target.register([None], I, "", factory)

                def hook(iface, o, k=k, registry=registry):
                    log.append("h%d" % k)
                    return registry.adapter_hook(iface, o)
                hl.append(hook)
                continue

            def hook(iface, o, k=k, t=t):
                if depth[0]:
                    return None            # inside a nested adaptation started by a hook: stay silent
                log.append("h%d" % k)
                if iface is not I or o is not ob:
                    log.append("WRONG-ARG")
                if t == "N":
                    # returns None, after adapting another object to another interface (which runs the hook loop again)
                    depth[0] += 1
                    try:
                        IX2(Val(-1), None)
                    finally:
                        depth[0] -= 1
                    return None
                if t == "n":
                    return None
                if t.startswith("v"):
                    return val(int(t[1:]))
                raise boom(int(t[1:]), "S" if t[0] == "S" else t[0] == "Q")
            hl.append(hook)
        hooks_list[:] = hl
        # observe the provided check: wrap providedBy on the interface instance is not possible in C; log it by result instead
        try:
            r = I(ob) if alt == "-" else I(ob, val(int(alt)))
            if r is ob:
                got = "self"
            elif isinstance(r, Val):
                got = "val %d" % r.k
            elif r is None:
                got = "val 0"
            else:
                got = "other %r" % (r,)
        except (Boom, BoomA, BoomT, BoomS) as e:
            got = "exc %d" % e.eid if raised.get(e.eid) is e else "exc-copy %d" % e.eid
        except TypeError as e:
            if e.args == ("Could not adapt", ob, I):
                got = "cna"
            else:
                got = "TypeError %r" % (e.args[:1],)
        except Exception as e:   # noqa
            got = "err " + type(e).__name__
        extra = ""
        if registry is not None and cu == "-":
            hooks_list[:] = []
            marker = object()
            q = registry.queryAdapter(ob, I, default=marker if alt == "-" else val(int(alt)))
            qs = "cna" if q is marker else "self" if q is ob else "val %d" % q.k if isinstance(q, Val) else "val 0" if q is None else "other"
            extra = " Q:" + qs
        hooks_list[:] = []
        out.write("%s | %s%s\n" % (got, " ".join(log), extra))
    hooks_list[:] = saved
