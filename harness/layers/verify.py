"""Executor for the verification layer (C17): builds the interface and the candidate described by a line, runs
verifyObject / verifyClass, and — independently of zope.interface.verify — evaluates the statement with
`inspect.signature(...).bind` on every call shape the interface's signature admits.

A signature token is `r.o.v.k` (required, defaulted, *args?, **kw?) optionally followed by a letter that says how the
positional parameters are NAMED (the contract is about call shapes, so the names must not matter — which is exactly why
they are varied):
  (none)  by role:      a0, a1, … for the required ones, b0, b1, … for the defaulted ones (a method's self is the first a)
  p       by position:  p0, p1, … whatever their default-ness (a method's self is called `self`): an implementation that
                        spells the interface's parameter list verbatim, possibly with other defaults
  q       by position, in the opposite order (the same set of names as `p`, permuted)"""
import inspect


_FUNCS = {}


def mkfunc(name, sig, with_self):
    """function objects are shared between lines: the same function may be verified as a plain function attribute
    (its first parameter is an ordinary one) and as a method (its first parameter plays `self`)"""
    (r, o, v, k), naming = sig
    total = r + (1 if with_self else 0)
    key = (name, total, o, v, k) if not naming else (name, with_self, r, o, v, k, naming)
    if key not in _FUNCS:
        body = "pass"
        if naming in ("s", "t"):
            # PEP 570: some leading parameters (all of them for `t`, a prefix that may include defaulted ones for `s`) are
            # positional-only; the body has locals (they follow the parameters in co_varnames)
            ps = ["a%d" % i for i in range(total)] + ["b%d=None" % i for i in range(o)]
            cut = len(ps) if naming == "t" else max(1, (len(ps) + 1 + r + 2 * o + v) % (len(ps) + 1))
            if ps:
                ps.insert(min(cut, len(ps)), "/")
            body = "scratch = 1\n    other = scratch\n    return other"
        elif naming:
            names = ["p%d" % i for i in range(r + o)]
            if naming == "q":
                names.reverse()
            ps = (["self"] if with_self else []) + names[:r] + ["%s=None" % x for x in names[r:]]
        else:
            ps = ["a%d" % i for i in range(total)] + ["b%d=None" % i for i in range(o)]
        ps += (["*args"] if v else []) + (["**kws"] if k else [])
        ns = {}
        exec("def %s(%s):\n    %s" % (name, ", ".join(ps), body), ns)
        _FUNCS[key] = ns[name]
    return _FUNCS[key]


def mkfunc_d(name, sig):
    """a method whose `self` has a default too (and whose body has locals): `def m(a0=None, b0=None, *args, **kws)`"""
    (r, o, v, k), naming = sig
    key = (name, "D", o, v, k, naming)
    if key not in _FUNCS:
        if naming:
            names = ["p%d" % i for i in range(o)]
            if naming == "q":
                names.reverse()
            ps = ["self=None"] + ["%s=None" % x for x in names]
        else:
            ps = ["a0=None"] + ["b%d=None" % i for i in range(o)]
        ps += (["*args"] if v else []) + (["**kws"] if k else [])
        ns = {}
        exec("def %s(%s):\n    x = 1\n    y = 2\n    return x, y" % (name, ", ".join(ps)), ns)
        _FUNCS[key] = ns[name]
    return _FUNCS[key]


def shapes(sig, impl_pos):
    r, o, v, k = sig
    out = [(n, {}) for n in range(r, r + o + 1)]
    if v:
        # "surplus positionals": unbounded -> probe one more than the implementation could take, and a large count
        out += [(r + o + 1, {}), (r + o + 2, {}), (max(r, impl_pos + 1), {}), (25, {})]
    if k:
        out += [(n, {"zz_unknown": 1}) for n in range(r, r + o + 1)]
    if v and k:
        out.append((r + o + 2, {"zz_unknown": 1}))
    return out


def psig(s):
    """`r.o.v.k[naming]` -> ((r, o, v, k), naming)"""
    naming = s[-1] if s[-1] in "pqst" else ""
    return tuple(int(x) for x in (s[:-1] if naming else s).split(".")), naming


def run(lines, out, args):
    from zope.interface import Interface, Attribute, implementer, classImplements, directlyProvides
    from zope.interface.interface import InterfaceClass
    from zope.interface.verify import verifyObject, verifyClass
    from zope.interface.exceptions import (Invalid, BrokenMethodImplementation, MultipleInvalid, BrokenImplementation,
                                           DoesNotImplement)

    def render(e):
        if isinstance(e, DoesNotImplement):
            return "DNI"
        if isinstance(e, BrokenImplementation):
            nm = e.name if isinstance(e.name, str) else e.name.__name__
            return "BI:%s" % nm.lstrip("mz")
        if isinstance(e, BrokenMethodImplementation):
            msg = e.mess
            code = {"implementation requires too many arguments": "many", "implementation doesn't allow enough arguments": "few",
                    "implementation doesn't support keyword arguments": "kw", "implementation doesn't support variable arguments": "var",
                    "implementation is not a method": "notmethod"}.get(msg, "?" + msg)
            return "BM:%s:%s" % (e.method.lstrip("mz") if isinstance(e.method, str) else getattr(e.method, "__name__", "?").lstrip("mz"), code)
        return "other:" + type(e).__name__

    serial = [0]
    aliased = set()

    def desc(n, d):
        if n in aliased:
            # the description is listed under a name that is not its own (an alias in the interface body / a description
            # borrowed from another interface): `begin = start`, `execute = IRunner["run"]`, `x = Attribute("y")`
            from zope.interface.interface import fromFunction
            return Attribute("zz%s" % n) if d == "A" else fromFunction(mkfunc("zz" + n, psig(d[1:]), False))
        if d != "A" and int(n) % 3 == 0:
            # a method description that is an instance of a SUBCLASS of Method (a framework's own description class)
            from zope.interface.interface import fromFunction, Method
            m = fromFunction(mkfunc("m" + n, psig(d[1:]), False))
            m.__class__ = type("FrameworkMethod", (Method,), {})
            return m
        return Attribute("attr m%s" % n) if d == "A" else mkfunc("m" + n, psig(d[1:]), False)

    IOther = InterfaceClass("IOther", (Interface,), {}, __module__="zi.gen.verify")
    IInner = InterfaceClass("IInner", (Interface,), {"zz_never_there": Attribute("no candidate has it")}, __module__="zi.gen.verify")
    nested = []

    def candidate(elems, cls_mode, declared_for, on_instance=False):
        body = {}
        parent_body = {}
        inst_attrs = {}
        for n, d, c in elems:
            name = "m" + n
            if c == "X":
                continue
            if c[0] == "G":
                body[name] = mkfunc(name, psig(c[1:]), True)
            elif c[0] == "H":
                # a method without a named self: `def m(*args[, **kws])` in the class body
                body[name] = mkfunc(name, psig(c[1:]), False)
            elif c[0] == "D":
                body[name] = mkfunc_d(name, psig(c[1:]))
            elif c[0] == "T":
                # a @staticmethod in the class body: no self, whether it is reached through the class or an instance
                body[name] = staticmethod(mkfunc(name, psig(c[1:]), False))
            elif c[0] == "J":
                # ... and one INHERITED from a base class of the candidate class
                parent_body[name] = staticmethod(mkfunc(name, psig(c[1:]), False))
            elif c[0] == "K":
                # a @classmethod: reached through the instance it is a method bound to the CLASS, not to the candidate
                body[name] = classmethod(mkfunc(name, psig(c[1:]), True))
            elif c[0] == "L":
                # delegation: the bound method of ANOTHER object stored on the instance (`self.make = backend.make`)
                inst_attrs[name] = getattr(type("Backend", (), {name: mkfunc(name, psig(c[1:]), True)})(), name)
            elif c[0] == "F":
                inst_attrs[name] = mkfunc(name, psig(c[1:]), False)
            elif c == "B":
                if cls_mode:
                    body[name] = dict.pop            # method descriptor
                else:
                    inst_attrs[name] = {}.pop        # builtin
            elif c == "N":
                (body if cls_mode else inst_attrs)[name] = 42
            elif c == "P":
                # reading the attribute verifies the SAME object against ANOTHER interface (one it does not meet): that nested
                # verification is a verification like any other
                def getter(self):
                    try:
                        verifyObject(IInner, self, tentative=True)
                        nested.append("accepted")
                    except Invalid:
                        nested.append("refused")
                    return 7
                body[name] = property(getter)
        if on_instance and declared_for is not None and not cls_mode:
            # an instance without __dict__ (slots incl. __provides__), the class declares something else, the verified
            # interface is declared on the instance only
            C = type("C", (type("P", (), dict(parent_body, __slots__=())),) if parent_body else (), dict(body, __slots__=("__provides__",) + tuple(inst_attrs)))
            classImplements(C, IOther)
            ob = C()
            directlyProvides(ob, declared_for)
        else:
            C = type("C", (type("P", (), parent_body),) if parent_body else (), body)
            if declared_for is not None:
                classImplements(C, declared_for)
            ob = C()
        for k, v in inst_attrs.items():
            setattr(ob, k, v)
        return C, ob

    def verify_and_judge(I, elems, C, ob, cls_mode, tentative, declared):
        cand = C if cls_mode else ob
        del nested[:]
        try:
            (verifyClass if cls_mode else verifyObject)(I, cand, tentative=tentative)
            got = "ok"
        except MultipleInvalid as e:
            got = "multi " + " ".join(render(x) for x in e.exceptions)
        except Invalid as e:
            got = "single " + render(e)
        # ---- the statement, evaluated with inspect only
        fails = []
        if not tentative and not declared:
            fails.append("DNI")
        for n, d, c in elems:
            name = "m" + n
            probe = ob if not cls_mode else C
            if not hasattr(probe, name):
                if d == "A" and cls_mode:
                    continue
                fails.append("BI:" + n)
                continue
            if d == "A":
                continue
            attr = getattr(probe, name)
            if c[0] in "FGHDTJKL":
                target = attr if not cls_mode else getattr(C(), name)
                s = inspect.signature(target)
                impl_pos = len([p for p in s.parameters.values() if p.kind in (p.POSITIONAL_ONLY, p.POSITIONAL_OR_KEYWORD)])
                okb = True
                for k, kws in shapes(psig(d[1:])[0], impl_pos):
                    try:
                        s.bind(*([0] * k), **kws)
                    except TypeError:
                        okb = False
                        break
                if not okb:
                    fails.append("BM:" + n)
            elif c == "N":
                fails.append("BM:" + n)
            elif c == "P" and not cls_mode:
                # on an instance the property has been evaluated: the attribute is the integer 7, not callable
                fails.append("BM:" + n)
        want = "ok" if not fails else ("single " if len(fails) == 1 else "multi ") + " ".join(fails)
        if "accepted" in nested:
            got += " NESTED-VERIFICATION-ACCEPTED"
        return got, want

    for line in lines:
        f = line.split("|")
        if f[0] not in ("verify", "verify2", "verifyd"):
            out.write("bad\n")
            continue
        cls_mode, tentative, declared = f[1] == "c", f[2] == "1", f[3] in ("1", "2")
        on_instance = f[3] == "2"
        elems = [e.split(":") for e in f[4].split(";") if e]
        aliased.clear()
        aliased.update(e[0].rstrip("z") for e in elems if e[0].endswith("z"))
        elems = [[e[0].rstrip("z")] + e[1:] for e in elems]
        nbase = int(f[5]) if len(f) > 5 else 0
        try:
            if f[0] == "verify2":
                # verify, give an ancestor a further base (which brings the first `nextra` elements), verify again
                nextra = int(f[6])
                serial[0] += 1         # interfaces that are re-based need keys of their own (equal name+module = one dictionary key)
                IE = InterfaceClass("IE%d" % serial[0], (Interface,), {"m" + n: desc(n, d) for n, d, c in elems[:nextra]}, __module__="zi.gen")
                IB = InterfaceClass("IB%d" % serial[0], (Interface,), {"m" + n: desc(n, d) for n, d, c in elems[nextra:nextra + nbase]}, __module__="zi.gen")
                I = InterfaceClass("I%d" % serial[0], (IB,), {"m" + n: desc(n, d) for n, d, c in elems[nextra + nbase:]}, __module__="zi.gen")
                C, ob = candidate(elems, cls_mode, I if declared else None, on_instance)
                g1, w1 = verify_and_judge(I, elems[nextra:], C, ob, cls_mode, tentative, declared)
                IB.__bases__ = (IE,)
                order = [n for n, _ in I.namesAndDescriptions(all=True)]
                order_ok = order == ["m" + n for n, d, c in elems]
                g2, w2 = verify_and_judge(I, elems, C, ob, cls_mode, tentative, declared)
                out.write("%s ## %s || %s ## %s%s\n" % (g1, g2, w1, w2, "" if order_ok else " ORDER-MISMATCH %s" % order))
                continue
            if f[0] == "verifyd":
                # a diamond IA <- IB, IA <- IC, ID(IB, IC): the top declares the first members with OTHER descriptions, the
                # second branch re-declares them (and declares the rest); ID's resolution order is ID IB IC IA, so what a
                # provider of ID must honour is IC's declaration
                alts = f[6].split(";") if f[6] else []
                serial[0] += 1
                IA = InterfaceClass("IA%d" % serial[0], (Interface,), {"m" + n: desc(n, a) for (n, d, c), a in zip(elems, alts)}, __module__="zi.gen")
                IB = InterfaceClass("IB%d" % serial[0], (IA,), {}, __module__="zi.gen")
                IC = InterfaceClass("IC%d" % serial[0], (IA,), {"m" + n: desc(n, d) for n, d, c in elems}, __module__="zi.gen")
                I = InterfaceClass("ID%d" % serial[0], (IB, IC) if f[5] == "0" else (IB, IA, IC)[::2], {}, __module__="zi.gen")
                order = [n for n, _ in I.namesAndDescriptions(all=True)]
                order_ok = order == ["m" + n for n, d, c in elems]
                same = all(I["m" + n] is IC["m" + n] and I.get("m" + n) is IC.get("m" + n) and I.getDescriptionFor("m" + n) is IC["m" + n] for n, d, c in elems)
                C, ob = candidate(elems, cls_mode, I if declared else None, on_instance)
                got, want = verify_and_judge(I, elems, C, ob, cls_mode, tentative, declared)
                out.write("%s || %s%s%s\n" % (got, want, "" if order_ok else " ORDER-MISMATCH %s" % order, "" if same else " ORDER-MISMATCH the interface does not answer with its nearest declaration"))
                continue
            base_attrs = {"m" + n: desc(n, d) for n, d, c in elems[:nbase]}
            own_attrs = {"m" + n: desc(n, d) for n, d, c in elems[nbase:]}
            IB = InterfaceClass("IB", (Interface,), base_attrs, __module__="zi.gen")
            I = InterfaceClass("I", (IB,), own_attrs, __module__="zi.gen") if nbase else \
                InterfaceClass("I", (Interface,), own_attrs, __module__="zi.gen")
            order = [n for n, _ in I.namesAndDescriptions(all=True)]
            order_ok = order == ["m" + n for n, d, c in elems]
            C, ob = candidate(elems, cls_mode, I if declared else None, on_instance)
            got, want = verify_and_judge(I, elems, C, ob, cls_mode, tentative, declared)
            out.write("%s || %s%s\n" % (got, want, "" if order_ok else " ORDER-MISMATCH %s" % order))
        except Exception as e:  # noqa
            out.write("err %s %s\n" % (type(e).__name__, str(e)[:80]))
