"""Executor for the Components layer (C16): real zope.interface.registry.Components with captured events.

`persist` makes the history's object a picklable Components (a subclass whose two registries are picklable adapter
registries, the way zope.component.persistentregistry and the library's own tests build one); `reload` replaces it by its
pickle round trip (the volatile utility counter cache and the lookup objects do not survive and are rebuilt from what was
pickled); `reinit` runs `__init__` again on the live object."""
import pickle
import sys
import types


class V:
    def __init__(s, i, e):
        s.i = i
        s.e = e

    def __eq__(s, o):
        return isinstance(o, V) and s.e == o.e

    def __ne__(s, o):
        return not s == o

    def __hash__(s):
        return hash(s.e)

    def __call__(s, *a):
        # as a factory / handler: every fourth one declines (returns None), the others build an adapter that names them
        return None if s.i % 4 == 0 else ("res", s.i)

    def __bool__(s):
        # every fifth component / factory / handler is FALSY (an empty container-like component is a legal one)
        return s.i % 5 != 0


class U(V):
    __hash__ = None


def _picklable_classes():
    """module-level (importable, hence picklable) subclasses; defined late because zope.interface must come from the overlay"""
    g = globals()
    if "PicklableComponents" in g:
        return g["PicklableComponents"]
    from zope.interface.adapter import VerifyingAdapterRegistry
    from zope.interface.registry import Components

    class PicklableAdapterRegistry(VerifyingAdapterRegistry):
        # the registry data is state; the lookup object and its caches are volatile

        def __getstate__(self):
            state = self.__dict__.copy()
            for k in list(state):
                if k in self._delegated or k.startswith('_v'):
                    state.pop(k)
            state.pop('ro', None)
            return state

        def __setstate__(self, state):
            bases = state.pop('__bases__', ())
            self.__dict__.update(state)
            self._createLookup()
            self.__bases__ = bases
            self._v_lookup.changed(self)

    class PicklableComponents(Components):

        def _init_registries(self):
            self.adapters = PicklableAdapterRegistry()
            self.utilities = PicklableAdapterRegistry()

    for cls in (PicklableAdapterRegistry, PicklableComponents):
        cls.__qualname__ = cls.__name__
        g[cls.__name__] = cls
    return PicklableComponents


def run(lines, out, args):
    from zope.interface import Interface
    from zope.interface.interface import InterfaceClass
    from zope.interface import registry as R
    # generated interfaces and classes are pickled by reference: they live in an importable synthetic module
    for mname in ("zi", "zi.gen"):
        if mname not in sys.modules:
            sys.modules[mname] = types.ModuleType(mname)
    sys.modules["zi"].gen = gen = sys.modules["zi.gen"]
    evstack = [[]]           # the events of the call being executed (a call made by an event subscriber has a list of its own)
    st = dict(ifs={}, c=None, vals={}, serial=0, want=None, armed=None, nested_out=None)
    MUTATORS = ("regU", "unregU", "regA", "unregA", "regS", "unregS", "regH", "unregH")

    def notify(e):
        tag = ("R:" if type(e).__name__ == "Registered" else "U:") + type(e.object).__name__.replace("Registration", "")
        evstack[-1].append(tag)
        armed = st["armed"]
        if armed is not None and tag[0] == armed[0]:
            # an event subscriber that reacts by making a call of its own, right here
            st["armed"] = None
            st["nested_out"] = do_line(armed[1])
    R.notify = notify

    def comp(s):
        if s.strip() == "N":
            return None
        i, e, h = [int(x) for x in s.split()]
        cls = V if h else U
        if i == 0:
            return cls(0, e)
        if i not in st["vals"]:
            st["vals"][i] = cls(i, e)
        return st["vals"][i]

    def inv(x):
        for k, v in st["ifs"].items():
            if v is x:
                return k
        return "?"

    def do_line(line):
        f = [x.strip() for x in line.split("|")]
        op = f[0]
        got = "ok"
        events = []
        evstack.append(events)
        try:
            ifs = st["ifs"]
            c = st["c"]
            if op == "reset":
                st["serial"] += 1
                t = st["serial"]
                ifs = st["ifs"] = {0: Interface}
                ifs[1] = InterfaceClass("P1_%d" % t, __module__="zi.gen")
                ifs[2] = InterfaceClass("P2_%d" % t, (ifs[1],), __module__="zi.gen")
                ifs[3] = InterfaceClass("R1_%d" % t, __module__="zi.gen")
                ifs[4] = InterfaceClass("R2_%d" % t, (ifs[3],), __module__="zi.gen")
                from zope.interface import classImplements, implementedBy
                st["K"] = type("K%d" % t, (object,), {"__module__": "zi.gen"})
                for k in [k for k in vars(gen) if not k.startswith("__")]:
                    delattr(gen, k)
                for x in (ifs[1], ifs[2], ifs[3], ifs[4], st["K"]):
                    setattr(gen, x.__name__, x)
                classImplements(st["K"], ifs[3])
                ifs[5] = implementedBy(st["K"])
                ifs[6] = implementedBy(object)
                # the history's object has a BASE (a Components holding a utility and an adapter for an interface of its own,
                # which never meets the history's interfaces): whatever happens to the object, it keeps consulting its base
                st["IB0"] = InterfaceClass("PB0_%d" % t, __module__="zi.gen")
                setattr(gen, st["IB0"].__name__, st["IB0"])

                def mkbase(cls):
                    b = cls("base")
                    b.registerUtility(V(9001, 9001), st["IB0"], "zz", "")
                    b.registerAdapter(V(9002, 9002), (ifs[3],), st["IB0"], "zz", "")
                    return b
                st["mkbase"] = mkbase
                st["c"] = R.Components("child", (mkbase(R.Components),))
                st["vals"] = {}
            elif op == "sro":
                want = " ".join(str(inv(x)) for x in ifs[int(f[1])].__sro__)
                got = "ok" if want == f[2] else "sro-mismatch " + want
            elif op in ("regU", "unregU", "regA", "unregA", "regS", "unregS", "regH", "unregH"):
                ret = "None"
                saved = {}
                try:
                    v = comp(f[1])
                    # (a call made from inside an event delivery may be about the very component of the call in progress, which
                    # carries `__component_name__` / `__component_adapts__` for the duration of THAT call only: set them aside)
                    if v is not None:
                        for a_ in ("__component_name__", "__component_adapts__"):
                            if a_ in v.__dict__:
                                saved[a_] = v.__dict__.pop(a_)
                    nm = f[3] if op == "regU" else f[4] if op == "regA" else ""
                    if nm.startswith("#"):
                        # a name that is not a string: refused (ValueError) -- and nothing may have been written anywhere
                        bad = {"#b": b"a", "#n": 7, "#t": ("a",)}[nm]
                        if op == "regU":
                            c.registerUtility(v, ifs[int(f[2])], bad, f[4])
                        else:
                            toks = f[2].split()
                            RQ = tuple(st["K"] if x == "5" else ifs[int(x)] for x in toks if x.isdigit())
                            c.registerAdapter(v, RQ, ifs[int(f[3])], bad, "i")
                        raise AssertionError("accepted")
                    if nm.startswith("@"):
                        v.__component_name__ = nm[1:]           # the name is not passed: it comes from the component
                    if op == "regU" and f[2].startswith("^"):
                        # `provided` is not passed: it is what the component itself provides
                        from zope.interface import directlyProvides
                        directlyProvides(v, ifs[int(f[2][1:])])
                        try:
                            if nm.startswith("@"):
                                c.registerUtility(v, info=f[4])
                            else:
                                c.registerUtility(v, name=f[3], info=f[4])
                        finally:
                            directlyProvides(v)
                    elif op == "regU" and nm.startswith("@"):
                        c.registerUtility(v, ifs[int(f[2])], info=f[4])
                    elif op == "regU":
                        c.registerUtility(v, ifs[int(f[2])], f[3], f[4])
                    elif op == "unregU":
                        ret = str(c.unregisterUtility(v, ifs[int(f[2])], f[3]))
                    else:
                        toks = f[2].split()
                        # a class stands for its implementedBy specification, None for Interface
                        RQ = tuple(st["K"] if x == "5" else None if (x == "0" and "~" in toks) else ifs[int(x)] for x in toks if x.isdigit())
                        if "@" in toks and v is not None:
                            v.__component_adapts__ = RQ
                            RQ = None
                        if op == "regA" and nm.startswith("@"):
                            c.registerAdapter(v, RQ, ifs[int(f[3])], info="i")
                        elif op == "regA":
                            c.registerAdapter(v, RQ, ifs[int(f[3])], f[4], "i")
                        elif op == "unregA":
                            ret = str(c.unregisterAdapter(v, RQ, ifs[int(f[3])], f[4]))
                        elif op == "regS":
                            c.registerSubscriptionAdapter(v, RQ, ifs[int(f[3])], info="i")
                        elif op == "unregS":
                            ret = str(c.unregisterSubscriptionAdapter(v, RQ, ifs[int(f[3])]))
                        elif op == "regH":
                            c.registerHandler(v, RQ, info="i")
                        else:
                            ret = str(c.unregisterHandler(v, RQ))
                except TypeError:
                    ret = "TypeError"
                except ValueError:
                    ret = "ValueError"
                finally:
                    if v is not None and "__component_adapts__" in v.__dict__:
                        del v.__component_adapts__
                    if v is not None and "__component_name__" in v.__dict__:
                        del v.__component_name__
                    if v is not None:
                        v.__dict__.update(saved)
                got = "%s [%s]" % (ret, " ".join(events))
            elif op == "reinit":
                c.__init__(c.__name__, c.__bases__)
            elif op == "persist":
                if list(c.registeredUtilities()) or list(c.registeredAdapters()) or list(c.registeredSubscriptionAdapters()) or list(c.registeredHandlers()):
                    raise ValueError("persist: only directly after reset")
                st["c"] = _picklable_classes()("child", (st["mkbase"](_picklable_classes()),))
            elif op == "reload":
                c2 = pickle.loads(pickle.dumps(c, pickle.HIGHEST_PROTOCOL))
                assert c2 is not c and c2._v_utility_registrations_cache is None
                st["c"] = c2
                # the identities the script speaks of are now those of the re-loaded components (one object per identity:
                # pickling keeps sharing between and within the four registration tables and the two registries)
                new = {}
                for reg in (list(c2.registeredUtilities()) + list(c2.registeredAdapters()) + list(c2.registeredSubscriptionAdapters())
                            + list(c2.registeredHandlers())):
                    x = reg.component if hasattr(reg, "component") else reg.factory
                    if x.i and new.setdefault(x.i, x) is not x:
                        got = "sharing-lost %d" % x.i
                st["vals"].update(new)
                if events:
                    got = "events %s" % " ".join(events)
            elif op == "listU":
                got = " ".join("%s/%s=%d/%s" % (inv(r.provided), r.name, r.component.i, r.info) for r in c.registeredUtilities())
            elif op == "listA":
                got = " ".join("[%s]/%s/%s=%d" % (", ".join(str(inv(x)) for x in r.required), inv(r.provided), r.name, r.factory.i) for r in c.registeredAdapters())
            elif op == "listS":
                got = " ".join("[%s]/%s=%d" % (", ".join(str(inv(x)) for x in r.required), inv(r.provided), r.factory.i) for r in c.registeredSubscriptionAdapters())
            elif op == "listH":
                got = " ".join("[%s]=%d" % (", ".join(str(inv(x)) for x in r.required), r.factory.i) for r in c.registeredHandlers())
            elif op == "qU":
                u = c.queryUtility(ifs[int(f[1])], f[2])
                got = "N" if u is None else str(u.i)
                # the other utility query methods must say the same
                marker = object()
                notes = []
                if c.queryUtility(ifs[int(f[1])], f[2], marker) is not (marker if u is None else u):
                    notes.append("queryUtility-default")
                try:
                    g = c.getUtility(ifs[int(f[1])], f[2])
                    if u is None or g is not u:
                        notes.append("getUtility")
                except R.ComponentLookupError:
                    if u is not None:
                        notes.append("getUtility-raised")
                if notes:
                    got += " API-DISAGREE " + ",".join(notes)
            elif op == "qA":
                specs = [ifs[int(x)] for x in f[1].split()]
                a = c.adapters.lookup(tuple(specs), ifs[int(f[2])], f[3])
                got = "N" if a is None else str(a.i)
                # the object-level query methods on objects providing exactly those specifications: what the factory found by the
                # lookup builds when called with the objects, the default / ComponentLookupError when there is none or it declines
                from zope.interface import directlyProvides

                class Ob:
                    pass
                obs = []
                for x in f[1].split():
                    if x == "5":
                        obs.append(st["K"]())
                    elif x == "6":
                        obs.append(object())
                    else:
                        o = Ob()
                        if x != "0":
                            directlyProvides(o, ifs[int(x)])
                        obs.append(o)
                exact = all(x in ("3", "4", "5", "6") for x in f[1].split())
                if exact:
                    a2 = c.adapters.lookup([R.providedBy(o) for o in obs], ifs[int(f[2])], f[3])
                    want = None if a2 is None else a2(*obs)
                    marker = object()
                    notes = []
                    P, nm = ifs[int(f[2])], f[3]
                    qm = c.queryMultiAdapter(obs, P, nm, marker)
                    if qm != (marker if want is None else want):
                        notes.append("queryMultiAdapter")
                    try:
                        gm = c.getMultiAdapter(obs, P, nm)
                        if want is None or gm != want:
                            notes.append("getMultiAdapter")
                    except R.ComponentLookupError:
                        if want is not None:
                            notes.append("getMultiAdapter-raised")
                    if len(obs) == 1:
                        if c.queryAdapter(obs[0], P, nm, marker) != (marker if want is None else want):
                            notes.append("queryAdapter")
                        try:
                            ga = c.getAdapter(obs[0], P, nm)
                            if want is None or ga != want:
                                notes.append("getAdapter")
                        except R.ComponentLookupError:
                            if want is not None:
                                notes.append("getAdapter-raised")
                    alln = dict(c.adapters.lookupAll([R.providedBy(o) for o in obs], P))
                    wantall = sorted((n_, fa(*obs)) for n_, fa in alln.items() if fa(*obs) is not None)
                    if sorted(c.getAdapters(obs, P)) != wantall:
                        notes.append("getAdapters")
                    subs = c.adapters.subscriptions([R.providedBy(o) for o in obs], P)
                    wantsubs = [r_ for r_ in (s_(*obs) for s_ in subs) if r_ is not None]
                    if list(c.subscribers(obs, P)) != wantsubs:
                        notes.append("subscribers")
                    if notes:
                        got += " API-DISAGREE " + ",".join(notes)
            elif op == "allU":
                got = " ".join(str(x.i) for x in c.getAllUtilitiesRegisteredFor(ifs[int(f[1])]))
            elif op == "forU":
                got = " ".join("%s=%d" % (a, b.i) for a, b in sorted(c.getUtilitiesFor(ifs[int(f[1])]), key=lambda t: t[0]))
            elif op == "subsA":
                got = " ".join(str(x.i) for x in c.adapters.subscriptions(tuple(ifs[int(x)] for x in f[1].split()), None if f[2] == "N" else ifs[int(f[2])]))
            elif op == "handle":
                # handle(*objects): the handlers subscribed for what the objects provide are called
                class Ob:
                    pass
                from zope.interface import directlyProvides
                obs = []
                for x in f[1].split():
                    o = Ob()
                    directlyProvides(o, ifs[int(x)])
                    obs.append(o)
                called = []
                for h_ in c.adapters.subscriptions([ifs[int(x)] for x in f[1].split()], None):
                    called.append(str(h_.i))
                c.handle(*obs)
                got = " ".join(called)
            elif op == "baseq":
                # what the base holds is still found through the object (its registries are still wired to the base's)
                class ObB:
                    pass
                from zope.interface import directlyProvides
                ob_ = ObB()
                directlyProvides(ob_, ifs[3])
                if len(f) > 1 and f[1] == "m":
                    # (a history that only ever asks the many-result queries: the single-result caches stay cold)
                    u_ = dict(c.getUtilitiesFor(st["IB0"])).get("zz")
                    a_ = dict(c.getAdapters((ob_,), st["IB0"])).get("zz")
                else:
                    u_ = c.queryUtility(st["IB0"], "zz")
                    a_ = c.queryAdapter(ob_, st["IB0"], "zz")
                notes = []
                if getattr(u_, "i", None) != 9001:
                    notes.append("utility of the base not found: %r" % (u_,))
                if a_ != ("res", 9002):
                    notes.append("adapter of the base not found: %r" % (a_,))
                if len(c.__bases__) != 1:
                    notes.append("__bases__ = %r" % (c.__bases__,))
                if notes:
                    got = "BASE-LOST " + "; ".join(notes)
            elif op == "probe":
                pr = c.rebuildUtilityRegistryFromLocalCache()
                got = "%d %d" % (pr["needed_registered"], pr["needed_subscribed"])
            else:
                got = "bad"
        except Exception as e:  # noqa
            got = "err %s %s" % (type(e).__name__, str(e)[:60].replace("\n", " "))
        finally:
            evstack.pop()
        return got

    i = 0
    while i < len(lines):
        line = lines[i]
        i += 1
        op = line.split("|")[0].strip()
        if op == "nest":
            # `nest|R` / `nest|U`: the NEXT call has a subscriber that, on the first Registered / Unregistered event it is sent,
            # makes the call of the line after it.  Every event is delivered when the call that emits it has done all its
            # writing, so the outcome is that of the two calls made one after the other: each line answers for its own call
            st["want"] = line.split("|")[1].strip()
            out.write("ok\n")
            continue
        if st["want"] and op in MUTATORS and i < len(lines) and lines[i].split("|")[0].strip() in MUTATORS + ("reinit",):
            st["armed"], st["want"], st["nested_out"] = (st["want"], lines[i]), None, None
            got = do_line(line)
            st["armed"] = None
            out.write(got + "\n")
            if st["nested_out"] is not None:
                out.write(st["nested_out"] + " NESTED\n")
                st["nested_out"] = None
                i += 1
            continue
        st["want"] = None
        out.write(do_line(line) + "\n")
