"""Executor for the specification-graph layer (C02, C03): real interfaces and plain Declarations."""
import gc


def run(lines, out, args):
    from zope.interface import Interface, ro
    from zope.interface.interface import InterfaceClass
    from zope.interface.declarations import Declaration
    nodes = {}
    serial = [0]

    def ids(xs):
        inv = {id(v): k for k, v in nodes.items()}
        return " ".join(str(inv[id(x)]) if id(x) in inv else "?" for x in xs)

    for line in lines:
        cmd, _, rest = line.partition(":")
        f = cmd.split()
        a = [int(x) for x in rest.split()]
        try:
            if f[0] == "reset":
                nodes = {0: Interface}
                serial[0] += 1
                got = "ok"
            elif f[0] == "new":
                s = int(f[1])
                B = tuple(nodes[b] for b in a)
                if f[2] == "I":
                    x = InterfaceClass("I%d_%d" % (serial[0], s), B, __module__="zi.gen")
                else:
                    x = Declaration()
                    if B:
                        x.__bases__ = B
                nodes[s] = x
                got = "ok"
            elif f[0] == "set":
                nodes[int(f[1])].__bases__ = tuple(nodes[b] for b in a)
                got = "ok"
            elif f[0] == "q":
                x = nodes[int(f[1])]
                inv = {id(v): k for k, v in nodes.items()}
                imp = sorted(k for k, v in nodes.items() if x.isOrExtends(v))
                ext = sorted(k for k, v in nodes.items() if x.extends(v))
                ext2 = sorted(k for k, v in nodes.items() if x.extends(v, False))
                # extends(strict) must be isOrExtends minus self; non-strict must equal isOrExtends
                if ext != [k for k in imp if nodes[k] is not x] or ext2 != imp:
                    imp = imp + ["extends-mismatch"]
                try:
                    st = ids(ro.ro(x, strict=True))
                except ro.InconsistentResolutionOrderError:
                    st = "ERR"
                got = "sro %s | iro %s | imp %s | ro %s | strict %s | cons %s" % (
                    ids(x.__sro__), ids(x.__iro__), " ".join(map(str, imp)), ids(ro.ro(x)), st,
                    str(bool(ro.is_consistent(x))).lower())
            elif f[0] == "fresh":
                got = "true"
            else:
                got = "bad"
        except ro.InconsistentResolutionOrderError:
            got = "err Inconsistent"
        except Exception as e:  # noqa
            got = "err other:" + type(e).__name__
        out.write(got + "\n")
    gc.collect()
