"""Executor for the specification-graph layer (C02, C03): real interfaces and plain Declarations."""
import gc


def run(lines, out, args):
    from zope.interface import Interface, ro
    from zope.interface.interface import InterfaceClass
    from zope.interface.declarations import Declaration
    nodes = {}
    serial = [0]
    twins = set()      # ids of nodes that share their (name, module) with another node

    def ids(xs):
        inv = {id(v): k for k, v in nodes.items()}
        return " ".join(str(inv[id(x)]) if id(x) in inv else "?" for x in xs)

    for line in lines:
        cmd, _, rest = line.partition(":")
        f = cmd.split()
        a = [int(x) for x in rest.split()]
        try:
            if f[0] == "reset":
                nodes = {0: Interface}
                twins = set()
                serial[0] += 1
                got = "ok"
            elif f[0] == "new":
                s = int(f[1])
                B = tuple(nodes[b] for b in a)
                if f[2] == "I":
                    x = InterfaceClass("I%d_%d" % (serial[0], s), B, __module__="zi.gen")
                else:
                    x = Declaration()
                    if B:
                        x.__bases__ = B
                nodes[s] = x
                got = "ok"
            elif f[0] == "newtwin":
                # a distinct interface object with the SAME __name__ and __module__ as node f[2] (what a module reload leaves behind)
                s = int(f[1])
                B = tuple(nodes[b] for b in a)
                nodes[s] = InterfaceClass(nodes[int(f[2])].__name__, B, __module__="zi.gen")
                twins |= {s, int(f[2])}
                got = "ok"
            elif f[0] == "set":
                nodes[int(f[1])].__bases__ = tuple(nodes[b] for b in a)
                got = "ok"
            elif f[0] in ("q", "qs"):
                x = nodes[int(f[1])]
                inv = {id(v): k for k, v in nodes.items()}
                # equal-keyed interfaces are one dictionary key by design (C12): for such twins the question is asked by
                # identity on the resolution order, for everything else through the public API
                def isorext(v, k):
                    return any(v is a for a in x.__sro__) if k in twins else x.isOrExtends(v)

                def ext_(v, k, strict=True):
                    if k in twins:
                        return any(v is a for a in x.__sro__) and not (strict and v is x)
                    return x.extends(v, strict)
                imp = sorted(k for k, v in nodes.items() if isorext(v, k))
                ext = sorted(k for k, v in nodes.items() if ext_(v, k))
                ext2 = sorted(k for k, v in nodes.items() if ext_(v, k, False))
                # extends(strict) must be isOrExtends minus self; non-strict must equal isOrExtends
                if ext != [k for k in imp if nodes[k] is not x] or ext2 != imp:
                    imp = imp + ["extends-mismatch"]
                if f[0] == "qs":
                    out.write("sro %s | iro %s | imp %s\n" % (ids(x.__sro__), ids(x.__iro__), " ".join(map(str, imp))))
                    continue
                try:
                    st = ids(ro.ro(x, strict=True))
                except ro.InconsistentResolutionOrderError:
                    st = "ERR"
                got = "sro %s | iro %s | imp %s | ro %s | strict %s | cons %s" % (
                    ids(x.__sro__), ids(x.__iro__), " ".join(map(str, imp)), ids(ro.ro(x)), st,
                    str(bool(ro.is_consistent(x))).lower())
            elif f[0] == "q1":
                # one single question, by the fastest public route (the specification called as a function = isOrExtends)
                x, t = nodes[int(f[1])], nodes[a[0]]
                r1 = x.isOrExtends(t)
                got = "true" if r1 else "false"
            elif f[0] == "fresh":
                # object lifetime: many sub-interfaces of a base are created and die (still subscribed when they go); a new one is
                # created afterwards -- possibly where a dead one lived -- and then the base is re-based: the newcomer follows it
                from zope.interface import Interface as _I
                from zope.interface.interface import InterfaceClass as _IC
                IBc = _IC("IChurnBase", (_I,), {}, __module__="zi.gen.churn")
                tmp = [_IC("ITmp%d" % j, (IBc,), {}, __module__="zi.gen.churn") for j in range(40)]
                del tmp
                gc.collect()
                keep = [_IC("IKeep%d" % j, (IBc,), {}, __module__="zi.gen.churn") for j in range(40)]
                INc = _IC("IChurnNew", (_I,), {}, __module__="zi.gen.churn")
                IBc.__bases__ = (INc,)
                stale = [k.__name__ for k in keep if not k.isOrExtends(INc) or INc not in k.__sro__]
                got = "true" if not stale else "false: created where a dead dependent lived, not re-based with their base: %s" % ",".join(stale[:3])
                del keep
            else:
                got = "bad"
        except ro.InconsistentResolutionOrderError:
            got = "err Inconsistent"
        except Exception as e:  # noqa
            got = "err other:" + type(e).__name__
        out.write(got + "\n")
    gc.collect()
