"""C10 direct differential stream: seeded API programs whose traces (results, exception types, behaviour of subsequent
operations) are compared between the C accelerator and the Python reference line by line.  One input line `prog <seed>`
produces one output line: the trace of that program.  Nothing here knows which implementation it runs on."""
import random


def run(lines, out, args):
    from zope.interface import (Interface, implementedBy, providedBy, directlyProvides, alsoProvides, classImplements, implementer,
                                interfacemethod)
    from zope.interface.interface import InterfaceClass, Specification
    from zope.interface.declarations import Declaration
    from zope.interface.adapter import AdapterRegistry, VerifyingAdapterRegistry
    from zope.interface import interface as zi

    def t(f):
        try:
            r = f()
            return canon(r)
        except Exception as e:  # noqa
            return "!" + type(e).__name__

    names = {}

    def canon(r):
        if r is None or isinstance(r, (bool, int, str)):
            return repr(r)
        if isinstance(r, (tuple, list)):
            return "(" + ",".join(canon(x) for x in r) + ")"
        if isinstance(r, dict):
            return "{" + ",".join(sorted(canon(k) + ":" + canon(v) for k, v in r.items())) + "}"
        if id(r) in names:
            return names[id(r)]
        if r is NotImplemented:
            return "NotImplemented"
        return "<" + type(r).__name__ + ">"

    def name(o, n):
        names[id(o)] = n
        return o

    for line in lines:
        f = line.split()
        if f[0] != "prog":
            out.write("bad\n")
            continue
        rnd = random.Random(int(f[1]))
        names.clear()
        tr = []
        kind = int(f[1]) % 8
        # interfaces with equal (name, module) are one dictionary key everywhere (C12): give every program its own modules
        M, N = "m%s" % f[1], "n%s" % f[1]
        IA = name(InterfaceClass("IA", __module__=M), "IA")
        IB = name(InterfaceClass("IB", (IA,), __module__=M), "IB")
        IC = name(InterfaceClass("IC", __module__=N), "IC")
        ifs = [IA, IB, IC]
        keep = []
        if kind == 0:
            # comparisons and hashing with foreign operands
            class F:
                pass
            ops = []
            for _ in range(4):
                o = F()
                c = rnd.random()
                if c < 0.3:
                    o.__name__, o.__module__ = rnd.choice(["IA", "IB", "zz", ""]), rnd.choice([M, N, ""])
                elif c < 0.45:
                    o.__name__ = "IA"                              # no __module__ on the instance: class attribute
                elif c < 0.6:
                    o.__name__, o.__module__ = rnd.choice([3, None, b"IA"]), M      # non-string name
                elif c < 0.7:
                    o.__name__, o.__module__ = "IA", rnd.choice([3, None])
                ops.append(o)
            ops += [None, 3, "IA", IA, implementedBy(F)]
            import operator
            for _ in range(14):
                a, b = rnd.choice(ifs + [implementedBy(F)]), rnd.choice(ops)
                op = rnd.choice([operator.lt, operator.le, operator.gt, operator.ge, operator.eq, operator.ne])
                if rnd.random() < 0.3:
                    a, b = b, a
                tr.append(t(lambda: op(a, b)))
            tr.append(t(lambda: hash(IA) == hash(InterfaceClass("IA", __module__=M))))
            tr.append(t(lambda: sorted([IC, IB, None, IA, implementedBy(F)], key=lambda x: (x is None, x))[0] is IA))
        elif kind == 1:
            # providedBy / implementedBy with odd attributes
            class K:
                pass
            choices = [42, None, "x", IA, Declaration(IA), implementedBy(K), (IA,), object()]
            for _ in range(6):
                o = K()
                attr = rnd.choice(["__provides__", "__providedBy__", "__class__"])      # old-style `__implemented__ = ...` assignments are outside every property's domain (G-plain)
                v = rnd.choice(choices)
                if attr == "__implemented__":
                    C2 = type("C2", (), {"__implemented__": v})
                    tr.append(t(lambda: list(implementedBy(C2))))
                    tr.append(t(lambda: list(providedBy(C2()))))
                    tr.append(t(lambda: IA.implementedBy(C2)))
                elif attr == "__class__":
                    tr.append(t(lambda: list(implementedBy(v))))
                    tr.append(t(lambda: list(providedBy(v))))
                else:
                    try:
                        setattr(o, attr, v)
                    except Exception as e:  # noqa
                        tr.append("!" + type(e).__name__)
                    tr.append(t(lambda: list(providedBy(o))))
                    tr.append(t(lambda: IA.providedBy(o)))
                    tr.append(t(lambda: IB.providedBy(o)))
            tr.append(t(lambda: IA.isOrExtends(42)))
            # an unhashable argument: the question itself fails (it is a dictionary membership test in both implementations)
            for bad in ([], {}, set(), [IA]):
                tr.append(t(lambda: IA.isOrExtends(bad)))
                tr.append(t(lambda: IB(bad) if rnd.random() < 0 else Specification((IA,))(bad)))
                tr.append(t(lambda: implementedBy(K).isOrExtends(bad)))
            tr.append(t(lambda: IB.isOrExtends(IA)))
            tr.append(t(lambda: IB.extends(IA, strict=False)))
            tr.append(t(lambda: Specification((IA,)).isOrExtends(IA)))
        elif kind in (2, 3, 4):
            # lookup entry points: argument forms, defaults, error paths, cache states
            R = VerifyingAdapterRegistry if kind == 3 else AdapterRegistry
            from zope.interface.adapter import LookupBase
            lb = LookupBase()
            # the invalidation entry point in every argument form the reference accepts
            tr.append(t(lambda: lb.changed()))
            tr.append(t(lambda: lb.changed(None)))
            tr.append(t(lambda: lb.changed(ignored=None)))
            tr.append(t(lambda: lb.changed(1, 2)))
            base = R()
            reg = R((base,))

            class Fac:
                def __init__(s, n, none=False):
                    s.n, s.none = n, none

                def __call__(s, *a):
                    return None if s.none else name(("ad", s.n), "ad%d" % s.n)
            facs = [name(Fac(i, rnd.random() < 0.25), "f%d" % i) for i in range(4)]
            keep += facs

            @implementer(IB)
            class Ob:
                pass
            ob = name(Ob(), "ob")
            dflt = name(object(), "D")
            d2 = name(object(), "D2")
            for step in range(rnd.randint(10, 26)):
                c = rnd.random()
                r = rnd.choice([base, reg])
                if c < 0.22:
                    req = rnd.choice([[IA], [IB], [None], [IA, IC], (IB,), [implementedBy(Ob)]])
                    nm = rnd.choice(["", "n", "n"])
                    fa = rnd.choice(facs)
                    tr.append(t(lambda: r.register(req, rnd.choice([IA, IC]), nm, fa)))
                elif c < 0.3:
                    tr.append(t(lambda: r.unregister(rnd.choice([[IA], [IB], [IA, IC]]), rnd.choice([IA, IC]), rnd.choice(["", "n"]))))
                elif c < 0.36:
                    tr.append(t(lambda: r.subscribe(rnd.choice([[IA], [IB], [None]]), rnd.choice([IA, IC, None]), rnd.choice(facs))))
                elif c < 0.4 and kind == 4:
                    tr.append(t(lambda: setattr(reg, "__bases__", rnd.choice([(), (base,)]))))
                else:
                    prov = rnd.choice([IA, IA, IC, IB])
                    nm = rnd.choice(["", "n", "", u"n", 3, None, b"n", 0, (), False])
                    dd = rnd.choice([dflt, d2, None, "nodefault"])
                    reqs = rnd.choice([[IB], (IB,), [IA], iter([IB]), [providedBy(ob)], [IB, IC], [], [implementedBy(Ob)], (IA, IC)])
                    ep = rnd.choice(["lookup", "lookup1", "queryAdapter", "adapter_hook", "lookupAll", "subscriptions", "queryMultiAdapter",
                                     "names", "subscribers", "lookup", "queryAdapter"])
                    if ep == "lookup":
                        tr.append(t(lambda: reg.lookup(reqs, prov, nm) if dd == "nodefault" else reg.lookup(reqs, prov, nm, dd)))
                    elif ep == "lookup1":
                        one = rnd.choice([IB, IA, IC, providedBy(ob), implementedBy(Ob)])
                        tr.append(t(lambda: reg.lookup1(one, prov, nm) if dd == "nodefault" else reg.lookup1(one, prov, nm, dd)))
                    elif ep == "queryAdapter":
                        o2 = rnd.choice([ob, ob, 42, None, Ob])
                        if rnd.random() < 0.3:
                            tr.append(t(lambda: reg.queryAdapter(o2, prov, name=nm, default=dd)))
                        else:
                            tr.append(t(lambda: reg.queryAdapter(o2, prov, nm) if dd == "nodefault" else reg.queryAdapter(o2, prov, nm, dd)))
                    elif ep == "adapter_hook":
                        tr.append(t(lambda: reg.adapter_hook(prov, ob, nm) if dd == "nodefault" else reg.adapter_hook(prov, ob, nm, dd)))
                    elif ep == "lookupAll":
                        tr.append(t(lambda: sorted(reg.lookupAll(reqs, prov), key=lambda p: p[0])))
                    elif ep == "names":
                        tr.append(t(lambda: sorted(reg.names(reqs, prov))))
                    elif ep == "subscriptions":
                        tr.append(t(lambda: list(reg.subscriptions(reqs, prov))))
                    elif ep == "subscribers":
                        tr.append(t(lambda: list(reg.subscribers([ob], prov))))
                    else:
                        tr.append(t(lambda: reg.queryMultiAdapter([ob, ob] if rnd.random() < 0.5 else [ob], prov, nm, dd if dd != "nodefault" else None)))
        elif kind == 5:
            # adaptation protocol incl. inherited custom __adapt__
            class IBase(Interface):
                @interfacemethod
                def __adapt__(self, obj):
                    return "custom" if getattr(obj, "want", True) else None

            class IDer(IBase):
                @interfacemethod
                def helper(self):
                    return 1

            class IPlain(IBase):
                pass

            class O:
                pass
            hooks = zi.adapter_hooks
            saved = list(hooks)
            try:
                for I in (IBase, IDer, IPlain, IA):
                    for want in (True, False):
                        o = O()
                        o.want = want
                        hooks[:] = [lambda i, ob: None, lambda i, ob: "hooked" if rnd.random() < 2 else None]
                        tr.append(t(lambda: I(o)))
                        tr.append(t(lambda: I(o, "alt")))
                        # hooks that change the list of hooks while it is being walked: shorten it (the walk ends at the
                        # new end), empty it, extend it (the new hook is reached)
                        calls = []

                        def h_pop(i, ob):
                            calls.append("pop")
                            hooks.pop()

                        def h_clear(i, ob):
                            calls.append("clear")
                            del hooks[:]

                        def h_add(i, ob):
                            calls.append("add")
                            if len(hooks) < 6:
                                hooks.append(h_val)

                        def h_none(i, ob, calls=calls):
                            calls.append("none")

                        def h_val(i, ob):
                            calls.append("val")
                            return "late"
                        for shape in ([h_pop, h_none, h_none], [h_none, h_pop, h_val], [h_clear, h_val, h_none], [h_add, h_none], [h_pop, h_pop, h_none, h_val, h_val],
                                      [h_none, h_clear], [h_add, h_pop, h_none]):
                            hooks[:] = list(shape)
                            del calls[:]
                            tr.append(t(lambda: I(o, "alt")))
                            tr.append("/".join(calls))
                        hooks[:] = []
                        tr.append(t(lambda: I(o, None)))
                        o.__conform__ = lambda i: "conformed"
                        tr.append(t(lambda: I(o)))
                        tr.append(t(lambda: I.__adapt__(o)))
            finally:
                hooks[:] = saved
        elif kind == 6:
            # specification API: bases assignment, extends, get, weakref, dependents
            class ID(Interface):
                def m(a, b=1):
                    pass
            specs = [IA, IB, IC, ID, Declaration(IB, IC), implementedBy(type("Q", (), {}))]
            for _ in range(10):
                s = rnd.choice(specs)
                o = rnd.choice(specs + [42, None, Interface])
                m = rnd.choice(["isOrExtends", "extends", "providedBy", "implementedBy", "get", "__contains__", "interfaces", "__call__"])
                if m == "get":
                    tr.append(t(lambda: type(s.get(rnd.choice(["m", "zz"]))).__name__))
                elif m == "interfaces":
                    tr.append(t(lambda: [canon(x) for x in s.interfaces()]))
                elif m == "__contains__":
                    tr.append(t(lambda: o in s))
                elif m == "__call__":
                    tr.append(t(lambda: s(o, "alt") if isinstance(s, InterfaceClass) else "n/a"))
                else:
                    tr.append(t(lambda: getattr(s, m)(o)))
            tr.append(t(lambda: setattr(IB, "__bases__", (IC,))))
            tr.append(t(lambda: [canon(x) for x in IB.__sro__]))
            tr.append(t(lambda: IB.isOrExtends(IA)))
            tr.append(t(lambda: setattr(IB, "__bases__", (IA,))))
        else:
            # declarations on odd targets
            class K2:
                pass
            for target in (K2(), K2, 42, None, "s", IA):
                tr.append(t(lambda: directlyProvides(target, IA)))
                tr.append(t(lambda: list(providedBy(target))))
                tr.append(t(lambda: alsoProvides(target, IC)))
                tr.append(t(lambda: list(providedBy(target))))
            tr.append(t(lambda: classImplements(42, IA)))
            tr.append(t(lambda: classImplements(K2, 42)))
            tr.append(t(lambda: list(implementedBy(K2))))
            tr.append(t(lambda: providedBy(super(K2, K2()))))
        out.write(" ".join(tr) + "\n")
