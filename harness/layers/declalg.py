"""Executor for the declaration-algebra layer (C20): real Declarations built from nested argument trees."""


def run(lines, out, args):
    from zope.interface import Interface, implementedBy, classImplements, classImplementsOnly
    from zope.interface.interface import InterfaceClass
    from zope.interface.declarations import Declaration
    ifs, classes, decls = {}, {}, {}
    serial = 0

    def ids(xs):
        inv = {id(v): k for k, v in ifs.items()}
        return " ".join(str(inv.get(id(x), "?")) for x in xs)

    def parse(toks, pos):
        acc = []
        while pos < len(toks):
            t = toks[pos]
            pos += 1
            if t in (")", "]"):
                return acc, pos, t
            if t in ("(", "[", "G("):
                inner, pos, close = parse(toks, pos)
                # G( ... ) = a one-shot iterable (generator): legal wherever a sequence of interfaces is
                acc.append(tuple(inner) if t == "(" else list(inner) if t == "[" else (x for x in list(inner)))
            elif t == "D(":
                inner, pos, close = parse(toks, pos)
                acc.append(Declaration(*inner))
            elif t[0] == "i":
                acc.append(ifs[int(t[1:])])
            elif t[0] == "c":
                acc.append(implementedBy(classes[int(t[1:])]))
        return acc, pos, None

    def operand(n):
        if n[0] == "c" and n[1:].isdigit():
            return implementedBy(classes[int(n[1:])])
        return ifs[int(n[1:])] if n[0] == "i" and n[1:].isdigit() else decls[n]

    def snapshot(x):
        return (x.__bases__, tuple(x.interfaces()), tuple(x.__iro__))

    def check_flat(A):
        fl = list(A.flattened())
        it = list(A)
        exp = {Interface}
        for x in it:
            exp |= set(x.__iro__)
        if set(fl) != exp or fl != [x for x in A.__sro__ if isinstance(x, InterfaceClass)] or len(set(map(id, fl))) != len(fl):
            return " FLAT-BAD %s" % ids(fl)
        # resolution order: nothing after one of its own bases
        posn = {id(x): k for k, x in enumerate(fl)}
        for x in fl:
            for b in x.__bases__:
                if id(b) in posn and posn[id(b)] < posn[id(x)]:
                    return " FLAT-ORDER-BAD %s" % ids(fl)
        return ""

    for line in lines:
        f = line.split()
        got = "ok"
        try:
            if f[0] == "reset":
                serial += 1
                ifs, classes, decls = {0: Interface}, {}, {}
            elif f[0] == "iface":
                bs = [int(x) for x in f[3:]]
                ifs[int(f[1])] = InterfaceClass("I%d_%s" % (serial, f[1]), tuple(ifs[b] for b in bs) or (Interface,), __module__="zi.gen")
            elif f[0] == "class":
                rest = f[4:]
                k = rest.index("|")
                pyb = [int(x) for x in rest[:k]]
                dec = [int(x) for x in rest[k + 1:]]
                C = type("C%d_%s" % (serial, f[1]), tuple(classes[b] for b in pyb) or (object,), {})
                classes[int(f[1])] = C
                if f[2] == "1":
                    classImplementsOnly(C, *[ifs[x] for x in dec])
                elif dec:
                    classImplements(C, *[ifs[x] for x in dec])
            elif f[0] == "cimpl":
                # a LATER classImplements(C, ...) on a class that already has subclasses with declarations of their own
                classImplements(classes[int(f[1])], *[ifs[int(x)] for x in f[3:]])
            elif f[0] == "decl":
                a, _, _ = parse(f[3:], 0)
                decls[f[1]] = Declaration(*a)
            elif f[0] == "dpby":
                # directlyProvides(ob, <interfaces and class specifications>) on an instance of a class that declares nothing, then
                # directlyProvidedBy(ob): what was given, flattened in place without duplicates (the class part stripped, and
                # `Interface` itself, which every class implements, is redundant)
                from zope.interface import directlyProvides, directlyProvidedBy, alsoProvides
                a, _, _ = parse(f[2:], 0)
                ob = type("Plain", (), {})()
                directlyProvides(ob, *a)
                got = ids(list(directlyProvidedBy(ob)))
                alsoProvides(ob)                      # (rebuilds the declaration from directlyProvidedBy: nothing may change)
                if ids(list(directlyProvidedBy(ob))) != got:
                    got += " ?changed-by-alsoProvides:" + ids(list(directlyProvidedBy(ob))).replace(" ", ",")
            elif f[0] == "iter":
                A = operand(f[1])
                got = ids(list(A) if not isinstance(A, InterfaceClass) else A.interfaces())
                if not isinstance(A, InterfaceClass):
                    got += check_flat(A)
            elif f[0] == "memall":
                A = operand(f[1])
                got = " ".join(str(k) for k in sorted(ifs) if ((ifs[k] in A) if not isinstance(A, InterfaceClass) else ifs[k] is A))
            elif f[0] == "flat":
                # flat A | flat c2 | flat A + B | flat A - B : the interfaces of X.flattened(), in the order yielded (0 = Interface)
                def fop(n):
                    return implementedBy(classes[int(n[1:])]) if n[0] == "c" and n[1:].isdigit() else operand(n)
                A = fop(f[1])
                if len(f) == 4:
                    B = fop(f[3])
                    A = (A + B) if f[2] == "+" else (A - B)
                fl = list(A.flattened())
                got = ids(fl)
                if fl != list(A.__iro__) or [x for x in fl if not isinstance(x, InterfaceClass)]:
                    got += " FLAT-NOT-IRO"
            elif f[0] == "mem":
                got = "1" if ifs[int(f[2])] in operand(f[1]) else "0"
            elif f[0] in ("sub", "add"):
                A, B = operand(f[1]), operand(f[2])
                sa, sb = snapshot(A), snapshot(B)
                R = (A - B) if f[0] == "sub" else (A + B)
                got = ids(list(R))
                if not isinstance(R, Declaration):
                    got += " NOT-A-DECLARATION"
                if snapshot(A) != sa or snapshot(B) != sb or A.__bases__ is not sa[0] or B.__bases__ is not sb[0]:
                    got += " IMPURE"
                got += check_flat(R)
            else:
                got = "bad"
        except Exception as e:  # noqa
            got = "err %s %s" % (type(e).__name__, str(e)[:60].replace("\n", " "))
        out.write(got + "\n")
