"""Executor for the declaration-query twins (C10, C01).

`ob <container> <pbmode> <provmode> <clsprov> <clsmode> <decl>` builds a REAL object as described, then
  1. probes its *view* with plain getattr / isinstance (what providedBy / getObjectSpecification will see),
  2. calls the real providedBy(ob) and classifies which object came back (or which exception type),
  3. re-probes and calls the real getObjectSpecification(ob),
  4. for objects that took a direct declaration, asks IDecl.providedBy(ob) and `IDecl in providedBy(ob)`.
Output: `pb <view> => <result> | gos <view> => <result> | decl <ok|err:Type> holds <0|1|-> listed <0|1|->`.
`cl <kind>` does the same for implementedBy(<class-like thing>): `ib <view> => <result>`.
The view strings are exactly the input lines of the Lean driver's `spectwin` layer.  Nothing here knows which implementation
(C accelerator or PURE_PYTHON) it runs on."""


def run(lines, out, args):
    from zope.interface import Interface, implementedBy, providedBy, directlyProvides, classImplements
    from zope.interface.interface import SpecificationBase
    from zope.interface import declarations as D
    from zope.interface.declarations import getObjectSpecification, Implements

    class IDecl(Interface):
        pass

    class IOther(Interface):
        pass

    class IKls(Interface):
        pass

    class Junk:                    # no `extends`
        pass

    class Proxy:                   # a specification seen through a proxy: every attribute forwarded, not a SpecificationBase
        def __init__(self, target):
            object.__setattr__(self, "_t", target)

        def __getattr__(self, n):
            return getattr(object.__getattribute__(self, "_t"), n)

        def __call__(self, *a):
            return object.__getattribute__(self, "_t")(*a)

        def __iter__(self):
            return iter(object.__getattribute__(self, "_t"))

        def __contains__(self, x):
            return x in object.__getattribute__(self, "_t")

    class ExtRaises:               # `extends` exists but raises something that is not an AttributeError
        @property
        def extends(self):
            raise ValueError("extends")

    def raiser(exc):
        def get(self):
            raise exc("probe")

        def put(self, value):       # assignments (implementedBy installs descriptors on classes) are accepted and ignored
            pass
        return property(get, put)

    def exc_kind(e):
        return "A" if isinstance(e, AttributeError) else "O"

    def probe_val(getter, ids):
        try:
            v = getter()
        except Exception as e:  # noqa
            return exc_kind(e), None
        i = ids.setdefault(id(v), len(ids) + 1)
        try:
            sb = isinstance(v, SpecificationBase)
        except Exception:  # noqa
            sb = False
        try:
            v.extends
            ext = "n"
        except AttributeError:
            ext = "a"
        except Exception:  # noqa
            ext = "o"
        return "V:%d:%d:%s" % (i, 1 if sb else 0, ext), v

    def view(ob):
        ids = {}
        keep = []
        try:
            su = isinstance(ob, super)
        except Exception:  # noqa
            su = False
        pb, v = probe_val(lambda: ob.__providedBy__, ids)
        keep.append(v)
        pr, v = probe_val(lambda: ob.__provides__, ids)
        keep.append(v)
        try:
            c = ob.__class__
            cp, v = probe_val(lambda: c.__provides__, ids)
            keep.append(v)
            cs = "C:1/" + cp
        except Exception as e:  # noqa
            c = None
            cs = exc_kind(e)
        return "pb %d %s %s %s" % (1 if su else 0, pb, pr, cs), ids, c, keep

    def classify(fn, ob, ids, c):
        try:
            r = fn(ob)
        except Exception as e:  # noqa
            return "raise:" + ("attr" if isinstance(e, AttributeError) else "other")
        # one object can be reached in several ways (a class's descriptor hands out implementedBy(cls) itself): all labels
        labels = []
        if id(r) in ids:
            labels.append("val:%d" % ids[id(r)])
        if r is D._empty:
            labels.append("empty")
        try:
            if isinstance(ob, super) and r is implementedBy(ob):
                labels.append("super")
        except Exception:  # noqa
            pass
        if c is not None:
            try:
                if r is implementedBy(c):
                    labels.append("impl:1")
            except Exception:  # noqa
                pass
        return "=".join(labels) or "unknown"

    counter = [0]

    def build(container, pbmode, provmode, clsprov, clsmode, decl):
        counter[0] += 1
        ns = {}
        slots = None
        if container == "slots":
            slots = ["__provides__", "x"]
        elif container == "slotsnp":
            slots = ["x"]
        shared = None
        if clsprov in ("same", "other", "spec"):
            shared = D.Provides(object, IKls) if clsprov != "other" else Junk()
        # class-level `__provides__`
        if clsprov == "raise":
            meta = type("Meta%d" % counter[0], (type,), {"__provides__": raiser(ValueError)})
        else:
            meta = type
        if clsprov in ("same", "other", "spec"):
            ns["__provides__"] = shared
            if slots:
                slots = [s for s in slots if s != "__provides__"]
        if slots is not None:
            ns["__slots__"] = tuple(slots)
        # `__providedBy__`
        if pbmode == "junk":
            ns["__providedBy__"] = Junk()
        elif pbmode == "proxy":
            ns["__providedBy__"] = Proxy(D.Provides(object, IOther))
        elif pbmode == "spec":
            ns["__providedBy__"] = D.Provides(object, IOther)
        elif pbmode == "raiseA":
            ns["__providedBy__"] = raiser(AttributeError)
        elif pbmode == "raiseO":
            ns["__providedBy__"] = raiser(ValueError)
        elif pbmode == "extraise":
            ns["__providedBy__"] = ExtRaises()
        if provmode == "raise":
            ns["__provides__"] = raiser(ValueError)
            if slots:
                ns["__slots__"] = tuple(s for s in slots if s != "__provides__")
        if clsmode == "attrerr":
            def ga(self, n):
                if n == "__class__":
                    raise AttributeError(n)
                return object.__getattribute__(self, n)
            ns["__getattribute__"] = ga
        K = meta("K%d" % counter[0], (object,), ns)
        if pbmode in ("desc", "descwarm"):
            classImplements(K, IKls)            # installs the descriptors on the class
            if pbmode == "descwarm":
                implementedBy(K)
        ob = K()
        declared = "-"
        if provmode in ("junk", "none", "proxy"):
            val = {"junk": Junk(), "none": None, "proxy": Proxy(D.Provides(K, IOther))}[provmode]
            try:
                object.__setattr__(ob, "__provides__", val)
            except Exception:  # noqa
                pass
        if decl == "dp":
            try:
                directlyProvides(ob, IDecl)
                declared = "ok"
            except Exception as e:  # noqa
                declared = "err:" + type(e).__name__
        if container == "super":
            ob = super(K, ob)
        return ob, K, declared

    for line in lines:
        f = line.split()
        try:
            if f[0] == "ob":
                ob, K, declared = build(*f[1:7])
                legit = f[1] in ("dict", "slots") and f[2] in ("desc", "descwarm", "absent") and f[3] == "absent" and f[4] == "absent" and f[5] == "ok"
                v1, ids, c, keep = view(ob)
                r1 = classify(providedBy, ob, ids, c)
                v2, ids2, c2, keep2 = view(ob)
                r2 = classify(getObjectSpecification, ob, ids2, c2)
                holds = listed = "-"
                if declared == "ok" and legit:
                    try:
                        holds = "1" if IDecl.providedBy(ob) else "0"
                    except Exception as e:  # noqa
                        holds = "!" + type(e).__name__
                    try:
                        listed = "1" if IDecl in providedBy(ob) else "0"
                    except Exception as e:  # noqa
                        listed = "!" + type(e).__name__
                out.write("%s => %s | gos %s => %s | decl %s holds %s listed %s\n" % (v1, r1, v2[3:], r2, declared, holds, listed))
            elif f[0] == "cl":
                kind = f[1]
                counter[0] += 1
                if kind == "plain":
                    t = type("P%d" % counter[0], (object,), {})
                elif kind == "declared":
                    t = type("P%d" % counter[0], (object,), {})
                    classImplements(t, IKls)
                elif kind == "oldstyle":
                    t = type("P%d" % counter[0], (object,), {"__implemented__": IKls})
                elif kind == "nonespec":
                    t = type("P%d" % counter[0], (object,), {"__implemented__": None})
                elif kind == "builtin":
                    t = [int, str, tuple, list, dict, float, type(None), bytes][int(f[2]) % 8]
                elif kind == "super":
                    B = type("B%d" % counter[0], (object,), {})
                    S = type("S%d" % counter[0], (B,), {})
                    if int(f[2]) % 4 >= 2:
                        classImplements(B, IKls)
                    t = super(B, B()) if int(f[2]) % 2 else super(S, S())
                elif kind == "callable":
                    t = (lambda: None) if int(f[2]) % 2 else len
                elif kind == "instance":
                    t = type("P%d" % counter[0], (object,), {"__call__": lambda self: None})()
                    if int(f[2]) % 2:
                        from zope.interface import implementer
                        implementer(IKls)(t)
                else:
                    t = object()
                try:
                    su = isinstance(t, super)
                except Exception:  # noqa
                    su = False
                ids = {}
                try:
                    d = t.__dict__
                    dok = True
                except AttributeError:
                    d = None
                    dok = False
                im = "N"
                if d is not None:
                    try:
                        s0 = d["__implemented__"]
                        ids[id(s0)] = 1
                        im = "I:1:%d:%d" % (1 if isinstance(s0, Implements) else 0, 1 if s0 is None else 0)
                    except KeyError:
                        pass
                try:
                    b = D.BuiltinImplementationSpecifications.get(t)
                except TypeError:
                    b = None
                bi = "N"
                if b is not None:
                    ids[id(b)] = 2
                    bi = "B:2"
                try:
                    r = implementedBy(t)
                    if su:
                        res = "super"
                    elif id(r) in ids:
                        res = "spec:%d" % ids[id(r)]
                    else:
                        res = "slow"
                    again = "same" if implementedBy(t) is r else "differs"
                except Exception as e:  # noqa
                    res = "slow"               # the slow path's own outcome (TypeError for a non-factory …) is not modelled here
                    again = "!" + type(e).__name__
                out.write("ib %d %d %s %s => %s again %s\n" % (1 if su else 0, 1 if dok else 0, im, bi, res, again))
            else:
                out.write("bad\n")
        except Exception as e:  # noqa
            out.write("executor-error %s %s\n" % (type(e).__name__, str(e)[:80].replace("\n", " ")))
