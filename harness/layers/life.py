"""Executor for the object-lifetime stream of C10 ("the same subsequent behaviour" includes what a program can observe of the
lifetime of its objects: `ISpecification.weakref()`, ordinary weak references, finalizers, the `dependents` of long-lived
interfaces).

One script = one *island*: an owner object that holds a private registry (AdapterRegistry / VerifyingAdapterRegistry /
Components, optionally based on a second private registry and / or a long-lived one), private interfaces, classes, instances
and the values it registers (its own bound methods, factories that refer back to the owner / the registry / an instance /
nothing).  The script registers, queries through every lookup entry point (which fills the lookup caches), asks specification
questions (which fill the specification slots), optionally mutates again (which empties the caches), optionally `keep`s some
objects, and finally `drop`s the island and runs the cyclic collector.  The answer to `drop` is the observable fate of every
named object.  Nothing here knows which implementation it runs on, and nothing here reads a private attribute.

line protocol (blank separated; `-` = none):
  reset <id> <A|V|C> <B>                      B: 0 no base, 1 r0->(r1), 2 r0->(G), 3 r0->(r1,G), 4 r0->(r1), r1->(G)
  iface <i> <own|-> <base>*                   private interface (own: a tagged value refers to the owner)
  class <k> <own|-> <iface>*                  private class, classImplements (own: a class attribute refers to the owner)
  cprov <k> <iface>*                          directlyProvides(class, ...)
  inst <x> <k> <own|-> <iface>*               instance (+ directlyProvides)
  val <v> m <n> | val <v> f <target|->        owner's bound method #n | factory object referring to <target>
  reg|unreg <r> <a|s|h|u> <name|-> <prov|-> <val> <req>*
  rebase <r> <base>*
  q <r> <entry point> <prov|-> <name|-> <arg>*
  sq <op> <spec> <arg>*
  keep <name>*
  drop
"""
import gc
import weakref


def run(lines, out, args):
    from zope.interface import Interface, Attribute, implementedBy, providedBy, directlyProvides, classImplements
    from zope.interface.interface import InterfaceClass
    from zope.interface.adapter import AdapterRegistry, VerifyingAdapterRegistry
    from zope.interface.registry import Components

    # collections happen at `drop` only, and only over the objects of the scripts (everything imported so far is set aside)
    gc.collect()
    gc.disable()
    if hasattr(gc, "freeze"):
        gc.freeze()

    fin = []
    calls = []
    st = dict(ns={}, roots={}, kept=[], flavour="A", mod="", base=(0, 0))

    class Fac:
        def __init__(s, label, ref):
            s.label, s.ref, s.mod = label, ref, st["mod"]

        def __call__(s, *a):
            calls.append(s.label)
            return "made:" + s.label

        def __del__(s):
            fin.append((s.mod, s.label))

    def make_owner_class():
        d = {"__del__": (lambda mod: lambda s: fin.append((mod, "o")))(st["mod"])}
        for n in range(8):
            d["h%d" % n] = (lambda n: lambda s, *a: calls.append("o.h%d" % n) or "o.h%d" % n)(n)
        return type("Owner", (), d)

    def nm(r):
        for tab in (st["ns"], st["roots"]):
            for k, v in tab.items():
                if v is r:
                    return k
        return None

    def canon(r):
        if r is None or isinstance(r, (bool, int, str)):
            return repr(r).replace(" ", "")
        n = nm(r)
        if n:
            return n
        if isinstance(r, (tuple, list)):
            return "(" + ",".join(canon(x) for x in r) + ")"
        return "<" + type(r).__name__ + ">"

    def get(n):
        if n in ("-", "*"):
            return None
        return st["ns"][n] if n in st["ns"] else st["roots"][n]

    def spec(n):
        """a specification argument: interface by name, `*` = None, class -> implementedBy, instance -> providedBy"""
        if n == "*":
            return None
        o = get(n)
        if n[0] == "k":
            return implementedBy(o)
        if n[0] == "x":
            return providedBy(o)
        return o

    def make_reg(label, bases=()):
        if st["flavour"] == "C":
            return Components(label, bases=tuple(bases))
        return (VerifyingAdapterRegistry if st["flavour"] == "V" else AdapterRegistry)(tuple(bases))

    def op_reset(f):
        st["ns"].clear()
        st["roots"].clear()
        del st["kept"][:]
        del fin[:]
        st["mod"] = "life%s" % f[1]
        st["flavour"] = f[2]
        b = int(f[3])
        roots, ns = st["roots"], st["ns"]
        roots["g0"] = InterfaceClass("g0", __module__=st["mod"])
        roots["g1"] = InterfaceClass("g1", (roots["g0"],), __module__=st["mod"])
        roots["G"] = make_reg("G")
        o = ns["o"] = make_owner_class()()
        o.things = []
        if b in (1, 3, 4):
            ns["r1"] = make_reg("r1", (roots["G"],) if b == 4 else ())
        ns["r0"] = make_reg("r0", [get(x) for x in {0: [], 1: ["r1"], 2: ["G"], 3: ["r1", "G"], 4: ["r1"]}[b]])
        o.things += [ns[x] for x in ("r0", "r1") if x in ns]
        st["base"] = tuple(len(roots[g].dependents) for g in ("g0", "g1"))
        return "ok"

    def own(ob, name):
        st["ns"][name] = ob
        st["ns"]["o"].things.append(ob)
        return "ok"

    def op_iface(f):
        bases = tuple(get(b) for b in f[3:]) or (Interface,)
        i = InterfaceClass(f[1], bases, {"a_" + f[1]: Attribute("an attribute"), "m": (lambda x, y=1: None)}, __module__=st["mod"])
        if f[2] == "own":
            i.setTaggedValue("owner", st["ns"]["o"])
        return own(i, f[1])

    def op_class(f):
        k = type(f[1], (object,), {"owner": st["ns"]["o"]} if f[2] == "own" else {})
        k.__module__ = st["mod"]
        if f[3:]:
            classImplements(k, *[get(i) for i in f[3:]])
        return own(k, f[1])

    def op_cprov(f):
        directlyProvides(get(f[1]), *[get(i) for i in f[2:]])
        return "ok"

    def op_inst(f):
        x = get(f[2])()
        if f[3] == "own":
            x.owner = st["ns"]["o"]
        if f[4:]:
            directlyProvides(x, *[get(i) for i in f[4:]])
        return own(x, f[1])

    def op_val(f):
        if f[2] == "m":
            v = getattr(st["ns"]["o"], "h" + f[3])
        else:
            v = Fac(f[1], get(f[3]))
        return own(v, f[1])

    def op_reg(f):
        undo = f[0] == "unreg"
        r, kind, name, prov, val = get(f[1]), f[2], "" if f[3] == "-" else f[3], get(f[4]), get(f[5])
        if st["flavour"] == "C":
            req = tuple(get(x) for x in f[6:])          # Components takes classes as they are
            if kind == "a":
                return canon(r.unregisterAdapter(None, req, prov, name) if undo else r.registerAdapter(val, req, prov, name))
            if kind == "s":
                return canon(r.unregisterSubscriptionAdapter(val, req, prov) if undo else r.registerSubscriptionAdapter(val, req, prov))
            if kind == "h":
                return canon(r.unregisterHandler(val, req) if undo else r.registerHandler(val, req))
            return canon(r.unregisterUtility(None, prov, name) if undo else r.registerUtility(val, prov, name))
        req = [spec(x) for x in f[6:]]
        if kind in ("a", "u"):
            return canon(r.unregister(req, prov, name) if undo else r.register(req, prov, name, val))
        return canon(r.unsubscribe(req, prov, val) if undo else r.subscribe(req, prov, val))

    def op_rebase(f):
        get(f[1]).__bases__ = tuple(get(b) for b in f[2:])
        return "ok"

    def op_q(f):
        r, ep, prov, name, a = get(f[1]), f[2], get(f[3]), "" if f[4] == "-" else f[4], f[5:]
        comp = st["flavour"] == "C"
        ad = r.adapters if comp else r
        if ep == "lookup":
            return canon(ad.lookup([spec(x) for x in a], prov, name))
        if ep == "lookup1":
            return canon(ad.lookup1(spec(a[0]), prov, name))
        if ep == "lookupAll":
            return canon(sorted(ad.lookupAll([spec(x) for x in a], prov), key=lambda p: p[0]))
        if ep == "names":
            return canon(sorted(ad.names([spec(x) for x in a], prov)))
        if ep == "subscriptions":
            return canon(list(ad.subscriptions([spec(x) for x in a], prov)))
        if ep == "adapter_hook":
            return canon(ad.adapter_hook(prov, get(a[0]), name))
        if ep == "queryAdapter":
            return canon(r.queryAdapter(get(a[0]), prov, name))
        if ep == "queryMultiAdapter":
            return canon(r.queryMultiAdapter([get(x) for x in a], prov, name))
        if ep == "subscribers":
            return canon(list(r.subscribers([get(x) for x in a], prov)))
        if ep == "handle":
            # the answer is the sequence of handlers that ran
            del calls[:]
            res = r.handle(*[get(x) for x in a]) if comp else r.subscribers([get(x) for x in a], None)
            return canon(res) + "/" + ",".join(calls)
        if ep == "getAdapters":
            return canon(sorted(r.getAdapters([get(x) for x in a], prov)) if comp else
                         sorted((n, fa(*[get(x) for x in a])) for n, fa in r.lookupAll([providedBy(get(x)) for x in a], prov)))
        ut = r.utilities if comp else r
        if ep == "queryUtility":
            return canon(r.queryUtility(prov, name) if comp else r.lookup((), prov, name))
        if ep == "getUtilitiesFor":
            return canon(sorted(r.getUtilitiesFor(prov) if comp else r.lookupAll((), prov), key=lambda p: p[0]))
        if ep == "getAllUtilitiesRegisteredFor":
            return canon(list(ut.subscriptions((), prov)))
        return "bad"

    def op_sq(f):
        op, s, a = f[1], spec(f[2]), f[3:]
        if op == "get":
            return canon(type(s.get(a[0])).__name__)
        if op == "names":
            return canon(sorted(s.names(all=True)))
        if op == "providedBy":
            return canon(s.providedBy(get(a[0])))
        if op == "implementedBy":
            return canon(s.implementedBy(get(a[0])))
        if op == "isOrExtends":
            return canon(s.isOrExtends(spec(a[0])))
        if op == "extends":
            return canon(s.extends(spec(a[0])))
        if op == "ifaces":
            return canon(sorted(i.__name__ for i in s.interfaces()))
        return "bad"

    def op_keep(f):
        st["kept"].extend(get(x) for x in f[1:])
        return "ok"

    def probes():
        return [(n, ob.weakref() if isinstance(ob, InterfaceClass) else weakref.ref(ob)) for n, ob in sorted(st["ns"].items())]

    def op_drop(f):
        pr = probes()
        st["ns"].clear()
        gc.collect()
        gc.collect()
        roots = st["roots"]
        dep = tuple(len(roots[g].dependents) for g in ("g0", "g1"))
        return " ".join(["%s=%s" % (n, "dead" if w() is None else "alive") for n, w in pr] +
                        ["fin=" + ",".join(sorted(l for m, l in fin if m == st["mod"])), "dep=%d,%d" % (dep[0] - st["base"][0], dep[1] - st["base"][1])])

    ops = dict(reset=op_reset, iface=op_iface, cprov=op_cprov, inst=op_inst, val=op_val, reg=op_reg, unreg=op_reg, rebase=op_rebase,
               q=op_q, sq=op_sq, keep=op_keep, drop=op_drop)
    ops["class"] = op_class

    def step(line):
        f = line.split()
        try:
            return ops[f[0]](f)
        except Exception as e:  # noqa
            return "!" + type(e).__name__

    for line in lines:
        out.write(step(line) + "\n")
