"""Executor for the attribute layer (C15): real interfaces with Attribute descriptions, tagged values and invariants;
re-basing; every accessor family observed and cross-checked."""


def lst(s):
    return [] if s == "-" else s.split(",")


def run(lines, out, args):
    from zope.interface import Interface, Attribute, Invalid
    from zope.interface.interface import InterfaceClass
    ifs, names, descs = {}, [], {}
    serial = 0
    calls = []
    default = object()

    class Probe:
        pass
    watchers, journal = [], []

    for line in lines:
        f = line.split()
        got = "ok"
        try:
            if f[0] == "reset":
                serial += 1
                ifs, names, descs = {0: Interface}, [], {}
                del watchers[:]
                del journal[:]
            elif f[0] in ("iface", "twin"):
                twin_of = None
                if f[0] == "twin":
                    # same __name__ and __module__ as interface f[2] (a re-loaded definition): equal, but another object
                    twin_of = ifs[int(f[2])]
                    f = ["iface", f[1], "-"] + f[3:]
                attrs = {}
                funcs = {}
                bases_t = tuple(ifs[int(b)] for b in lst(f[2])) or (Interface,)
                for e in lst(f[3]):
                    n, d = e.split(":")
                    if d == "R":
                        # the re-export idiom `x = Base["x"]`: the very description object the bases resolve the name to is
                        # listed again, as a DIRECT definition of the new interface (nothing, when the bases do not have the name)
                        a = InterfaceClass("tmp", bases_t, {}, __module__="zi.gen").get(n)
                        if a is None:
                            continue
                    elif int(d) % 3 == 0:
                        # a method written as a plain function without a docstring (it becomes a Method description)
                        ns = {}
                        exec("def %s(self, a=1): pass" % n, ns)
                        a = ns[n]
                        funcs[n] = int(d)
                    else:
                        a = Attribute("d" + d)
                        descs[id(a)] = int(d)
                    attrs[n] = a
                    if n not in names:
                        names.append(n)
                I = InterfaceClass(twin_of.__name__ if twin_of is not None else "I%d_%s" % (serial, f[1]), bases_t, attrs, __module__="zi.gen")
                for n, d in funcs.items():
                    descs[id(I.direct(n))] = d
                # the namespace given to the constructor is the CALLER's dictionary (a builder re-uses one scratch dict for the
                # next interface): what it holds afterwards is no business of the interface created from it
                attrs.clear()
                attrs["zz_scratch"] = Attribute("left over in the builder's scratch namespace")
                for e in lst(f[4]):
                    t, v = e.split(":")
                    I.setTaggedValue(t, None if int(v) == 999 else int(v))      # 999 stands for a tag whose value is None
                invs = []
                for e in (lst(f[5]) if f[5] != "E" else []):
                    k, fl = e.split(":")

                    def inv(ob, k=int(k), fl=fl == "1"):
                        calls.append(k)
                        if fl:
                            raise Invalid(k)
                    invs.append(inv)
                if invs or f[5] == "E":    # "E": an explicitly empty invariants list (legal; ancestors' invariants still apply)
                    I.setTaggedValue("invariants", invs)
                ifs[int(f[1])] = I
            elif f[0] == "settag":
                ifs[int(f[1])].setTaggedValue(f[2], int(f[3]))
            elif f[0] == "watch":
                # a dependent of the interface that, from INSIDE every change notification it receives, asks the interface
                # (whose own resolution order is up to date by then) for every name: each answer must be the first definition
                # along the interface's CURRENT __iro__, and the presence tests must agree with it
                class Watcher:
                    def __init__(self, I):
                        self.I = I

                    def changed(self, originally_changed):
                        I = self.I
                        for n in names:
                            first = None
                            for b in I.__iro__:
                                d = b.direct(n)
                                if d is not None:
                                    first = d
                                    break
                            g = I.get(n)
                            if g is not first or (n in I) != (first is not None) or I.queryDescriptionFor(n) is not first:
                                journal.append("%s" % n)
                wt = Watcher(ifs[int(f[1])])
                watchers.append(wt)
                ifs[int(f[1])].subscribe(wt)
            elif f[0] == "set":
                ifs[int(f[1])].__bases__ = tuple(ifs[int(b)] for b in lst(f[2])) or (Interface,)
                if journal:
                    got = "ok WATCH-FAIL inside the notification get() / in / queryDescriptionFor disagreed with the current __iro__ for: " + " ".join(sorted(set(journal)))
                    del journal[:]
            elif f[0] == "get":
                r = ifs[int(f[1])].get(f[2])
                got = "N" if r is None else str(descs[id(r)])
            elif f[0] == "q":
                I = ifs[int(f[1])]
                found = []
                notes = []
                nad = dict(I.namesAndDescriptions(all=True))
                allnames = set(I.names(all=True))
                iternames = set(iter(I))
                for n in sorted(names):
                    g = I.get(n)
                    q = I.queryDescriptionFor(n)
                    try:
                        gi = I[n]
                    except KeyError:
                        gi = None
                    try:
                        gd = I.getDescriptionFor(n)
                    except KeyError:
                        gd = None
                    present = [g is not None, q is not None, gi is not None, gd is not None, n in I, n in nad, n in allnames, n in iternames]
                    if len(set(present)) != 1:
                        notes.append("DISAGREE-presence %s %s" % (n, present))
                    elif g is not None and not (g is q is gi is gd is nad[n]):
                        notes.append("DISAGREE-description %s" % n)
                    if g is not None:
                        found.append("%s=%d" % (n, descs[id(g)]))
                if set(nad) - set(names) or allnames - set(names):
                    notes.append("UNKNOWN-NAMES")
                tnames = sorted(t for t in I.getTaggedValueTags() if t != "invariants")
                tv = []
                for t in tnames:
                    v = I.queryTaggedValue(t, default)
                    try:
                        v2 = I.getTaggedValue(t)
                    except KeyError:
                        v2 = default
                    if v is not v2 and v != v2:
                        notes.append("DISAGREE-tag %s" % t)
                    # a default equal to the stored value must not hide it
                    if v is not default and I.queryTaggedValue(t, v) != v:
                        notes.append("DISAGREE-tag-default %s" % t)
                    if v is not default:
                        tv.append("%s=%d" % (t, 999 if v is None else v))
                for t in ("zz_absent",):
                    if I.queryTaggedValue(t, default) is not default:
                        notes.append("PHANTOM-tag")
                del calls[:]
                first = "-"
                try:
                    I.validateInvariants(Probe())
                except Invalid as e:
                    first = str(e.args[0])
                run1 = list(calls)
                del calls[:]
                errors = []
                allf = []
                try:
                    I.validateInvariants(Probe(), errors)
                    if errors:
                        notes.append("NO-RAISE-WITH-ERRORS")
                except Invalid as e:
                    allf = [x.args[0] for x in errors]
                    if e.args[0] is not errors and list(e.args[0]) != errors:
                        notes.append("RAISED-OTHER")
                runall = list(calls)
                # without a list the run stops at the first failure
                if first != "-" and (not run1 or str(run1[-1]) != first):
                    notes.append("FIRST-MISMATCH")
                got = "A %s | T %s | V first=%s all=%s run=%s" % (",".join(found), ",".join(tv), first, ",".join(map(str, allf)), ",".join(map(str, runall)))
                if notes:
                    got += " || " + " ; ".join(notes)
            else:
                got = "bad"
        except Exception as e:   # noqa
            got = "err %s %s" % (type(e).__name__, str(e)[:60].replace("\n", " "))
        out.write(got + "\n")
