"""Executor for the adapter-registry layer (C04, C06, C07, C08, C09): real AdapterRegistry /
VerifyingAdapterRegistry over real interfaces and plain Declarations; objects answer providedBy through a
class-level __providedBy__."""
import gc


class Res(tuple):
    """an adapter: ("res", factory id, object ids); falsy for every third factory (a legal adapter may be falsy)"""

    def __bool__(self):
        return self[1] % 3 != 0


class V:
    """registered value: identity `i`, equality class `e`; as a factory returns None iff i % 4 == 0.
    Every fifth value is falsy (an empty-container-like component is a legal registration)."""

    def __bool__(self):
        return self.i % 5 != 0

    def __init__(self, i, e, inv):
        self.i = i
        self.e = e
        self.inv = inv

    def __eq__(self, o):
        return isinstance(o, V) and self.e == o.e

    def __ne__(self, o):
        return not self == o

    def __hash__(self):
        return hash(self.e)

    def __call__(self, *objs):
        if self.i % 4 == 0:
            return None
        # `?super` : the factory was handed a super proxy instead of the underlying object, `?`: some other foreign object
        return Res(("res", self.i, tuple(self.inv.get(id(o), "?super" if type(o) is super else "?") for o in objs)))


def run(lines, out, args):
    from zope.interface import Interface
    from zope.interface.interface import InterfaceClass
    from zope.interface.declarations import Declaration
    from zope.interface.adapter import AdapterRegistry, VerifyingAdapterRegistry
    st = dict(nodes={}, regs={}, objs={}, vals={}, cls=AdapterRegistry, serial=0, objinv={})
    default = object()

    def ints(s):
        return [int(x) for x in s.split()]

    def req(s):
        return [None if t == "N" else st["nodes"][int(t)] for t in s.split()]

    def val(s):
        if s.strip() == "N":
            return None
        i, e = ints(s)
        if i == 0:
            return V(0, e, st["objinv"])           # a fresh equal-but-distinct object
        if i not in st["vals"]:
            st["vals"][i] = V(i, e, st["objinv"])
        return st["vals"][i]

    spell = [0]

    def call(fn, names, *a):
        """the same call, spelled three ways in turn: all positional; the trailing arguments by keyword; every argument by keyword
        (in an order of its own) -- the parameter names are part of the public signature of both implementations"""
        spell[0] += 1
        k = spell[0] % 5
        if names[0] == "required" and isinstance(a[0], (list, tuple)) and spell[0] % 3 == 0:
            # `required` may be any iterable, a one-shot one included (a generator, `map(providedBy, objects)`): it is
            # materialised once, and the tuple is what the cache key AND the uncached walk are made from
            a = ((x for x in list(a[0])),) + tuple(a[1:]) if spell[0] % 2 else (iter(list(a[0])),) + tuple(a[1:])
        if k == 1:
            return fn(*a[:2], **dict(zip(names[2:], a[2:])))
        if k == 3:
            return fn(**dict(reversed(list(zip(names, a)))))
        if k == 4 and len(a) > 1:
            return fn(a[0], **dict(zip(names[1:], a[1:])))
        return fn(*a)

    def name_of(s):
        # non-string names: `#<int>` (0 is falsy) and the falsy / truthy kinds the name check must reject on every path, cache hit included
        if not s.startswith("#"):
            return s
        kinds = {"#N": None, "#F": False, "#b": b"", "#t": (), "#f": 0.0, "#B": b"a", "#o": object(), "#T": ("",), "#fs": frozenset()}
        return kinds[s] if s in kinds else int(s[1:])

    def nid(x):
        for k, v in st["nodes"].items():
            if v is x:
                return str(k)
        return "N" if x is None else "?"

    def vi(x):
        return "N" if x is None else str(x.i) if isinstance(x, V) else "other:%r" % (x,)

    for line in lines:
        f = line.split("|")
        op = f[0]
        got = "ok"
        try:
            if op == "reset":
                st = dict(nodes={0: Interface}, regs={}, objs={}, vals={}, serial=st["serial"] + 1, objinv={},
                          cls=VerifyingAdapterRegistry if f[1] == "1" else AdapterRegistry)
                gc.collect()
            elif op == "iface":
                st["nodes"][int(f[1])] = InterfaceClass("I%d_%s" % (st["serial"], f[1]),
                                                        tuple(st["nodes"][b] for b in ints(f[2])) or (Interface,), __module__="zi.gen")
            elif op == "decl":
                st["nodes"][int(f[1])] = Declaration(*[st["nodes"][b] for b in ints(f[2])])
            elif op == "obj":
                o = type("O%s" % f[1], (), {"__providedBy__": st["nodes"][int(f[2])]})()
                st["objs"][int(f[1])] = o
                st["objinv"][id(o)] = int(f[1])
            elif op == "newreg":
                st["regs"][int(f[1])] = st["cls"](tuple(st["regs"][b] for b in ints(f[2])))
            elif op == "rbases":
                st["regs"][int(f[1])].__bases__ = tuple(st["regs"][b] for b in ints(f[2]))
            elif op == "reg":
                st["regs"][int(f[1])].register(req(f[2]), st["nodes"][int(f[3])], f[4], val(f[5]))
            elif op == "unreg":
                st["regs"][int(f[1])].unregister(req(f[2]), st["nodes"][int(f[3])], f[4], val(f[5]))
            elif op == "sub":
                st["regs"][int(f[1])].subscribe(req(f[2]), None if f[3] == "N" else st["nodes"][int(f[3])], val(f[4]))
            elif op == "unsub":
                st["regs"][int(f[1])].unsubscribe(req(f[2]), None if f[3] == "N" else st["nodes"][int(f[3])], val(f[4]))
            elif op == "clone":
                src = st["regs"][int(f[1])]
                dst = st["cls"](src.__bases__)
                for a in list(src.allRegistrations()):
                    dst.register(*a)
                for a in list(src.allSubscriptions()):
                    dst.subscribe(*a)
                st["regs"][int(f[2])] = dst
            elif op == "rebuild":
                st["regs"][int(f[1])].rebuild()
            elif op == "relookup":
                # the lookup object is re-created for the registry as it stands (what unpickling a persistent registry does)
                # (zope.component's persistent registries: `_createLookup()`, then `_v_lookup.changed(self)`)
                st["regs"][int(f[1])]._createLookup()
                st["regs"][int(f[1])]._v_lookup.changed(st["regs"][int(f[1])])
            elif op == "lookup":
                r = call(st["regs"][int(f[1])].lookup, ("required", "provided", "name", "default"), req(f[2]), st["nodes"][int(f[3])], name_of(f[4]), default)
                got = "N" if r is default else vi(r)
            elif op == "lookup1":
                r = call(st["regs"][int(f[1])].lookup1, ("required", "provided", "name", "default"), req(f[2])[0], st["nodes"][int(f[3])], name_of(f[4]), default)
                got = "N" if r is default else vi(r)
            elif op == "lookupAll":
                r = call(st["regs"][int(f[1])].lookupAll, ("required", "provided"), req(f[2]), st["nodes"][int(f[3])])
                got = " ".join(sorted("%s=%s" % (a, vi(b)) for a, b in r))
            elif op == "names":
                r = st["regs"][int(f[1])].names(req(f[2]), st["nodes"][int(f[3])])
                got = " ".join(sorted(r))
            elif op == "subs":
                r = call(st["regs"][int(f[1])].subscriptions, ("required", "provided"), req(f[2]), None if f[3] == "N" else st["nodes"][int(f[3])])
                got = " ".join(vi(x) for x in r)
            elif op == "qadapter":
                reg = st["regs"][int(f[1])]
                obs = [st["objs"][o] for o in ints(f[2])]
                p = st["nodes"][int(f[3])]
                nm = name_of(f[4])
                via = f[5]
                if via == "q":
                    r = call(reg.queryAdapter, ("object", "provided", "name", "default"), obs[0], p, nm, default)
                elif via == "h":
                    r = call(reg.adapter_hook, ("provided", "object", "name", "default"), p, obs[0], nm, default)
                else:
                    r = call(reg.queryMultiAdapter, ("objects", "provided", "name", "default"), obs, p, nm, default)
                if r is default:
                    got = "default"
                elif isinstance(r, Res):
                    got = "res %d %s" % (r[1], " ".join(map(str, r[2])))
                else:
                    got = "other %r" % (r,)
            elif op == "subscribers":
                reg = st["regs"][int(f[1])]
                obs = [st["objs"][o] for o in ints(f[2])]
                r = call(reg.subscribers, ("objects", "provided"), obs, None if f[3] == "N" else st["nodes"][int(f[3])])
                got = " ".join(str(x[1]) if isinstance(x, Res) else "other:%r" % (x,) for x in r)
            elif op == "registered":
                got = vi(st["regs"][int(f[1])].registered(req(f[2]), st["nodes"][int(f[3])], f[4]))
            elif op == "subscribed":
                got = vi(st["regs"][int(f[1])].subscribed(req(f[2]), None if f[3] == "N" else st["nodes"][int(f[3])], val(f[4])))
            elif op == "allreg":
                got = " ".join(sorted("[%s/%s/%s=%s]" % (" ".join(nid(x) for x in rq), nid(p), n, vi(v))
                                      for rq, p, n, v in st["regs"][int(f[1])].allRegistrations()))
            elif op == "allsub":
                got = " ".join(sorted("[%s/%s=%s]" % (" ".join(nid(x) for x in rq), nid(p), vi(v))
                                      for rq, p, v in st["regs"][int(f[1])].allSubscriptions()))
            elif op == "ro":
                reg = st["regs"][int(f[1])]
                # the verifying flavour refreshes `ro` lazily, on the next lookup
                reg.lookupAll((), Interface)
                got = " ".join(str([k for k, v in st["regs"].items() if v is x][0]) for x in reg.ro)
            else:
                got = "bad"
        except ValueError:
            got = "err ValueError"
        except TypeError as e:
            got = "err TypeError"
        except KeyError:
            got = "err KeyError"
        except Exception as e:  # noqa
            got = "err other:" + type(e).__name__
        out.write(got + "\n")
