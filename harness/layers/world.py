"""Executor for the integrated world (C05, C19, C08 object-level paths): real interfaces, classes, instances, declaration
calls, registries of either flavour, required keys that are interfaces / class specifications / instance declarations /
super-proxy specifications.  Holds no specification reference between lines (the model is reference-free).

args: ["twin"] = for every lookup-family line also build a registry chain that never performed a lookup, replay every
registry mutation into it, ask it the same question and flag a difference (C05's statement, directly on the real code)."""
import gc

from .registry import V, Res


def run(lines, out, args):
    from zope.interface import (Interface, implementedBy, providedBy, classImplements, classImplementsOnly, classImplementsFirst,
                                directlyProvides, alsoProvides, noLongerProvides)
    from zope.interface.interface import InterfaceClass
    from zope.interface.adapter import AdapterRegistry, VerifyingAdapterRegistry
    twin = "twin" in args
    stale = "stale" in args
    st = {}
    default = object()
    serial = [0]

    def reset(verifying):
        serial[0] += 1
        st.clear()
        st.update(ifs={0: Interface}, classes={0: object}, objs={}, regs={}, vals={}, objinv={}, muts=[], regorder=[],
                  cls=VerifyingAdapterRegistry if verifying else AdapterRegistry)
        gc.collect()

    def key(t):
        n = t[1:]
        if t == "e":
            from zope.interface import directlyProvidedBy
            return directlyProvidedBy(object())       # the shared empty declaration
        if t[0] == "i":
            return st["ifs"][int(n)]
        if t[0] == "c":
            return implementedBy(st["classes"][int(n)])
        if t[0] == "o":
            return providedBy(st["objs"][int(n)])
        c, o = n.split(".")
        return providedBy(super(st["classes"][int(c)], st["objs"][int(o)]))

    def obj(t):
        n = t[1:]
        if t[0] == "o":
            return st["objs"][int(n)]
        c, o = n.split(".")
        return super(st["classes"][int(c)], st["objs"][int(o)])

    def val(s):
        if s.strip() == "N":
            return None
        i, e = [int(x) for x in s.split()]
        if i == 0:
            return V(0, e, st["objinv"])
        if i not in st["vals"]:
            st["vals"][i] = V(i, e, st["objinv"])
        return st["vals"][i]

    def vi(x):
        return "N" if x is None else str(x.i) if isinstance(x, V) else "other:%r" % (x,)

    def iids(xs):
        inv = {id(v): k for k, v in st["ifs"].items()}
        return " ".join(str(inv[id(x)]) for x in xs if id(x) in inv)

    def super_check(tok):
        """C19 on the real objects: the specification of super(C, ob) = what the classes after C in the MRO implement"""
        c, o = tok[1:].split(".")
        obj_ = st["objs"][int(o)]
        mro = type(obj_).__mro__
        k = mro.index(st["classes"][int(c)])
        exp = {Interface}
        for d in mro[k + 1:]:
            exp |= set(implementedBy(d).flattened())
        sup = super(st["classes"][int(c)], obj_)
        fl = list(providedBy(sup).flattened())
        note = ""
        if set(fl) != exp:
            note += " SUPER-DIFF super(C%s, ob%s) provides [%s], the remainder of the MRO implements [%s]" % (
                c, o, iids(fl), " ".join(sorted(iids(exp).split(), key=int)))
        if [id(x) for x in implementedBy(sup).flattened()] != [id(x) for x in fl]:
            note += " SUPER-IMPLEMENTEDBY-DIFF"
        for I in st["ifs"].values():
            if I.providedBy(sup) != (I in exp):
                note += " SUPER-PROVIDEDBY-METHOD-DIFF"
                break
        return note

    def stale_check(tok):
        """C02 / C20 on the real objects, for the specification a key token stands for: the cached resolution order,
        extension set, flattened view and membership against what the current __bases__ links (and iteration) give"""
        spec = key(tok)
        seen, stack = {}, [spec]
        while stack:
            x = stack.pop()
            if id(x) not in seen:
                seen[id(x)] = x
                stack.extend(x.__bases__)
        seen[id(Interface)] = Interface        # every resolution order is rooted in Interface, also without any base
        note = ""
        if {id(x) for x in spec.__sro__} != set(seen):
            note += " SRO-STALE cached order has [%s], reachable through __bases__ now: [%s]" % (
                iids(spec.__sro__), " ".join(sorted(iids(seen.values()).split(), key=int)))
        decl = list(spec)
        anc = {}
        stack = list(decl)
        while stack:
            x = stack.pop()
            if id(x) not in anc:
                anc[id(x)] = x
                stack.extend(x.__bases__)
        for I in st["ifs"].values():
            if bool(spec.isOrExtends(I)) != (id(I) in seen) or bool(spec.extends(I, strict=False)) != (id(I) in seen):
                note += " IMPLIED-STALE isOrExtends(I%s) = %s" % (iids([I]), spec.isOrExtends(I))
                break
        if decl and {id(x) for x in spec.flattened()} | {id(Interface)} != set(anc) | {id(Interface)}:
            note += " FLAT-STALE flattened() = [%s], iteration yields [%s] whose ancestors are [%s]" % (
                iids(spec.flattened()), iids(decl), " ".join(sorted(iids(anc.values()).split(), key=int)))
        for I in st["ifs"].values():
            if (I in spec) != any(I is d for d in decl):
                note += " IN-STALE (I%s in spec) = %s, iteration yields [%s]" % (iids([I]), I in spec, iids(decl))
                break
        spec = decl = anc = seen = None
        return note

    def build_twin():
        regs = {}
        for r in st["regorder"]:
            regs[r] = st["cls"]()
        for kind, r, a in st["muts"]:
            if kind == "bases":
                regs[r].__bases__ = tuple(regs[b] for b in a)
            elif kind == "rebuild":
                regs[r].rebuild()
            else:
                getattr(regs[r], kind)(*a)
        return regs

    def query(regs, f):
        """execute a lookup-family line against the registries `regs`; returns the canonical answer"""
        op = f[0]
        reg = regs[int(f[1])]
        if op in ("lookup", "lookup1"):
            specs = [key(t) for t in f[2].split()]
            p = st["ifs"][int(f[3])]
            r = reg.lookup(specs, p, f[4], default) if op == "lookup" else reg.lookup1(specs[0], p, f[4], default)
            specs = None
            return "N" if r is default else vi(r)
        if op == "lookupAll":
            r = reg.lookupAll([key(t) for t in f[2].split()], st["ifs"][int(f[3])])
            return " ".join(sorted("%s=%s" % (a, vi(b)) for a, b in r))
        if op == "names":
            return " ".join(sorted(reg.names([key(t) for t in f[2].split()], st["ifs"][int(f[3])])))
        if op == "subs":
            r = reg.subscriptions([key(t) for t in f[2].split()], None if f[3] == "N" else st["ifs"][int(f[3])])
            return " ".join(vi(x) for x in r)
        if op == "qadapter":
            obs = [obj(t) for t in f[2].split()]
            p = st["ifs"][int(f[3])]
            via = f[5]
            if via == "q":
                r = reg.queryAdapter(obs[0], p, f[4], default)
            elif via == "h":
                r = reg.adapter_hook(p, obs[0], f[4], default)
            else:
                r = reg.queryMultiAdapter(obs, p, f[4], default)
            obs = None
            if r is default:
                return "default"
            if isinstance(r, Res):
                return "res %d %s" % (r[1], " ".join(map(str, r[2])))
            return "other %r" % (r,)
        if op == "subscribers":
            obs = [obj(t) for t in f[2].split()]
            r = reg.subscribers(obs, st["ifs"][int(f[3])])
            obs = None
            return " ".join(str(x[1]) if isinstance(x, Res) else "other:%r" % (x,) for x in r)
        raise KeyError(op)

    reset(False)
    for line in lines:
        f = [x.strip() for x in line.split("|")]
        op = f[0]
        got = "ok"
        specs = ob = r = None
        try:
            if op in ("reset", "resetfixed"):
                reset(f[1] == "1")
                # super(C, ob) where `ob` is itself a CLASS and C is in the MRO of its metaclass: what the classes after C in
                # type(ob).__mro__ implement (checked once per history, on fresh classes; the history's own objects are instances)
                from zope.interface import classImplements as _ci, providedBy as _pb, implementedBy as _ib
                _IA = InterfaceClass("IMetaA%d" % serial[0], (Interface,), __module__="zi.gen")
                _IB = InterfaceClass("IMetaB%d" % serial[0], (Interface,), __module__="zi.gen")
                _M0 = type("Meta0", (type,), {})
                _MX = type("MetaMix", (type,), {})
                _M = type("Meta", (_M0, _MX), {})
                _ci(_M0, _IA)
                _ci(_MX, _IB)
                _K = _M("K", (), {})
                for _c, _want in ((_M, {_IA, _IB, Interface}), (_M0, {_IB, Interface})):
                    _s = super(_c, _K)
                    for _fn in (_pb, _ib):
                        _gotset = set(_fn(_s).flattened())
                        if _gotset != _want:
                            raise AssertionError("META-SUPER %s(super(%s, K)) = %s" % (_fn.__name__, _c.__name__, sorted(i.__name__ for i in _gotset)))
                # a declaration on `object` ITSELF (legal: `classImplements(object, IRoot)`; seeded change o19a left `object` out of the
                # remainder as "the empty specification anyway"): super(K, ob) with K the LAST class before `object`, the remainder of the MRO
                # is `object` alone; also with a class in between, and through an adapter lookup. Undone before the history starts.
                from zope.interface import classImplementsOnly as _cio
                from zope.interface.adapter import AdapterRegistry as _AR
                _IR = InterfaceClass("IRootDecl%d" % serial[0], (Interface,), __module__="zi.gen")
                _IPq = InterfaceClass("IRootProv%d" % serial[0], (Interface,), __module__="zi.gen")
                _KO = type("KLast", (), {})
                _KD = type("KDerived", (_KO,), {})
                _ob0, _ob1 = _KO(), _KD()
                _pb(super(_KO, _ob1))                          # (asked once before the declaration: a cached super specification)
                _so = _ib(object)
                _ci(object, _IR)
                try:
                    _reg = _AR()
                    _reg.register([_IR], _IPq, "", "root-adapter")
                    for _c, _o in ((_KO, _ob0), (_KO, _ob1), (_KD, _ob1)):
                        _s = super(_c, _o)
                        for _fn in (_pb, _ib):
                            _gotset = set(_fn(_s).flattened())
                            if _gotset != {_IR, Interface}:
                                raise AssertionError("OBJECT-SUPER %s(super(%s, %s())) = %s, `object` implements %s" % (
                                    _fn.__name__, _c.__name__, type(_o).__name__, sorted(i.__name__ for i in _gotset), _IR.__name__))
                        if _reg.lookup([_pb(_s)], _IPq, "") != "root-adapter":
                            raise AssertionError("OBJECT-SUPER lookup through super(%s, %s()) misses the adapter registered for what `object` implements" % (
                                _c.__name__, type(_o).__name__))
                finally:
                    _cio(object)
                    _so.inherit = object
                if set(_pb(super(_KO, _ob1)).flattened()) != {Interface}:
                    raise AssertionError("OBJECT-SUPER the declaration on `object` was withdrawn, super(KLast, KDerived()) still provides %s" % (
                        sorted(i.__name__ for i in _pb(super(_KO, _ob1)).flattened()),))
            elif op == "iface":
                bs = [int(x) for x in f[2].split()]
                st["ifs"][int(f[1])] = InterfaceClass("I%d_%s" % (serial[0], f[1]), tuple(st["ifs"][b] for b in bs) or (Interface,), __module__="zi.gen")
            elif op == "isetbases":
                bs = [int(x) for x in f[2].split()]
                st["ifs"][int(f[1])].__bases__ = tuple(st["ifs"][b] for b in bs) or (Interface,)
            elif op == "class":
                bs = [int(x) for x in f[2].split()]
                ns = {"__slots__": ("slot_%s" % f[1],)} if len(f) > 3 and f[3] == "s" else {}      # `s`: a layout-carrying class
                # instances of two classes in three are FALSY (an empty container-like object, an object with __bool__): legal
                # everywhere an object is adapted, looked up, or unwrapped from a super proxy
                if int(f[1]) % 3 == 1:
                    ns["__bool__"] = lambda self: False
                elif int(f[1]) % 3 == 2:
                    ns["__len__"] = lambda self: 0
                st["classes"][int(f[1])] = type("C%d_%s" % (serial[0], f[1]), tuple(st["classes"][b] for b in bs) or (object,), ns)
            elif op == "inst":
                o = st["classes"][int(f[2])]()
                st["objs"][int(f[1])] = o
                st["objinv"][id(o)] = int(f[1])
            elif op == "idecl":
                # a (factory) instance decorated with implementer(I): an Implements lands in the instance's own __dict__
                from zope.interface import implementer
                implementer(st["ifs"][int(f[2])])(st["objs"][int(f[1])])
            elif op == "addspec":
                classImplements(st["classes"][int(f[1])], implementedBy(st["classes"][int(f[2])]))
            elif op in ("add", "only", "first"):
                c = st["classes"][int(f[1])]
                xs = [st["ifs"][int(x)] for x in f[2].split()]
                {"add": classImplements, "only": classImplementsOnly}.get(op, lambda c, *x: classImplementsFirst(c, x[0]))(c, *xs)
            elif op in ("dp", "also"):
                (directlyProvides if op == "dp" else alsoProvides)(st["objs"][int(f[1])], *[st["ifs"][int(x)] for x in f[2].split()])
            elif op == "nl":
                try:
                    noLongerProvides(st["objs"][int(f[1])], st["ifs"][int(f[2])])
                except ValueError:
                    got = "ValueError"
            elif op == "newreg":
                bs = [int(x) for x in f[2].split()]
                st["regs"][int(f[1])] = st["cls"](tuple(st["regs"][b] for b in bs))
                st["regorder"].append(int(f[1]))
                st["muts"].append(("bases", int(f[1]), bs))
            elif op == "rbases":
                bs = [int(x) for x in f[2].split()]
                st["regs"][int(f[1])].__bases__ = tuple(st["regs"][b] for b in bs)
                st["muts"].append(("bases", int(f[1]), bs))
            elif op == "rebuild":
                st["regs"][int(f[1])].rebuild()
                st["muts"].append(("rebuild", int(f[1]), ()))
            elif op in ("reg", "unreg", "sub", "unsub"):
                reg = st["regs"][int(f[1])]
                specs = [key(t) for t in f[2].split()]
                if op == "reg":
                    a = (specs, st["ifs"][int(f[3])], f[4], val(f[5]))
                    kind = "register"
                elif op == "unreg":
                    a = (specs, st["ifs"][int(f[3])], f[4]) + ((val(f[5]),) if len(f) > 5 else ())
                    kind = "unregister"
                elif op == "sub":
                    a = (specs, None if f[3] == "N" else st["ifs"][int(f[3])], val(f[4]))
                    kind = "subscribe"
                else:
                    a = (specs, None if f[3] == "N" else st["ifs"][int(f[3])], val(f[4]))
                    kind = "unsubscribe"
                getattr(reg, kind)(*a)
                if twin:
                    st["muts"].append((kind, int(f[1]), a))
                a = None
            elif op in ("lookup", "lookup1", "lookupAll", "names", "subs", "qadapter", "subscribers"):
                got = query(st["regs"], f)
                for t in f[2].split():
                    if t[0] == "s":
                        got += super_check(t)
                if twin:
                    t = query(build_twin(), f)
                    if t != got:
                        got += " TWIN-DIFF never-queried registry answers: %s" % t
            elif op == "prov":
                spec = key(f[1])
                fl = list(spec.__iro__)
                got = iids(fl)
                if f[1][0] == "s":
                    spec = fl = None
                    got += super_check(f[1])
                spec = fl = None
                if stale:
                    got += stale_check(f[1])
            elif op == "dbg":
                got = "dbg"
            else:
                got = "bad"
        except ValueError:
            got = "err ValueError"
        except TypeError:
            got = "err TypeError"
        except KeyError as e:
            got = "err KeyError"
        except Exception as e:  # noqa
            got = "err other:" + type(e).__name__
        specs = ob = r = None
        out.write(got + "\n")
        gc.collect()
