"""Executor for the pickling layer (C13): a synthetic importable module per script holds generated interfaces and
classes; declarations as in the classes layer (+ class-provided interfaces); reductions and pickle round trips."""
import gc
import pickle
import sys
import types


def run(lines, out, args):
    from zope.interface import (Interface, implementedBy, providedBy, classImplements, classImplementsOnly,
                                classImplementsFirst, directlyProvides, alsoProvides, noLongerProvides,
                                directlyProvidedBy, implementer, implementer_only)
    from zope.interface.interface import InterfaceClass
    from zope.interface.declarations import _empty, Provides, ClassProvides
    import array
    import collections
    import datetime
    import decimal
    import itertools
    from zope.interface.adapter import AdapterRegistry
    # types that cannot carry an __implemented__ attribute: their specifications live in a registry of their own
    BUILTINS = [collections.deque, array.array, datetime.date, datetime.time, datetime.timedelta, decimal.Decimal,
                itertools.count, bytearray, complex, frozenset, range, memoryview]
    ifs, classes, objs = {}, {}, {}
    regs = []
    watchers, journal = [], []
    serial = 0
    mod = None

    def iid(x):
        for k, v in ifs.items():
            if v is x:
                return str(k)
        return "?"

    def cid(x):
        if x is None:
            return "None"
        for k, v in classes.items():
            if v is x:
                return str(k)
        return "?"

    def flat(spec):
        return [iid(x) for x in spec.flattened()]

    for line in lines:
        cmd, _, rest = line.partition(":")
        f = cmd.split()
        a = [int(x) for x in rest.split()]
        got = "ok"
        try:
            if f[0] == "reset":
                if mod is not None:
                    sys.modules.pop(mod.__name__, None)
                serial += 1
                mod = types.ModuleType("zi_pk_%d" % serial)
                sys.modules[mod.__name__] = mod
                ifs, classes, objs = {0: Interface}, {0: object}, {}
                del regs[:]
                del watchers[:]
                del journal[:]
                gc.collect()
            elif f[0] == "iface":
                def secret(self_or_arg=None):
                    "SECRETDOC"
                secret.__name__ = "secret_method_%s" % f[1]
                if int(f[1]) % 3 == 0:
                    # written as a CLASS STATEMENT inside a function body (its __qualname__ says `<locals>`), then published as a
                    # global of its module under its own name: importable like any other
                    ns = {"__name__": mod.__name__, "BASES": tuple(ifs[b] for b in a) or (Interface,), "secret": secret}
                    exec("def make():\n    class I%s(*BASES):\n        'SECRETDOC iface'\n        %s = secret\n    return I%s\nI = make()"
                         % (f[1], secret.__name__, f[1]), ns)
                    I = ns["I"]
                    assert I.__module__ == mod.__name__, I.__module__
                else:
                    I = InterfaceClass("I%s" % f[1], tuple(ifs[b] for b in a) or (Interface,), {secret.__name__: secret, "__doc__": "SECRETDOC iface"},
                                       __module__=mod.__name__)
                setattr(mod, I.__name__, I)
                ifs[int(f[1])] = I
            elif f[0] == "class":
                # every other root class has a metaclass of its own (importable, like the class: a pickle names both)
                if not a and int(f[1]) % 2 == 0:
                    M = type("Meta%s" % f[1], (type,), {"__module__": mod.__name__})
                    M.__qualname__ = M.__name__
                    setattr(mod, M.__name__, M)
                else:
                    M = type
                # every fifth root class is a subclass of types.ModuleType (a lazy-module / namespace class): its instances carry
                # declarations like any other object's, keyed on their OWN class
                root = (types.ModuleType,) if (not a and int(f[1]) % 5 == 0 and M is type) else (object,)
                C = M("C%s" % f[1], tuple(classes[b] for b in a) or root, {"__module__": mod.__name__})
                C.__qualname__ = C.__name__
                setattr(mod, C.__name__, C)
                classes[int(f[1])] = C
            elif f[0] == "bclass":
                classes[int(f[1])] = BUILTINS[(serial + int(f[1])) % len(BUILTINS)]
            elif f[0] == "clookup":
                # a lookup cache subscribes to the class's own provides-declaration (and keeps it alive)
                r = AdapterRegistry()
                regs.append(r)
                r.lookup([providedBy(classes[int(f[1])])], Interface)
            elif f[0] == "watch":
                # a dependent of the class's specification that pickles it from INSIDE every change notification it receives
                # (a journaling / persistence layer does): by reference, and back to the identical live object, at that moment too
                class Watcher:
                    def __init__(self, cls):
                        self.cls = cls

                    def changed(self, originally_changed):
                        x = implementedBy(self.cls)
                        for proto in (0, 2, pickle.HIGHEST_PROTOCOL):
                            try:
                                y = pickle.loads(pickle.dumps(x, proto))
                            except Exception as e:  # noqa
                                journal.append("raised-%s" % type(e).__name__)
                                continue
                            if y is not x:
                                journal.append("p%d:not-identical-inside-notification" % proto)
                wt = Watcher(classes[int(f[1])])
                watchers.append(wt)
                implementedBy(classes[int(f[1])]).subscribe(wt)
            elif f[0] == "inst":
                objs[int(f[1])] = classes[a[0]]("zi_lazy_module") if issubclass(classes[a[0]], types.ModuleType) else classes[a[0]]()
            elif f[0] == "add":
                if len(f) > 2:
                    implementer(*[ifs[x] for x in a])(classes[int(f[1])])
                else:
                    classImplements(classes[int(f[1])], *[ifs[x] for x in a])
            elif f[0] == "only":
                if len(f) > 2:
                    implementer_only(*[ifs[x] for x in a])(classes[int(f[1])])
                else:
                    classImplementsOnly(classes[int(f[1])], *[ifs[x] for x in a])
            elif f[0] == "first":
                classImplementsFirst(classes[int(f[1])], ifs[a[0]])
            elif f[0] == "dp":
                directlyProvides(objs[int(f[1])], *[ifs[x] for x in a])
            elif f[0] == "also":
                alsoProvides(objs[int(f[1])], *[ifs[x] for x in a])
            elif f[0] == "nl":
                try:
                    noLongerProvides(objs[int(f[1])], ifs[a[0]])
                except ValueError:
                    got = "ValueError"
            elif f[0] == "cprov":
                directlyProvides(classes[int(f[1])], *[ifs[x] for x in a])
            elif f[0] == "mimpl":
                # a declaration for the class's METACLASS: part of what the class object provides, hence of its declaration's round trip
                if type(classes[int(f[1])]) is not type:
                    classImplements(type(classes[int(f[1])]), *[ifs[x] for x in a])
            elif f[0] == "calso":
                alsoProvides(classes[int(f[1])], *[ifs[x] for x in a])
            elif f[0] == "cnl":
                try:
                    noLongerProvides(classes[int(f[1])], ifs[a[0]])
                except ValueError:
                    got = "ValueError"
            elif f[0] == "rimpl":
                red = implementedBy(classes[int(f[1])]).__reduce__()
                got = "cls %s" % cid(red[1][0]) if red[0] is implementedBy and len(red[1]) == 1 else "other %r" % (red,)
            elif f[0] == "rprov":
                ob = objs[int(f[1])]
                p = ob.__dict__.get("__provides__")
                if p is None:
                    got = "none"
                else:
                    red = p.__reduce__()
                    got = ("cls %s ifaces %s" % (cid(red[1][0]), " ".join(iid(x) for x in red[1][1:]))).rstrip() \
                        if red[0] is Provides else "other %r" % (red[0],)
            elif f[0] == "pk":
                kind, k = f[1], int(f[2]) if len(f) > 2 else 0
                # lower case: the class's declarations changed since the instance declaration was made -- the round trip must give
                # the same interfaces, in the same order; it need not be the very same object (the weakly cached declaration is
                # re-validated against the class when it is asked for again)
                quiet = kind.isupper()
                kind = kind.upper()
                if kind == "I":
                    x = ifs[k]
                elif kind == "M":
                    x = implementedBy(classes[k])
                elif kind == "P":
                    x = objs[k].__dict__.get("__provides__")
                elif kind == "C":
                    x = classes[k].__dict__.get("__provides__")
                elif kind == "O" and isinstance(objs[k], types.ModuleType):
                    kind = "P"                       # (module objects themselves are not picklable: their declaration is)
                    x = objs[k].__dict__.get("__provides__")
                elif kind == "O":
                    x = objs[k]
                elif kind == "B":
                    x = providedBy(objs[k])          # what providedBy reports, whatever kind of specification that is
                else:
                    x = _empty
                if x is None:
                    got = "absent"
                else:
                    problems = []
                    for proto in range(0, pickle.HIGHEST_PROTOCOL + 1):
                        b = pickle.dumps(x, proto)
                        if b"SECRETDOC" in b or b"secret_method" in b:
                            problems.append("p%d:definition-in-pickle" % proto)
                        y = pickle.loads(b)
                        if kind in ("I", "M", "E"):
                            if y is not x:
                                problems.append("p%d:not-identical(%s)" % (proto, ",".join(flat(y)) if hasattr(y, "flattened") else type(y).__name__))
                        elif kind == "O":
                            if flat(providedBy(y)) != flat(providedBy(x)):
                                problems.append("p%d:object-provides(%s)!=(%s)" % (proto, ",".join(flat(providedBy(y))), ",".join(flat(providedBy(x)))))
                        else:
                            if flat(y) != flat(x) or (quiet and [iid(i) for i in y] != [iid(i) for i in x]):
                                problems.append("p%d:provides(%s)!=(%s)" % (proto, ",".join(flat(y)), ",".join(flat(x))))
                            if quiet and not (y == x and hash(y) == hash(x)):
                                problems.append("p%d:not-equal" % proto)
                    y = None
                    got = "ok" if not problems else "FAIL " + " ".join(problems)
            else:
                got = "bad"
        except Exception as e:  # noqa
            got = "err %s %s" % (type(e).__name__, str(e)[:70].replace("\n", " "))
        if journal:
            got += " WATCH-FAIL " + " ".join(sorted(set(journal)))
            del journal[:]
        out.write(got + "\n")
        if f[0] in ("dp", "also", "nl", "pk"):
            gc.collect()
    if mod is not None:
        sys.modules.pop(mod.__name__, None)
