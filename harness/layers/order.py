"""Executor for the comparison layer (C12): interfaces, class specifications, None, foreign objects."""
import operator

OPS = dict(lt=operator.lt, le=operator.le, gt=operator.gt, ge=operator.ge, eq=operator.eq, ne=operator.ne)


import sys

_n = [0]


def dec(s):
    """decoded strings are fresh, non-interned objects; every other one is interned (two equal names may then be one
    interned and one not, or both the same object)"""
    r = "" if s == "-" else "".join(chr(int(t)) for t in s.split(","))
    _n[0] += 1
    return sys.intern(r) if _n[0] % 3 == 0 else r


def run(lines, out, args):
    from zope.interface import Interface, implementedBy
    from zope.interface.interface import InterfaceClass
    env = {}
    keep = []

    class Foreign:
        def __init__(self, n, m):
            self.__name__ = n
            self.__module__ = m

    class Plain:
        __slots__ = ()

    # Plain must not expose __module__/__name__ through the instance: __module__ is a class attribute of every class,
    # so make attribute access raise AttributeError as for an object that has neither
    class Plain2:
        def __getattribute__(self, n):
            if n in ("__name__", "__module__"):
                raise AttributeError(n)
            return object.__getattribute__(self, n)

    for line in lines:
        f = line.split()
        got = "ok"
        try:
            if f[0] == "reset":
                env = {"N": None}
                keep = []
            elif f[0] == "def":
                if f[2] == "I":
                    env[f[1]] = InterfaceClass(dec(f[3]), (Interface,), __module__=dec(f[4]))
                elif f[2] == "M":
                    cls = type(dec(f[3]), (object,), {"__module__": dec(f[4])})
                    keep.append(cls)
                    env[f[1]] = implementedBy(cls)
                elif f[2] == "F":
                    env[f[1]] = Foreign(dec(f[3]), dec(f[4]))
                elif f[2] == "P":
                    env[f[1]] = Plain2()
            elif f[0] == "cmp":
                try:
                    r = OPS[f[1]](env[f[2]], env[f[3]])
                    got = "1" if r is True else "0" if r is False else "nonbool:%r" % (r,)
                except TypeError:
                    got = "TypeError"
            elif f[0] == "heq":
                a, b = env[f[1]], env[f[2]]
                got = "1" if hash(a) == hash(b) else "0"
                # hash/eq consistency as dict and set see it
                # (an interface also compares equal to a *foreign* object with the same name and module, as the code
                # documents; the statement's hash clause is about interfaces)
                if isinstance(a, InterfaceClass) and isinstance(b, InterfaceClass) and (a == b) is True:
                    if hash(a) != hash(b) or b not in {a: 1} or len({a, b}) != 1:
                        got += " HASH-INCONSISTENT"
            elif f[0] == "sort":
                xs = [env[k] for k in f[1:]]
                inv = {id(v): k for k, v in env.items()}
                got = " ".join(inv[id(x)] for x in sorted(xs))
            else:
                got = "bad"
        except Exception as e:  # noqa
            got = "err " + type(e).__name__
        out.write(got + "\n")
