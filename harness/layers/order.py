"""Executor for the comparison layer (C12): interfaces (docless / with a docstring: `Element.__init__` files a docless
name with a blank as the docstring and leaves `__name__` None), class specifications, None, foreign objects with and
without `__name__`/`__module__`, and nameless foreign objects with comparison methods of their own (transparent proxies
of an interface, constant-answer sentinels such as unittest.mock.ANY)."""
import operator

OPS = dict(lt=operator.lt, le=operator.le, gt=operator.gt, ge=operator.ge, eq=operator.eq, ne=operator.ne)


import sys

_n = [0]


def dec(s):
    """decoded strings are fresh, non-interned objects; every other one is interned (two equal names may then be one
    interned and one not, or both the same object)"""
    r = "" if s == "-" else "".join(chr(int(t)) for t in s.split(","))
    _n[0] += 1
    return sys.intern(r) if _n[0] % 3 == 0 else r


def enc(s):
    return "-" if s == "" else ",".join(str(ord(c)) for c in s)


def run(lines, out, args):
    from zope.interface import Interface, implementedBy
    from zope.interface.interface import InterfaceClass
    env = {}
    keep = []

    class Foreign:
        def __init__(self, n, m):
            self.__name__ = n
            self.__module__ = m

    class Plain:
        __slots__ = ()

    # Plain must not expose __module__/__name__ through the instance: __module__ is a class attribute of every class,
    # so make attribute access raise AttributeError as for an object that has neither
    class Plain2:
        def __getattribute__(self, n):
            if n in ("__name__", "__module__"):
                raise AttributeError(n)
            return object.__getattribute__(self, n)

    class Proxy:
        """a transparent reference to an interface (proxy, lazy import): no __name__, (in)equality and hash of the target"""
        __slots__ = ("_target",)

        def __init__(self, target):
            self._target = target

        def __eq__(self, other):
            return self._target == other

        def __ne__(self, other):
            return self._target != other

        def __hash__(self):
            return hash(self._target)

    class Sentinel:
        """constant answers: == says `eqv`, != says `not eqv`, the ordering methods say `ordv` (None: NotImplemented)"""
        __slots__ = ("_eqv", "_ordv")

        def __init__(self, eqv, ordv):
            self._eqv = eqv
            self._ordv = ordv

        def __eq__(self, other):
            return self._eqv

        def __ne__(self, other):
            return not self._eqv

        def _ord(self, other):
            return NotImplemented if self._ordv is None else self._ordv

        __lt__ = __le__ = __gt__ = __ge__ = _ord
        __hash__ = object.__hash__

    def name_report(x):
        return "ok name=" + ("None" if x.__name__ is None else enc(x.__name__))

    for line in lines:
        f = line.split()
        got = "ok"
        try:
            if f[0] == "reset":
                env = {"N": None}
                keep = []
            elif f[0] == "def":
                if f[2] == "I":
                    env[f[1]] = InterfaceClass(dec(f[3]), (Interface,), __module__=dec(f[4]))
                    got = name_report(env[f[1]])
                elif f[2] == "D":
                    # an interface with a docstring, given either way the constructor accepts one
                    if int(f[1]) % 2:
                        env[f[1]] = InterfaceClass(dec(f[3]), (Interface,), __module__=dec(f[4]), __doc__="doc of %s" % f[1])
                    else:
                        env[f[1]] = InterfaceClass(dec(f[3]), (Interface,), {"__doc__": "doc of %s" % f[1]}, __module__=dec(f[4]))
                    got = name_report(env[f[1]])
                elif f[2] in ("C", "C2"):
                    # an interface with methods of its own (`@interfacemethod`): an instance of a generated subclass of
                    # InterfaceClass; "C2": one that extends another such interface (a generated subclass of a generated subclass)
                    from zope.interface.interface import INTERFACE_METHODS
                    im = lambda nm: {INTERFACE_METHODS: {nm: (lambda self: nm)}}
                    if f[2] == "C":
                        env[f[1]] = InterfaceClass(dec(f[3]), (Interface,), im("first"), __module__=dec(f[4]))
                    else:
                        L1 = InterfaceClass("L1_%s" % f[1], (Interface,), im("first"), __module__="zi.gen.custom")
                        keep.append(L1)
                        env[f[1]] = type(L1)(dec(f[3]), (L1,), im("second"), __module__=dec(f[4]))
                        if env[f[1]].second() != "second" or env[f[1]].first() != "first":
                            raise AssertionError("custom methods")
                    got = name_report(env[f[1]]) + (" MODULE-LOST" if env[f[1]].__module__ != dec(f[4]) else "")
                elif f[2] == "W":
                    env[f[1]] = Proxy(env[f[3]])
                elif f[2] == "S":
                    env[f[1]] = Sentinel(f[3] == "1", None if f[4] == "n" else f[4] == "1")
                elif f[2] == "M":
                    cls = type(dec(f[3]), (object,), {"__module__": dec(f[4])})
                    keep.append(cls)
                    env[f[1]] = implementedBy(cls)
                elif f[2] == "F":
                    env[f[1]] = Foreign(dec(f[3]), dec(f[4]))
                elif f[2] == "P":
                    env[f[1]] = Plain2()
            elif f[0] in ("cmp", "cmpx"):
                try:
                    r = OPS[f[1]](env[f[2]], env[f[3]])
                    got = "1" if r is True else "0" if r is False else "nonbool:%r" % (r,)
                except TypeError:
                    got = "TypeError"
            elif f[0] == "heq":
                a, b = env[f[1]], env[f[2]]
                got = "1" if hash(a) == hash(b) else "0"
                # hash/eq consistency as dict and set see it
                # (an interface also compares equal to a *foreign* object with the same name and module, as the code
                # documents; the statement's hash clause is about interfaces)
                if isinstance(a, InterfaceClass) and isinstance(b, InterfaceClass) and (a == b) is True:
                    if hash(a) != hash(b) or b not in {a: 1} or len({a, b}) != 1:
                        got += " HASH-INCONSISTENT"
            elif f[0] == "sort":
                xs = [env[k] for k in f[1:]]
                inv = {id(v): k for k, v in env.items()}
                got = " ".join(inv[id(x)] for x in sorted(xs))
            else:
                got = "bad"
        except Exception as e:  # noqa
            got = "err " + type(e).__name__
        out.write(got + "\n")
