import ZI.Classes
import ZI.Registry
/-! Scratch (design phase): the integrated world — dynamic specification graph + declarations (C01, C19) +
    registries whose lookup objects subscribe to the specifications they have cached answers for (C05, C08). -/
namespace ZI.World
open ZI.RO ZI.Graph ZI.Classes ZI.Registry

structure U where
  cw : Classes.W
  rw : Registry.World
  required : List (Nat × List Id) := []        -- per registry: `_v_lookup._required`
  superCache : List ((Id × Id) × Id) := []     -- (self-class spec, thisclass) ↦ synthesized Implements (dropped by `changed`)

def U.sync (u : U) : U :=
  { u with rw := { u.rw with sro := fun i => u.cw.sro i, iro := fun i => (u.cw.sro i).filter isIface } }

def U.req (u : U) (r : Nat) : List Id := ((u.required.find? (·.1 == r)).map (·.2)).getD []
def U.setReq (u : U) (r : Nat) (l : List Id) : U :=
  { u with required := (u.required.filter (·.1 != r)) ++ [(r, l)] }

/-- downstream closure of a set of specs through `_dependents` -/
def downClosure (g : G) : Nat → List Id → List Id → List Id
  | 0, _, acc => acc
  | f+1, todo, acc =>
    match todo with
    | [] => acc
    | s :: rest =>
      if acc.contains s then downClosure g f rest acc
      else downClosure g f (rest ++ (g.get s).deps.map (·.1)) (acc ++ [s])

/-- after a declaration operation: every lookup object subscribed to a spec whose `changed` ran is notified -/
def notify (before : G) (u : U) : U :=
  let g := u.cw.g
  let rebased := g.log.drop before.log.length
  let hit := downClosure g (g.nodes.length * g.nodes.length + 8) rebased []
  -- a re-based class specification also drops its cache of super specifications
  let u := { u with superCache := u.superCache.filter fun e => !(hit.contains e.1.1) }
  u.rw.regs.foldl (fun u p =>
    let r := p.1
    if (u.req r).any hit.contains then
      let rw := if u.rw.verifying then verifyingChanged u.rw r else u.rw.setReg r (clearCaches (u.rw.reg r))
      ({ u with rw := rw }).setReq r []
    else u) u

/-- every specification id some registry structure holds a strong reference to -/
def levelKeys {α : Type} : (n : Nat) → Level α n → List Id
  | 0, _ => []
  | n+1, m => (kidsOf m).flatMap fun p => (match p.1 with | some k => [k] | none => []) ++ levelKeys n p.2

def regRefs (u : U) : List Id :=
  (u.rw.regs.flatMap fun p =>
    let x := p.2
    (x.adapters.flatMap fun b => levelKeys (b.order+1) b.tree) ++
    (x.subs.flatMap fun b => levelKeys (b.order+1) b.tree) ++
    (x.cache.flatMap fun e => e.1.2.2) ++ (x.mcache.flatMap fun e => e.1.2) ++ (x.scache.flatMap fun e => e.1.2)) ++
  -- `_required` holds weak references only; a class's `_super_cache` holds its synthesized specs strongly
  (u.superCache.map (·.2))

def declOp (u : U) (f : Classes.W → Classes.W) : U :=
  let before := u.cw.g
  -- weak `Provides` cache: entries whose last holder went away since the previous operation are gone by now
  let cw := collect { u.cw with pinned := regRefs u }
  (notify before { u with cw := f cw }).sync

/-- Python MRO of a class: textbook C3 over the class graph (`object` = class 0 last) -/
def classBases (u : U) : Bases := fun c => (u.cw.cls c).pyBases
def mro (u : U) (c : Id) : List Id := (roFull (classBases u) 64 c).mro

/-- `_implementedBy_super(super(c, o))` -/
def superSpec (u : U) (c o : Id) : U × Id :=
  let selfCls := (u.cw.inst o).cls
  let (cw, selfSpec) := implementedBy 64 u.cw selfCls
  let u := { u with cw := cw }
  match (u.superCache.find? (·.1 == (selfSpec, c))).map (·.2) with
  | some s => (u, s)
  | none =>
    let m := mro u selfCls
    let keep := (m.dropWhile (· != c)).drop 1
    let before := u.cw.g
    let (cw, bases) := keep.foldl (fun (acc : Classes.W × List Id) k =>
      let (w', s) := implementedBy 64 acc.1 k; (w', acc.2 ++ [s])) (u.cw, [])
    let s := cw.next
    let cw := { cw with next := cw.next + 1, g := newNode cw.g s bases }
    let u := notify before { u with cw := cw }
    ({ u with superCache := u.superCache ++ [((selfSpec, c), s)] }.sync, s)

/-- a registry query: `_verify` may fire first (emptying `_required`), a cache miss subscribes to the required specs -/
def afterQuery (u : U) (rw0 rw : Registry.World) (r : Nat) (req : List Id) (miss : Bool) : U :=
  let fired := (rw0.reg r).verifyGen != (u.rw.reg r).verifyGen || (rw0.reg r).verifyRo != (u.rw.reg r).verifyRo
  let u := if fired then ({ u with rw := rw }).setReq r [] else { u with rw := rw }
  if miss then u.setReq r ((u.req r) ++ req.filter fun x => !((u.req r).contains x)) else u

def uLookup (u : U) (r : Nat) (req : List Id) (p : Id) (name : String) : U × Option Val :=
  let u := u.sync
  let rw0 := verify u.rw r
  let miss := (AList.get? (rw0.reg r).cache (p, name, req)).isNone
  let (rw, a) := Registry.lookup u.rw r req p name
  (afterQuery u rw0 rw r req miss, a)

def uLookupAll (u : U) (r : Nat) (req : List Id) (p : Id) : U × Names :=
  let u := u.sync
  let rw0 := verify u.rw r
  let miss := (AList.get? (rw0.reg r).mcache (p, req)).isNone
  let (rw, a) := Registry.lookupAll u.rw r req p
  (afterQuery u rw0 rw r req miss, a)

def uSubscriptions (u : U) (r : Nat) (req : List Id) (p : Option Id) : U × List Val :=
  let u := u.sync
  let rw0 := verify u.rw r
  let miss := (AList.get? (rw0.reg r).scache (p, req)).isNone
  let (rw, a) := Registry.subscriptions u.rw r req p
  (afterQuery u rw0 rw r req miss, a)

/-- registry mutators end in `changed`: every registry whose generation moved had its lookup object's `changed` run -/
def regOp (u : U) (f : Registry.World → Registry.World) : U :=
  let u := u.sync
  let rw := f u.rw
  rw.regs.foldl (fun acc p =>
    if (rw.reg p.1).generation != (u.rw.reg p.1).generation then acc.setReq p.1 [] else acc) { u with rw := rw }

def init (fixedProvides verifying : Bool) : U :=
  let cw := Classes.init fixedProvides
  ({ cw := cw, rw := { sro := fun i => [i, 0], iro := fun i => [i, 0], regs := [], verifying := verifying } } : U).sync
end ZI.World
