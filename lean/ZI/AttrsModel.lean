import ZI.UpdateLemma
/-! C15 model: `Specification.get` / `__getitem__` versus `namesAndDescriptions(all=True)`, tagged values, invariants. -/
namespace ZI.Attrs
open ZI.Upd
abbrev Id := Nat
abbrev Desc := Nat
abbrev Attrs := AList String Desc

/-- `Specification.get(name)`: first direct definition along `__iro__` -/
def getAttr (iro : List Id) (direct : Id → Attrs) (n : String) : Option Desc :=
  iro.findSome? fun j => get? (direct j) n

/-- `namesAndDescriptions(all=True)` after the repair: dict updates along the reversed `__iro__` -/
def nadAllFixed (iro : List Id) (direct : Id → Attrs) : Attrs :=
  iro.reverse.foldl (fun acc j => update acc (direct j)) []

/-- … and at the pinned commit: depth-first over `__bases__`, own attributes last -/
def nadAllAsIs (bases : Id → List Id) (direct : Id → Attrs) : Nat → Id → Attrs
  | 0, _ => []
  | f+1, i => update ((bases i).reverse.foldl (fun acc b => update acc (nadAllAsIs bases direct f b)) []) (direct i)

/-- **C15_agree** (repaired code): every accessor built on `get` and `namesAndDescriptions(all=True)` agree -/
theorem nad_eq_get (iro : List Id) (direct : Id → Attrs) (hd : ∀ j, ((direct j).map (·.1)).Nodup) (n : String) :
    get? (nadAllFixed iro direct) n = getAttr iro direct n := by
  unfold nadAllFixed getAttr
  have h := get?_fold_reverse (iro.map direct) (by
    intro t ht
    obtain ⟨j, _, rfl⟩ := List.mem_map.mp ht
    exact hd j) n
  rw [← List.map_reverse, List.foldl_map, List.findSome?_map] at h
  exact h

/-- a name is present iff some member of `__iro__` defines it directly -/
theorem nad_present_iff (iro : List Id) (direct : Id → Attrs) (hd : ∀ j, ((direct j).map (·.1)).Nodup) (n : String) :
    (get? (nadAllFixed iro direct) n).isSome ↔ ∃ j ∈ iro, (get? (direct j) n).isSome := by
  rw [nad_eq_get iro direct hd n]
  unfold getAttr
  constructor
  · intro h
    cases hf : iro.findSome? (fun j => get? (direct j) n) with
    | none => rw [hf] at h; simp at h
    | some v =>
      obtain ⟨j, hj, hv⟩ := List.exists_of_findSome?_eq_some hf
      exact ⟨j, hj, by rw [hv]; rfl⟩
  · rintro ⟨j, hj, hs⟩
    cases hf : iro.findSome? (fun j => get? (direct j) n) with
    | some v => rfl
    | none =>
      have := List.findSome?_eq_none_iff.mp hf j hj
      rw [this] at hs; simp at hs

/-- the README diamond: IBase = 1 {foo ↦ 10}, IBase1 = 2 (IBase), IBase2 = 3 (IBase) {foo ↦ 30}, ISub = 4 (IBase1, IBase2) -/
def dBases : Id → List Id | 2 => [1] | 3 => [1] | 4 => [2, 3] | 1 => [0] | _ => []
def dDirect : Id → Attrs | 1 => [("foo", 10)] | 3 => [("foo", 30)] | _ => []
def dIro : List Id := [4, 2, 3, 1, 0]          -- ISub.__iro__
example : getAttr dIro dDirect "foo" = some 30 ∧ get? (nadAllAsIs dBases dDirect 5 4) "foo" = some 10 ∧
    get? (nadAllFixed dIro dDirect) "foo" = some 30 := by decide

end ZI.Attrs
