import ZI.Fresh
/-! Scratch (design phase): the specification graph with function-valued components (no assoc-list plumbing). -/
namespace ZI.Graph2
open ZI.RO
open ZI.Prop (prop Down prop_spec)

def upd {α : Type} (f : Id → α) (s : Id) (v : α) : Id → α := fun x => if x = s then v else f x

structure G where
  root : Id
  ids : List Id                         -- created nodes, creation order
  bases : Id → List Id                  -- `_bases`
  sro : Id → List Id                    -- cached `__sro__`
  deps : Id → List (Id × Nat)           -- `_dependents`: dependent ↦ subscription count, insertion order

/-- never-created ids look like base-less nodes; this makes every invariant uniform over all ids -/
def init (root : Id) : G :=
  { root := root, ids := [root], bases := fun _ => [], deps := fun _ => [],
    sro := fun x => if x = root then [root] else [x, root] }

def depIds (g : G) (x : Id) : List Id := (g.deps x).map (·.1)

/-- `Specification.subscribe` -/
def subscribe (g : G) (b dep : Id) : G :=
  let cur := g.deps b
  let new := if cur.any (·.1 == dep) then cur.map fun p => if p.1 == dep then (dep, p.2 + 1) else p
             else cur ++ [(dep, 1)]
  { g with deps := upd g.deps b new }
/-- `Specification.unsubscribe` -/
def unsubscribe (g : G) (b dep : Id) : G :=
  { g with deps := upd g.deps b ((g.deps b).filterMap fun p =>
      if p.1 == dep then (if p.2 ≤ 1 then none else some (dep, p.2 - 1)) else some p) }

/-- `Specification.changed` -/
def changed (fuelRo : Nat) : Nat → G → Id → G
  | 0, g, _ => g
  | f+1, g, s =>
    let g1 := { g with sro := upd g.sro s (Fstep g.bases g.root fuelRo g.sro s) }
    (g.deps s).foldl (fun g d => changed fuelRo f g d.1) g1

/-- `Specification.__setBases` -/
def setBases (g : G) (s : Id) (bs : List Id) : G :=
  let g := (g.bases s).foldl (fun g b => unsubscribe g b s) g
  let g := { g with bases := upd g.bases s bs }
  let g := bs.foldl (fun g b => subscribe g b s) g
  let n := g.ids.length + 1
  changed n n g s

def newNode (g : G) (s : Id) (bs : List Id) : G := setBases { g with ids := g.ids ++ [s] } s bs

def fresh (g : G) (s : Id) : List Id := sroFresh g.bases g.root (g.ids.length + 1) s
def freshHolds (g : G) : Bool := g.ids.all fun s => g.sro s == fresh g s
end ZI.Graph2
