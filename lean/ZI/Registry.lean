import ZI.RO
/-! Scratch (design phase): adapter.py — BaseAdapterRegistry, AdapterLookupBase, LookupBase / VerifyingBase,
    AdapterRegistry / VerifyingAdapterRegistry, on a static specification graph (`sro`, `isOrExtends` given). -/
namespace ZI.Registry
open ZI.RO
structure Val where
  ident : Nat
  eqc : Nat
deriving Repr, DecidableEq, BEq, Inhabited

abbrev AList (κ α : Type) := List (κ × α)
namespace AList
def get? [BEq κ] (m : AList κ α) (k : κ) : Option α := (m.find? (·.1 == k)).map (·.2)
def set [BEq κ] (m : AList κ α) (k : κ) (v : α) : AList κ α :=
  if m.any (·.1 == k) then m.map (fun p => if p.1 == k then (k, v) else p) else m ++ [(k, v)]
def erase [BEq κ] (m : AList κ α) (k : κ) : AList κ α := m.filter (fun p => !(p.1 == k))
end AList

/-- nested dicts: `Level α 0` = leaf (`α`), `Level α (n+1)` = {key → Level α n}; keys are spec ids, `none` = provided None -/
abbrev K := Option Id
def Level (α : Type) : Nat → Type
  | 0 => α
  | n+1 => AList K (Level α n)
def leafOf {α} (l : Level α 0) : α := l
def kidsOf {α} {n : Nat} (l : Level α (n+1)) : AList K (Level α n) := l
def mkLeaf {α} (a : α) : Level α 0 := a
def mkNode {α} {n : Nat} (m : AList K (Level α n)) : Level α (n+1) := m

def Level.empty {α} (e : α) : (n : Nat) → Level α n
  | 0 => mkLeaf e
  | _+1 => mkNode []

def Level.find {α} : (n : Nat) → Level α n → List K → Option α
  | 0, l, [] => some (leafOf l)
  | 0, _, _ :: _ => none
  | _+1, _, [] => none
  | n+1, m, k :: ks => (AList.get? (kidsOf m) k).bind fun c => Level.find n c ks

/-- the `for k in key: d = components.get(k) …` walk creating containers, then `f` at the leaf -/
def Level.update {α} (e : α) (f : α → α) : (n : Nat) → Level α n → List K → Level α n
  | 0, l, _ => mkLeaf (f (leafOf l))
  | n+1, m, path =>
    match path with
    | [] => m
    | k :: ks =>
      let child := (AList.get? (kidsOf m) k).getD (Level.empty e n)
      mkNode (AList.set (kidsOf m) k (Level.update e f n child ks))

/-- remove at a leaf and prune emptied containers on the way back; returns the emptied flag -/
def Level.remove {α} (isEmpty : α → Bool) (f : α → α) : (n : Nat) → Level α n → List K → Level α n × Bool
  | 0, l, _ => let a := f (leafOf l); (mkLeaf a, isEmpty a)
  | n+1, m, path =>
    match path with
    | [] => (m, false)
    | k :: ks =>
      match AList.get? (kidsOf m) k with
      | none => (m, false)
      | some child =>
        let r := Level.remove isEmpty f n child ks
        let m' := if r.2 then AList.erase (kidsOf m) k else AList.set (kidsOf m) k r.1
        (mkNode m', r.2 && m'.isEmpty)

def Level.isEmptyNode {α} {n : Nat} (m : Level α (n+1)) : Bool := (kidsOf m).isEmpty

abbrev Names := AList String Val
/-- one arity of `_adapters` / `_subscribers`: `order` required specs then the provided level -/
structure ByOrder (α : Type) where
  order : Nat
  tree : Level α (order + 1)

structure Reg where
  adapters : List (ByOrder Names) := []
  subs : List (ByOrder (List Val)) := []
  provided : AList Id Nat := []            -- `_provided` reference counts
  extendors : AList Id (List Id) := []     -- `_v_lookup._extendors`
  bases : List Nat := []
  ro : List Nat := []
  generation : Nat := 0
  subregs : List Nat := []                 -- `_v_subregistries`
  -- lookup object
  cache : AList (Id × String × List Id) (Option Val) := []
  mcache : AList (Id × List Id) (List (String × Val)) := []
  scache : AList (Option Id × List Id) (List Val) := []
  verifyRo : List Nat := []
  verifyGen : List Nat := []

structure World where
  sro : Id → List Id                       -- static specification graph
  iro : Id → List Id
  regs : AList Nat Reg
  verifying : Bool

def World.reg (w : World) (r : Nat) : Reg := (AList.get? w.regs r).getD {}
def World.setReg (w : World) (r : Nat) (x : Reg) : World := { w with regs := AList.set w.regs r x }

def getOrder {α} (e : α) (l : List (ByOrder α)) (order : Nat) : Level α (order + 1) :=
  match l.find? (·.order == order) with
  | some b => if h : b.order = order then h ▸ b.tree else Level.empty e (order+1)
  | none => Level.empty e (order+1)
def setOrder {α} (l : List (ByOrder α)) (order : Nat) (t : Level α (order+1)) : List (ByOrder α) :=
  if l.any (·.order == order) then l.map (fun b => if b.order == order then ⟨order, t⟩ else b) else l ++ [⟨order, t⟩]
def hasOrder {α} (l : List (ByOrder α)) (order : Nat) : Bool :=
  match l.find? (·.order == order) with
  | some b => !(Level.isEmptyNode b.tree)
  | none => false

/-! ### extendors -/
def addExtendor (w : World) (x : Reg) (p : Id) : Reg :=
  { x with extendors := (w.iro p).foldl (fun ext i =>
      let cur := (AList.get? ext i).getD []
      let isOrExt := fun (e : Id) => (w.sro p).contains e          -- provided.isOrExtends(e)
      AList.set ext i (cur.filter isOrExt ++ [p] ++ cur.filter (fun e => !isOrExt e))) x.extendors }
def removeExtendor (w : World) (x : Reg) (p : Id) : Reg :=
  { x with extendors := (w.iro p).foldl (fun ext i =>
      AList.set ext i (((AList.get? ext i).getD []).filter (· != p))) x.extendors }

/-! ### change notification -/
def clearCaches (x : Reg) : Reg := { x with cache := [], mcache := [], scache := [] }

/-- `VerifyingBase.changed`: clear and re-snapshot the generations of `ro[1:]` -/
def verifyingChangedBase (w : World) (r : Nat) : World :=
  let x := clearCaches (w.reg r)
  let vro := x.ro.drop 1
  w.setReg r { x with verifyRo := vro, verifyGen := vro.map fun b => (w.reg b).generation }

/-- `VerifyingAdapterLookup.changed` (repaired twice): the registry's resolution order is re-derived from the current
base graph on *every* change notification, its own included — `VerifyingBase.changed` takes a new generation
snapshot, after which `_verify` can no longer see that an ancestor had been re-based -/
def verifyingChanged (w : World) (r : Nat) : World :=
  verifyingChangedBase (w.setReg r { w.reg r with ro := (roFull (fun b => (w.reg b).bases) (w.regs.length + 1) r).mro }) r

/-- `BaseAdapterRegistry.changed` (+ `AdapterRegistry.changed` cascading into sub-registries) -/
def changed : Nat → World → Nat → World
  | 0, w, _ => w
  | f+1, w, r =>
    let x := w.reg r
    let w := w.setReg r { x with generation := x.generation + 1 }
    if w.verifying then verifyingChanged w r
    else
      let w := w.setReg r (clearCaches (w.reg r))
      (w.reg r).subregs.foldl (fun w s => changed f w s) w

/-! ### registry resolution order -/
def regBases (w : World) : Bases := fun r => (w.reg r).bases

/-- `VerifyingBase._verify` as at the pinned commit: a stale `ro` survives -/
def verifyAsIs (w : World) (r : Nat) : World :=
  if !w.verifying then w else
  let x := w.reg r
  if (x.verifyRo.map fun b => (w.reg b).generation) != x.verifyGen then verifyingChangedBase w r else w

/-- `VerifyingBase._verify` → `VerifyingAdapterLookup.changed(None)` (repaired): when the generation snapshot is
out of date the registry's resolution order is re-derived from the current base graph before the re-snapshot -/
def verify (w : World) (r : Nat) : World :=
  if !w.verifying then w else
  let x := w.reg r
  if (x.verifyRo.map fun b => (w.reg b).generation) != x.verifyGen then
    verifyingChanged w r
  else w

/-- `BaseAdapterRegistry._setBases` -/
def setBasesOwn (fuel : Nat) (w : World) (r : Nat) (bs : List Nat) : World :=
  let w := w.setReg r { w.reg r with bases := bs }
  let w := w.setReg r { w.reg r with ro := (roFull (regBases w) fuel r).mro }
  changed fuel w r

/-- `_removeSubregistry` / `_addSubregistry` bookkeeping of `AdapterRegistry._setBases` -/
def moveSubreg (w : World) (r : Nat) (old bs : List Nat) : World :=
  let w := old.foldl (fun w b => if bs.contains b then w else
    w.setReg b { w.reg b with subregs := (w.reg b).subregs.filter (· != r) }) w
  bs.foldl (fun w b => if old.contains b then w else
    w.setReg b { w.reg b with subregs := (w.reg b).subregs.filter (· != r) ++ [r] }) w

/-- as at the pinned commit: only the registry's own `ro` is recomputed -/
def setBasesAsIs (fuel : Nat) (w : World) (r : Nat) (bs : List Nat) : World :=
  let w := if w.verifying then w else moveSubreg w r (w.reg r).bases bs
  setBasesOwn fuel w r bs

/-- `AdapterRegistry._setBases` (repaired): afterwards every sub-registry re-runs `_setBases` on its own bases -/
def setBasesPush (fuel : Nat) : Nat → World → Nat → List Nat → World
  | 0, w, _, _ => w
  | f+1, w, r, bs =>
    let w := moveSubreg w r (w.reg r).bases bs
    let w := setBasesOwn fuel w r bs
    (w.reg r).subregs.foldl (fun w s => setBasesPush fuel f w s (w.reg s).bases) w

def setBases (fuel : Nat) (w : World) (r : Nat) (bs : List Nat) : World :=
  if w.verifying then setBasesOwn fuel w r bs else setBasesPush fuel fuel w r bs

/-! ### mutators -/
def convNone (k : Option Id) : K := some (k.getD 0)            -- `_convert_None_to_Interface`

def register (fuel : Nat) (w : World) (r : Nat) (req : List (Option Id)) (prov : Id) (name : String) (v : Val) : World :=
  let x := w.reg r
  let order := req.length
  let path := req.map convNone ++ [some prov]
  let tree := getOrder ([] : Names) x.adapters order
  let cur := (Level.find (order+1) tree path).bind fun names => AList.get? names name
  if cur.map (·.ident) == some v.ident then w else                  -- `components.get(name) is value`
  let tree := Level.update ([] : Names) (fun names => AList.set names name v) (order+1) tree path
  let x := { x with adapters := setOrder x.adapters order tree }
  let n := ((AList.get? x.provided prov).getD 0) + 1
  let x := { x with provided := AList.set x.provided prov n }
  let x := if n == 1 then addExtendor w x prov else x
  changed fuel (w.setReg r x) r

def unregister (fuel : Nat) (w : World) (r : Nat) (req : List (Option Id)) (prov : Id) (name : String) (v : Option Val) : World :=
  let x := w.reg r
  let order := req.length
  if !(x.adapters.any (·.order == order)) then w else
  let path := req.map convNone ++ [some prov]
  let tree := getOrder ([] : Names) x.adapters order
  match (Level.find (order+1) tree path).bind fun names => AList.get? names name with
  | none => w
  | some old =>
    if (match v with | some v => old.ident != v.ident | none => false) then w else
    let r' := Level.remove (fun (names : Names) => names.isEmpty) (fun names => AList.erase names name) (order+1) tree path
    let x := { x with adapters := setOrder x.adapters order r'.1 }
    let n := ((AList.get? x.provided prov).getD 0) - 1
    let x := if n == 0 then removeExtendor w { x with provided := AList.erase x.provided prov } prov
             else { x with provided := AList.set x.provided prov n }
    changed fuel (w.setReg r x) r

def subscribe (fuel : Nat) (w : World) (r : Nat) (req : List (Option Id)) (prov : Option Id) (v : Val) : World :=
  let x := w.reg r
  let order := req.length
  let path := req.map convNone ++ [prov]
  let tree := getOrder ([] : List Val) x.subs order
  let tree := Level.update ([] : List Val) (fun vs => vs ++ [v]) (order+1) tree path
  let x := { x with subs := setOrder x.subs order tree }
  let x := match prov with
    | none => x
    | some p =>
      let n := ((AList.get? x.provided p).getD 0) + 1
      let x := { x with provided := AList.set x.provided p n }
      if n == 1 then addExtendor w x p else x
  changed fuel (w.setReg r x) r

def unsubscribe (fuel : Nat) (w : World) (r : Nat) (req : List (Option Id)) (prov : Option Id) (v : Option Val) : World :=
  let x := w.reg r
  let order := req.length
  if !(x.subs.any (·.order == order)) then w else
  let path := req.map convNone ++ [prov]
  let tree := getOrder ([] : List Val) x.subs order
  match Level.find (order+1) tree path with
  | none => w
  | some old =>
    if old.isEmpty then w else
    let new := match v with
      | none => []
      | some v => old.filter fun u => u.eqc != v.eqc                    -- `v != to_remove`
    if new.length == old.length then w else
    let r' := Level.remove (fun (vs : List Val) => vs.isEmpty) (fun _ => new) (order+1) tree path
    let x := { x with subs := setOrder x.subs order r'.1 }
    let x := match prov with
      | none => x
      | some p =>
        let n := ((AList.get? x.provided p).getD 0) + new.length - old.length
        if n == 0 then removeExtendor w { x with provided := AList.erase x.provided p } p
        else { x with provided := AList.set x.provided p n }
    changed fuel (w.setReg r x) r

/-! ### lookups -/
/-- `_lookup` -/
def lookupRec (w : World) : (n : Nat) → Level Names (n+1) → List Id → List Id → String → Option Val
  | 0, m, _, ext, name =>
      ext.findSome? fun iface =>
        match AList.get? (kidsOf m) (some iface) with
        | some names => AList.get? (leafOf names) name
        | none => none
  | n+1, m, specs, ext, name =>
      match specs with
      | [] => none
      | s :: rest =>
        (w.sro s).findSome? fun sp =>
          match AList.get? (kidsOf m) (some sp) with
          | some comps => if Level.isEmptyNode comps then none else lookupRec w n comps rest ext name
          | none => none

/-- `_lookupAll`: reversed walks, later (more specific) names overwrite -/
def lookupAllRec (w : World) : (n : Nat) → Level Names (n+1) → List Id → List Id → Names → Names
  | 0, m, _, ext, acc =>
      ext.reverse.foldl (fun acc iface =>
        match AList.get? (kidsOf m) (some iface) with
        | some names => (leafOf names).foldl (fun acc p => AList.set acc p.1 p.2) acc
        | none => acc) acc
  | n+1, m, specs, ext, acc =>
      match specs with
      | [] => acc
      | s :: rest =>
        (w.sro s).reverse.foldl (fun acc sp =>
          match AList.get? (kidsOf m) (some sp) with
          | some comps => if Level.isEmptyNode comps then acc else lookupAllRec w n comps rest ext acc
          | none => acc) acc

/-- `_subscriptions` -/
def subsRec (w : World) : (n : Nat) → Level (List Val) (n+1) → List Id → List K → List Val → List Val
  | 0, m, _, ext, acc =>
      ext.reverse.foldl (fun acc iface =>
        match AList.get? (kidsOf m) iface with
        | some vs => acc ++ leafOf vs
        | none => acc) acc
  | n+1, m, specs, ext, acc =>
      match specs with
      | [] => acc
      | s :: rest =>
        (w.sro s).reverse.foldl (fun acc sp =>
          match AList.get? (kidsOf m) (some sp) with
          | some comps => if Level.isEmptyNode comps then acc else subsRec w n comps rest ext acc
          | none => acc) acc

def uncachedLookup (w : World) (r : Nat) (req : List Id) (prov : Id) (name : String) : Option Val :=
  (w.reg r).ro.findSome? fun b =>
    let x := w.reg b
    let order := req.length
    if !(x.adapters.any (·.order == order)) then none else
    match AList.get? x.extendors prov with
    | none => none
    | some ext => if ext.isEmpty then none else lookupRec w order (getOrder ([] : Names) x.adapters order) req ext name

def uncachedLookupAll (w : World) (r : Nat) (req : List Id) (prov : Id) : Names :=
  (w.reg r).ro.reverse.foldl (fun acc b =>
    let x := w.reg b
    let order := req.length
    if !(x.adapters.any (·.order == order)) then acc else
    match AList.get? x.extendors prov with
    | none => acc
    | some ext => if ext.isEmpty then acc else lookupAllRec w order (getOrder ([] : Names) x.adapters order) req ext acc) []

def uncachedSubscriptions (w : World) (r : Nat) (req : List Id) (prov : Option Id) : List Val :=
  (w.reg r).ro.reverse.foldl (fun acc b =>
    let x := w.reg b
    let order := req.length
    if !(x.subs.any (·.order == order)) then acc else
    let ext : Option (List K) := match prov with
      | none => some [none]
      | some p => (AList.get? x.extendors p).map fun l => l.map some
    match ext with
    | none => acc
    | some ext => subsRec w order (getOrder ([] : List Val) x.subs order) req ext acc) []

def lookup (w : World) (r : Nat) (req : List Id) (prov : Id) (name : String) : World × Option Val :=
  let w := verify w r
  let x := w.reg r
  match AList.get? x.cache (prov, name, req) with
  | some a => (w, a)
  | none =>
    let a := uncachedLookup w r req prov name
    (w.setReg r { x with cache := AList.set x.cache (prov, name, req) a }, a)

def lookupAll (w : World) (r : Nat) (req : List Id) (prov : Id) : World × Names :=
  let w := verify w r
  let x := w.reg r
  match AList.get? x.mcache (prov, req) with
  | some a => (w, a)
  | none =>
    let a := uncachedLookupAll w r req prov
    (w.setReg r { x with mcache := AList.set x.mcache (prov, req) a }, a)

def subscriptions (w : World) (r : Nat) (req : List Id) (prov : Option Id) : World × List Val :=
  let w := verify w r
  let x := w.reg r
  match AList.get? x.scache (prov, req) with
  | some a => (w, a)
  | none =>
    let a := uncachedSubscriptions w r req prov
    (w.setReg r { x with scache := AList.set x.scache (prov, req) a }, a)

def registered (w : World) (r : Nat) (req : List (Option Id)) (prov : Id) (name : String) : Option Val :=
  let x := w.reg r
  let order := req.length
  (Level.find (order+1) (getOrder ([] : Names) x.adapters order) (req.map convNone ++ [some prov])).bind fun names =>
    AList.get? names name

/-! ### enumeration, `subscribed`, `rebuild` -/
/-- `_allKeys`: all paths of a nested container in dict order -/
def Level.entries {α} : (n : Nat) → Level α n → List (List K × α)
  | 0, l => [([], leafOf l)]
  | n+1, m => (kidsOf m).flatMap fun p => (Level.entries n p.2).map fun e => (p.1 :: e.1, e.2)

def sortByOrder {α} (l : List (ByOrder α)) : List (ByOrder α) :=
  (l.toArray.qsort (fun a b => a.order < b.order)).toList

/-- `allRegistrations()`: (required, provided, name, value) in the order the code yields them -/
def allRegistrations (x : Reg) : List (List K × K × String × Val) :=
  (sortByOrder x.adapters).flatMap fun b =>
    (Level.entries (b.order+1) b.tree).flatMap fun e =>
      e.2.map fun nv => (e.1.dropLast, e.1.getLast?.getD none, nv.1, nv.2)

/-- `allSubscriptions()` -/
def allSubscriptions (x : Reg) : List (List K × K × Val) :=
  (sortByOrder x.subs).flatMap fun b =>
    (Level.entries (b.order+1) b.tree).flatMap fun e =>
      e.2.map fun v => (e.1.dropLast, e.1.getLast?.getD none, v)

/-- `subscribed(required, provided, subscriber)`: the first entry equal (`==`) to the subscriber's class -/
def subscribed (w : World) (r : Nat) (req : List (Option Id)) (prov : Option Id) (v : Val) : Option Val :=
  let x := w.reg r
  let order := req.length
  match Level.find (order+1) (getOrder ([] : List Val) x.subs order) (req.map convNone ++ [prov]) with
  | some vs => if vs.any (fun u => u.ident == v.ident || u.eqc == v.eqc) then some v else none
  | none => none

/-- `rebuild()`: re-`__init__` (fresh containers, fresh lookup object, sub-registries kept — repaired), then replay -/
def rebuild (fuel : Nat) (w : World) (r : Nat) : World :=
  let x := w.reg r
  let regs := allRegistrations x
  let subs := allSubscriptions x
  let w := w.setReg r { x with adapters := [], subs := [], provided := [], extendors := [],
                                cache := [], mcache := [], scache := [], verifyRo := [], verifyGen := [] }
  let w := setBases fuel w r x.bases
  let w := regs.foldl (fun w e => register fuel w r e.1 (e.2.1.getD 0) e.2.2.1 e.2.2.2) w
  subs.foldl (fun w e => subscribe fuel w r e.1 e.2.1 e.2.2) w

/-- `_createLookup()`: the lookup object is thrown away and a new one is made for the registry as it stands (what unpickling a
    persistent registry does): empty caches, no generation snapshot, and an extendors table built by `init_extendors` from the
    keys of `_provided` in their insertion order; then `changed()` of the new lookup object (a generation-checking one takes its
    snapshot).  The registration data is untouched. -/
def relookup (w : World) (r : Nat) : World :=
  let x := w.reg r
  let x0 := { x with extendors := [], cache := [], mcache := [], scache := [], verifyRo := [], verifyGen := [] }
  let w := w.setReg r (x.provided.foldl (fun acc pc => addExtendor w acc pc.1) x0)
  -- ... followed by `_v_lookup.changed(registry)`, as a persistent registry's `__setstate__` does
  if w.verifying then verifyingChanged w r else w
end ZI.Registry
