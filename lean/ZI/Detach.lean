/-! C11 (second half): "no answer computed before a mutation survives in the cache afterwards".

A second, smaller IR of the C lookup functions keeps only what matters for that clause: where a cache container is
(re)read from the lookup object (`fetch`), where arbitrary Python code runs and produces the answer (`callback` +
`compute`), and where an answer is stored into a container (`store`).

Semantics.  `gen` counts the invalidations (`changed()`: the lookup object's cache fields are dropped) that have happened so
far.  A fetched container is the live one of the generation current at the fetch.  During a callback the environment —
other threads under the GIL, or re-entrant code — performs any number of invalidations; the answer the callback returns
reflects the registry at SOME moment of the callback, i.e. carries any generation between the one at its start and the one
at its end.  A store is *bad* when it puts an answer of an older generation into the container that is live now. -/
namespace ZI.Detach
abbrev Var := Nat

inductive Op
  | fetch (c : Var)        -- c := _getcache(self, …) / _subcache(self->field, …)
  | callback               -- Python code runs (the `_uncached_*` call, PySequence_Tuple, …)
  | compute (v : Var)      -- v := the answer returned by the callback that just ran
  | store (c v : Var)      -- PyDict_SetItem(c, key, v)
deriving Repr, DecidableEq

inductive Prog
  | done
  | seq (o : Op) (rest : Prog)
  | branch (p q : Prog)
deriving Repr

/-! ### static check: a store needs a container fetched strictly before the callback that computed the answer -/
structure AS where
  epoch : Nat := 0                      -- callbacks seen so far
  fetchedAt : Var → Option Nat := fun _ => none
  computedAt : Var → Option Nat := fun _ => none

def upd (f : Var → Option Nat) (v : Var) (n : Nat) : Var → Option Nat := fun x => if x = v then some n else f x

def astep (σ : AS) : Op → Option AS
  | .fetch c => some { σ with fetchedAt := upd σ.fetchedAt c σ.epoch }
  | .callback => some { σ with epoch := σ.epoch + 1 }
  | .compute v => some { σ with computedAt := upd σ.computedAt v σ.epoch }
  | .store c v =>
      match σ.fetchedAt c, σ.computedAt v with
      | some fc, some cv => if fc < cv then some σ else none
      | _, _ => none

def check : Prog → AS → Bool
  | .done, _ => true
  | .seq o rest, σ => match astep σ o with | some σ' => check rest σ' | none => false
  | .branch p q, σ => check p σ && check q σ

/-! ### concrete semantics with an adversarial environment -/
structure CS where
  gen : Nat := 0                        -- invalidations so far
  lastStart : Nat := 0                  -- generation at the start of the last callback
  contGen : Var → Option Nat := fun _ => none     -- generation in which the container held in c was the live one
  ansGen : Var → Option Nat := fun _ => none      -- generation the answer held in v reflects

/-- one concrete step; the environment chooses `k` (invalidations during a callback) and `g` (which moment the answer reflects) -/
inductive Step : CS → Op → CS → Prop
  | fetch (s : CS) (c : Var) : Step s (.fetch c) { s with contGen := upd s.contGen c s.gen }
  | callback (s : CS) (k : Nat) : Step s .callback { s with lastStart := s.gen, gen := s.gen + k }
  | compute (s : CS) (v : Var) (g : Nat) (h1 : s.lastStart ≤ g) (h2 : g ≤ s.gen) :
      Step s (.compute v) { s with ansGen := upd s.ansGen v g }
  | store (s : CS) (c v : Var) : Step s (.store c v) s

/-- the bad event: an answer of an older generation goes into the container that is live now -/
def StaleStore (s : CS) : Op → Prop
  | .store c v => ∃ gc gv, s.contGen c = some gc ∧ s.ansGen v = some gv ∧ gc = s.gen ∧ gv < s.gen
  | _ => False

def SafeP : Prog → CS → Prop
  | .done, _ => True
  | .seq o rest, s => ¬ StaleStore s o ∧ ∀ s', Step s o s' → SafeP rest s'
  | .branch p q, s => SafeP p s ∧ SafeP q s

/-- relation between the abstract and the concrete state.  `startAt e` = generation at the start of callback number `e`,
`endAt e` = generation at its end (history variables of the run; only the entries up to the current epoch matter). -/
structure Rel (σ : AS) (s : CS) (startAt endAt : Nat → Nat) : Prop where
  mono : ∀ e, e ≤ σ.epoch → startAt e ≤ endAt e
  chain : ∀ e, e < σ.epoch → endAt e ≤ startAt (e + 1)
  now : endAt σ.epoch = s.gen
  last : σ.epoch = 0 ∨ startAt σ.epoch = s.lastStart
  /-- a container fetched in epoch `e` (after callback `e`, before callback `e+1`) was live in generation `endAt e` -/
  cont : ∀ c e, σ.fetchedAt c = some e → s.contGen c = some (endAt e)
  /-- an answer computed by callback `e` reflects a generation between its start and its end -/
  ans : ∀ v e, σ.computedAt v = some e → ∃ g, s.ansGen v = some g ∧ (e = 0 ∨ startAt e ≤ g) ∧ g ≤ endAt e
  fetchLe : ∀ c e, σ.fetchedAt c = some e → e ≤ σ.epoch
  compLe : ∀ v e, σ.computedAt v = some e → e ≤ σ.epoch

theorem endAt_mono {n : Nat} {startAt endAt : Nat → Nat} (mono : ∀ e, e ≤ n → startAt e ≤ endAt e)
    (chain : ∀ e, e < n → endAt e ≤ startAt (e + 1)) : ∀ a b, a ≤ b → b ≤ n → endAt a ≤ endAt b := by
  intro a b hab
  induction hab with
  | refl => intro _; exact Nat.le_refl _
  | @step m _ ih =>
    intro hb
    exact Nat.le_trans (ih (by omega)) (Nat.le_trans (chain m (by omega)) (mono (m + 1) hb))

/-- an allowed store is never a stale store -/
theorem safe_store {σ : AS} {s : CS} {startAt endAt : Nat → Nat} (hr : Rel σ s startAt endAt) {c v : Var} {σ' : AS}
    (ha : astep σ (.store c v) = some σ') : ¬ StaleStore s (.store c v) := by
  rintro ⟨gc, gv, hc, hv, hlive, hstale⟩
  simp only [astep] at ha
  cases hfc : σ.fetchedAt c with
  | none => simp [hfc] at ha
  | some fc =>
    cases hcv : σ.computedAt v with
    | none => simp [hfc, hcv] at ha
    | some cv =>
      simp only [hfc, hcv] at ha
      by_cases hlt : fc < cv
      · have h1 := hr.cont c fc hfc
        rw [hc] at h1
        obtain ⟨g, hg, hlo, _⟩ := hr.ans v cv hcv
        rw [hv] at hg
        have hgeq : gv = g := Option.some.inj hg
        have hgc : gc = endAt fc := Option.some.inj h1
        have hcvle := hr.compLe v cv hcv
        have hcvpos : cv ≠ 0 := by omega
        have hlo' : startAt cv ≤ g := by rcases hlo with h | h; exact absurd h hcvpos; exact h
        have hchain : endAt fc ≤ startAt cv := by
          have h5 := hr.chain (cv - 1) (by omega)
          have h6 : cv - 1 + 1 = cv := by omega
          rw [h6] at h5
          exact Nat.le_trans (endAt_mono hr.mono hr.chain fc (cv - 1) (by omega) (by omega)) h5
        omega
      · simp [hlt] at ha

/-- every step of a checked program preserves the relation (for suitably extended history variables) -/
theorem rel_step {σ σ' : AS} {s s' : CS} {startAt endAt : Nat → Nat} {o : Op}
    (hr : Rel σ s startAt endAt) (ha : astep σ o = some σ') (hs : Step s o s') :
    ∃ startAt' endAt', Rel σ' s' startAt' endAt' := by
  cases hs with
  | fetch c =>
    simp only [astep, Option.some.injEq] at ha; subst ha
    refine ⟨startAt, endAt, hr.mono, hr.chain, hr.now, hr.last, ?_, hr.ans, ?_, hr.compLe⟩
    · intro c' e he
      simp only [upd] at he ⊢
      by_cases hc : c' = c
      · simp only [hc, if_true, Option.some.injEq] at he ⊢; subst he; exact hr.now.symm
      · simp only [hc, if_false] at he ⊢; exact hr.cont c' e he
    · intro c' e he
      simp only [upd] at he
      by_cases hc : c' = c
      · simp only [hc, if_true, Option.some.injEq] at he; subst he; exact Nat.le_refl _
      · simp only [hc, if_false] at he; exact hr.fetchLe c' e he
  | callback k =>
    simp only [astep, Option.some.injEq] at ha; subst ha
    refine ⟨fun e => if e ≤ σ.epoch then startAt e else s.gen, fun e => if e ≤ σ.epoch then endAt e else s.gen + k, ?_⟩
    constructor
    · intro e he
      by_cases h : e ≤ σ.epoch
      · simp only [h, if_true]; exact hr.mono e h
      · simp only [h, if_false]; omega
    · intro e he
      have he' : e ≤ σ.epoch := by simp only at he; omega
      simp only [he', if_true]
      by_cases h : e + 1 ≤ σ.epoch
      · simp only [h, if_true]; exact hr.chain e (by omega)
      · simp only [h, if_false]
        have : e = σ.epoch := by omega
        subst this; exact Nat.le_of_eq hr.now
    · show (if σ.epoch + 1 ≤ σ.epoch then endAt (σ.epoch + 1) else s.gen + k) = s.gen + k
      have : ¬ (σ.epoch + 1 ≤ σ.epoch) := by omega
      simp only [this, if_false]
    · right
      show (if σ.epoch + 1 ≤ σ.epoch then startAt (σ.epoch + 1) else s.gen) = s.gen
      have : ¬ (σ.epoch + 1 ≤ σ.epoch) := by omega
      simp only [this, if_false]
    · intro c e he
      have := hr.fetchLe c e he
      simp only [this, if_true]; exact hr.cont c e he
    · intro v e he
      have := hr.compLe v e he
      simp only [this, if_true]; exact hr.ans v e he
    · intro c e he; have := hr.fetchLe c e he; simp only; omega
    · intro v e he; have := hr.compLe v e he; simp only; omega
  | compute v g h1 h2 =>
    simp only [astep, Option.some.injEq] at ha; subst ha
    refine ⟨startAt, endAt, hr.mono, hr.chain, hr.now, hr.last, hr.cont, ?_, hr.fetchLe, ?_⟩
    · intro v' e he
      simp only [upd] at he ⊢
      by_cases hv : v' = v
      · simp only [hv, if_true, Option.some.injEq] at he ⊢; subst he
        refine ⟨g, rfl, ?_, by rw [hr.now]; exact h2⟩
        rcases hr.last with h | h
        · exact Or.inl h
        · right; rw [h]; exact h1
      · simp only [hv, if_false] at he ⊢; exact hr.ans v' e he
    · intro v' e he
      simp only [upd] at he
      by_cases hv : v' = v
      · simp only [hv, if_true, Option.some.injEq] at he; subst he; exact Nat.le_refl _
      · simp only [hv, if_false] at he; exact hr.compLe v' e he
  | store c v =>
    simp only [astep] at ha
    cases hfc : σ.fetchedAt c with
    | none => simp [hfc] at ha
    | some fc =>
      cases hcv : σ.computedAt v with
      | none => simp [hfc, hcv] at ha
      | some cv =>
        simp only [hfc, hcv] at ha
        by_cases hlt : fc < cv
        · simp only [hlt, if_true, Option.some.injEq] at ha; subst ha; exact ⟨startAt, endAt, hr⟩
        · simp [hlt] at ha

/-- **C11_detached**: a program accepted by the static check never stores an answer of an older generation into the
cache that is live at the moment of the store — whatever invalidations the environment performs at the callbacks, and
whichever moment of a callback its answer reflects -/
theorem check_sound : ∀ (p : Prog) (σ : AS) (s : CS), check p σ = true →
    (∃ startAt endAt, Rel σ s startAt endAt) → SafeP p s := by
  intro p
  induction p with
  | done => intro _ _ _ _; trivial
  | seq o rest ih =>
    intro σ s hc ⟨sa, ea, hr⟩
    simp only [check] at hc
    cases ha : astep σ o with
    | none => rw [ha] at hc; simp at hc
    | some σ' =>
      rw [ha] at hc
      refine ⟨?_, fun s' hs => ih σ' s' hc (rel_step hr ha hs)⟩
      cases o with
      | store c v => exact safe_store hr ha
      | _ => simp [StaleStore]
  | branch p q ihp ihq =>
    intro σ s hc hr
    simp only [check, Bool.and_eq_true] at hc
    exact ⟨ihp σ s hc.1 hr, ihq σ s hc.2 hr⟩

theorem rel_init : Rel {} {} (fun _ => 0) (fun _ => 0) :=
  ⟨fun _ _ => Nat.le_refl _, fun _ _ => Nat.le_refl _, rfl, Or.inl rfl,
   fun _ _ h => by simp at h, fun _ _ h => by simp at h, fun _ _ h => by simp at h, fun _ _ h => by simp at h⟩

/-- the repaired `_lookup` in this IR, and the "fetch the cache again after the call" alternative -/
def lookupKeep : Prog :=
  .seq .callback <| .seq (.fetch 1) <| .branch (.seq .callback <| .seq (.compute 3) <| .seq (.store 1 3) .done) .done
def lookupRefetch : Prog :=
  .seq .callback <| .seq (.fetch 1) <| .branch (.seq .callback <| .seq (.compute 3) <| .seq (.fetch 1) <| .seq (.store 1 3) .done) .done
example : check lookupKeep {} = true ∧ check lookupRefetch {} = false := by decide
end ZI.Detach
