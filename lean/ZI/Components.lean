import ZI.Registry
/-! C16 model: registry.py `Components` on top of the adapter-registry model. `fixed = false` reproduces the pinned
`unregisterUtility` (the counter cache addressed with the component passed in), `true` the repaired one (b1af53e). -/
namespace ZI.Components
open ZI.Registry
abbrev Id := Nat

/-- a component / factory: identity, equality class, hashability -/
structure C where
  v : Val
  hashable : Bool := true
deriving Repr, Inhabited
def C.eq (a b : C) : Bool := a.v.eqc == b.v.eqc

inductive Ev | registered (kind : String) | unregistered (kind : String)
deriving Repr
def Ev.str : Ev → String
  | .registered k => "R:" ++ k
  | .unregistered k => "U:" ++ k

structure Comp where
  w : World                                   -- registry 0 = utilities, registry 1 = adapters
  utilRegs : AList (Id × String) (C × String) := []                  -- _utility_registrations
  adapterRegs : AList (List Id × Id × String) (C × String) := []      -- _adapter_registrations
  subRegs : List (List Id × Id × C × String) := []                   -- _subscription_registrations
  handlerRegs : List (List Id × C × String) := []                    -- _handler_registrations
  ucache : AList Id (List (C × Nat) × Bool) := []                     -- {provided: {component: count}}, Bool = switched to the non-hashing counter

def FUEL := 8
def UT := 0
def AD := 1

def count (cache : List (C × Nat)) (c : C) : Nat := ((cache.find? fun p => p.1.eq c).map (·.2)).getD 0
def setCount (cache : List (C × Nat)) (c : C) (n : Nat) : List (C × Nat) :=
  if cache.any (fun p => p.1.eq c) then cache.map (fun p => if p.1.eq c then (p.1, n) else p) else cache ++ [(c, n)]
def delCount (cache : List (C × Nat)) (c : C) : List (C × Nat) := cache.filter fun p => !(p.1.eq c)

/-- `_UtilityRegistrations.__cache_utility`: one more for `(provided, component)`; an unhashable component switches the
`provided` entry to the non-hashing counter -/
def cacheUtility (uc : AList Id (List (C × Nat) × Bool)) (p : Id) (c : C) : AList Id (List (C × Nat) × Bool) :=
  let (cache, unh) := (AList.get? uc p).getD ([], false)
  AList.set uc p (setCount cache c (count cache c + 1), unh || !c.hashable)

/-- `_UtilityRegistrations.__populate_cache`: the counter cache is volatile (`_v_utility_registrations_cache`, not pickled,
dropped by `__init__`); when it has gone away it is rebuilt from the listing, one count per `(provided, name)` entry -/
def populateCache (regs : AList (Id × String) (C × String)) : AList Id (List (C × Nat) × Bool) :=
  regs.foldl (fun uc e => cacheUtility uc e.1.1 e.2.1) []

/-- `_UtilityRegistrations.registerUtility` -/
def cacheRegister (s : Comp) (p : Id) (name : String) (c : C) (info : String) : Comp :=
  let (cache, unh) := (AList.get? s.ucache p).getD ([], false)
  -- `_is_utility_subscribed`: TypeError on an unhashable component while still a dict → False
  let subscribed := if !c.hashable && !unh then false else count cache c > 0
  let s := { s with utilRegs := AList.set s.utilRegs (p, name) (c, info) }
  let s := { s with w := register FUEL s.w UT [] p name c.v }
  let s := if subscribed then s else { s with w := subscribe FUEL s.w UT [] (some p) c.v }
  { s with ucache := cacheUtility s.ucache p c }

/-- `_UtilityRegistrations.unregisterUtility`; `none` = TypeError raised half-way (finding 12) -/
def cacheUnregister (s : Comp) (p : Id) (name : String) (c : C) : Comp × Bool :=
  let s := { s with utilRegs := AList.erase s.utilRegs (p, name) }
  let s := { s with w := unregister FUEL s.w UT [] p name none }
  let (cache, unh) := (AList.get? s.ucache p).getD ([], false)
  if !c.hashable && !unh then (s, false) else       -- `provided[component]` on a dict with an unhashable key
  let n := count cache c - 1
  let cache := if n == 0 then delCount cache c else setCount cache c n
  let s := { s with ucache := AList.set s.ucache p (cache, unh) }
  (if n > 0 then s else { s with w := unsubscribe FUEL s.w UT [] (some p) (some c.v) }, true)

def unregisterUtilityV (fixed : Bool) (s : Comp) (c : Option C) (p : Id) (name : String) : Comp × String × List Ev :=
  match AList.get? s.utilRegs (p, name) with
  | none => (s, "False", [])
  | some old =>
    if (match c with | some c => !(c.eq old.1) | none => false) then (s, "False", []) else
    let comp := if fixed then old.1 else c.getD old.1        -- repaired: always the registered object
    let (s, ok) := cacheUnregister s p name comp
    if ok then (s, "True", [.unregistered "Utility"]) else (s, "TypeError", [])

def unregisterUtility (s : Comp) (c : Option C) (p : Id) (name : String) : Comp × String × List Ev :=
  unregisterUtilityV true s c p name

def registerUtility (s : Comp) (c : C) (p : Id) (name : String) (info : String) : Comp × String × List Ev :=
  match AList.get? s.utilRegs (p, name) with
  | some reg =>
    if reg.1.eq c && reg.2 == info then (s, "None", []) else
    let (s, r, evs) := unregisterUtility s (some reg.1) p name
    if r == "TypeError" then (s, r, evs) else
    (cacheRegister s p name c info, "None", evs ++ [.registered "Utility"])
  | none => (cacheRegister s p name c info, "None", [.registered "Utility"])

def registerAdapter (s : Comp) (f : C) (req : List Id) (p : Id) (name info : String) : Comp × String × List Ev :=
  let s := { s with adapterRegs := AList.set s.adapterRegs (req, p, name) (f, info) }
  ({ s with w := register FUEL s.w AD (req.map some) p name f.v }, "None", [.registered "Adapter"])

def unregisterAdapter (s : Comp) (f : Option C) (req : List Id) (p : Id) (name : String) : Comp × String × List Ev :=
  match AList.get? s.adapterRegs (req, p, name) with
  | none => (s, "False", [])
  | some old =>
    if (match f with | some f => !(f.eq old.1) | none => false) then (s, "False", []) else
    let s := { s with adapterRegs := AList.erase s.adapterRegs (req, p, name) }
    ({ s with w := unregister FUEL s.w AD (req.map some) p name none }, "True", [.unregistered "Adapter"])

def registerSubscriptionAdapter (s : Comp) (f : C) (req : List Id) (p : Id) (info : String) : Comp × String × List Ev :=
  let s := { s with subRegs := s.subRegs ++ [(req, p, f, info)] }
  ({ s with w := subscribe FUEL s.w AD (req.map some) (some p) f.v }, "None", [.registered "Subscription"])

def unregisterSubscriptionAdapter (s : Comp) (f : Option C) (req : List Id) (p : Id) : Comp × String × List Ev :=
  let new := s.subRegs.filter fun t => !(t.1 == req && t.2.1 == p && (match f with | some f => t.2.2.1.eq f | none => true))
  if new.length == s.subRegs.length then (s, "False", []) else
  let s := { s with subRegs := new }
  ({ s with w := unsubscribe FUEL s.w AD (req.map some) (some p) (f.map (·.v)) }, "True", [.unregistered "Subscription"])

def registerHandler (s : Comp) (f : C) (req : List Id) (info : String) : Comp × String × List Ev :=
  let s := { s with handlerRegs := s.handlerRegs ++ [(req, f, info)] }
  ({ s with w := subscribe FUEL s.w AD (req.map some) none f.v }, "None", [.registered "Handler"])

def unregisterHandler (s : Comp) (f : Option C) (req : List Id) : Comp × String × List Ev :=
  let new := s.handlerRegs.filter fun t => !(t.1 == req && (match f with | some f => t.2.1.eq f | none => true))
  if new.length == s.handlerRegs.length then (s, "False", []) else
  let s := { s with handlerRegs := new }
  ({ s with w := unsubscribe FUEL s.w AD (req.map some) none (f.map (·.v)) }, "True", [.unregistered "Handler"])

/-- `__setstate__` of a picklable adapter registry (zope.component.persistentregistry, the library's own
`PersistentAdapterRegistry` test double): `_adapters`, `_subscribers`, `_provided`, `__bases__` come back from the pickle,
the lookup object is created anew (empty caches, `init_extendors()` over `_provided` in its order), then `__bases__` is
assigned again -/
def reloadRegistry (w : World) (r : Nat) : World :=
  let x := { clearCaches (w.reg r) with extendors := [] }
  let x := x.provided.foldl (fun x e => addExtendor w x e.1) x
  setBases FUEL (w.setReg r x) r x.bases

/-- a pickle round trip of a picklable `Components` (`__reduce__` elides the `_v_` attributes): the four listings and both
registries survive, the lookup objects and the utility counter cache are rebuilt -/
def reload (s : Comp) : Comp :=
  { s with w := reloadRegistry (reloadRegistry s.w UT) AD, ucache := populateCache s.utilRegs }

/-- `Components.__init__` run again on a live object (zope.component.testing does this): new empty registries, empty
listings, no counter cache -/
def reinit (s : Comp) : Comp :=
  let w : World := { s.w with regs := [] }
  let w := setBases FUEL (w.setReg UT {}) UT []
  let w := setBases FUEL (w.setReg AD {}) AD []
  { w := w }

/-- `rebuildUtilityRegistryFromLocalCache()` (probe only): (needed_registered, needed_subscribed) -/
def probe (s : Comp) : Nat × Nat :=
  s.utilRegs.foldl (fun acc e =>
    let p := e.1.1; let name := e.1.2; let c := e.2.1
    let reg := registered s.w UT [] p name
    let needReg := match reg with | some v => v.eqc != c.v.eqc | none => true       -- `registered(...) != value`
    let subsLeaf := (Level.find 1 (getOrder ([] : List Val) (s.w.reg UT).subs 0) [some p]).getD []
    let needSub := !(subsLeaf.any fun v => v.eqc == c.v.eqc)                           -- `subscribed(...) is None`
    (acc.1 + (if needReg then 1 else 0), acc.2 + (if needSub then 1 else 0))) (0, 0)
end ZI.Components
