/-! Scratch: abstract core of C02 — depth-first change propagation reaches the local fixpoint. -/
namespace ZI.Prop
abbrev Id := Nat
abbrev St := Id → List Id            -- the cached value (sro) of every node

def upd (σ : St) (s : Id) (v : List Id) : St := fun x => if x = s then v else σ x

/-- `Specification.changed`, abstractly: recompute `s` with `F`, then each dependent in order -/
def prop (deps : Id → List Id) (F : St → Id → List Id) : Nat → St → Id → St
  | 0, σ, _ => σ
  | f+1, σ, s => (deps s).foldl (fun σ d => prop deps F f σ d) (upd σ s (F σ s))

/-- downstream closure through the dependents relation -/
inductive Down (deps : Id → List Id) : Id → Id → Prop
  | refl (s) : Down deps s s
  | step {s d x} : d ∈ deps s → Down deps d x → Down deps s x

section
variable (bases deps : Id → List Id) (rank : Id → Nat) (N : Nat)
variable (F : St → Id → List Id)

theorem Down.trans_dep {deps : Id → List Id} {s b x : Id} (h : Down deps s b) (hx : x ∈ deps b) : Down deps s x := by
  induction h with
  | refl s => exact Down.step hx (Down.refl x)
  | step hd _ ih => exact Down.step hd (ih hx)

theorem Down.rank_le {deps : Id → List Id} {rank : Id → Nat}
    (hr : ∀ b d, d ∈ deps b → rank b < rank d) {s x : Id} (h : Down deps s x) : rank s ≤ rank x := by
  induction h with
  | refl s => exact Nat.le_refl _
  | step hd _ ih => exact Nat.le_trans (Nat.le_of_lt (hr _ _ hd)) ih

theorem Down.cases {deps : Id → List Id} {s x : Id} (h : Down deps s x) : x = s ∨ ∃ d ∈ deps s, Down deps d x := by
  cases h with
  | refl => exact Or.inl rfl
  | step hd h' => exact Or.inr ⟨_, hd, h'⟩

/-- the fold over a list of dependents, given the specification of `prop` for each of them -/
theorem fold_spec
    (hdb : ∀ x b, b ∈ bases x → x ∈ deps b)
    (hF : ∀ (σ σ' : St) s, (∀ b ∈ bases s, σ b = σ' b) → F σ s = F σ' s)
    (f : Nat) (ds : List Id)
    (ih : ∀ d ∈ ds, ∀ σ : St, (∀ x, ¬ Down deps d x → prop deps F f σ d x = σ x) ∧
                               (∀ x, Down deps d x → prop deps F f σ d x = F (prop deps F f σ d) x)) :
    ∀ σ : St,
      (∀ x, (∀ d ∈ ds, ¬ Down deps d x) → ds.foldl (fun σ d => prop deps F f σ d) σ x = σ x) ∧
      (∀ x, (∃ d ∈ ds, Down deps d x) →
        ds.foldl (fun σ d => prop deps F f σ d) σ x = F (ds.foldl (fun σ d => prop deps F f σ d) σ) x) := by
  induction ds with
  | nil =>
    intro σ
    exact ⟨fun x _ => rfl, fun x ⟨d, hd, _⟩ => by simp at hd⟩
  | cons d ds ihds =>
    intro σ
    have ihd := ih d (by simp) σ
    have ihrest := ihds (fun d' hd' => ih d' (by simp [hd'])) (prop deps F f σ d)
    simp only [List.foldl_cons]
    refine ⟨?_, ?_⟩
    · intro x hx
      rw [ihrest.1 x (fun d' hd' => hx d' (by simp [hd']))]
      exact ihd.1 x (hx d (by simp))
    · intro x hx
      by_cases hlater : ∃ d' ∈ ds, Down deps d' x
      · exact ihrest.2 x hlater
      · -- `x` is downstream of `d` only: its last recomputation happened inside `prop … d`
        have hxd : Down deps d x := by
          obtain ⟨d', hd', hdown⟩ := hx
          rcases List.mem_cons.mp hd' with rfl | h
          · exact hdown
          · exact absurd ⟨d', h, hdown⟩ hlater
        have hnot : ∀ d' ∈ ds, ¬ Down deps d' x := fun d' hd' h => hlater ⟨d', hd', h⟩
        rw [ihrest.1 x hnot, ihd.2 x hxd]
        apply hF
        intro b hb
        -- a base of `x` downstream of a later dependent would put `x` there too
        have : ∀ d' ∈ ds, ¬ Down deps d' b := fun d' hd' h => hnot d' hd' (h.trans_dep (hdb x b hb))
        exact (ihrest.1 b this).symm

/-- **C02 core.** After `changed s`, nothing outside the downstream closure of `s` is touched and every node inside
it satisfies its local equation in the final state. -/
theorem prop_spec
    (hrb : ∀ s b, b ∈ bases s → rank b < rank s)
    (hrd : ∀ b d, d ∈ deps b → rank b < rank d)
    (hdb : ∀ x b, b ∈ bases x → x ∈ deps b)
    (hN : ∀ s, rank s ≤ N)
    (hF : ∀ (σ σ' : St) s, (∀ b ∈ bases s, σ b = σ' b) → F σ s = F σ' s) :
    ∀ (f : Nat) (s : Id) (σ : St), N - rank s < f →
      (∀ x, ¬ Down deps s x → prop deps F f σ s x = σ x) ∧
      (∀ x, Down deps s x → prop deps F f σ s x = F (prop deps F f σ s) x) := by
  intro f
  induction f with
  | zero => intro s σ h; omega
  | succ f ih =>
    intro s σ hf
    have ihd : ∀ d ∈ deps s, ∀ σ : St, (∀ x, ¬ Down deps d x → prop deps F f σ d x = σ x) ∧
        (∀ x, Down deps d x → prop deps F f σ d x = F (prop deps F f σ d) x) := by
      intro d hd σ
      have h1 := hrd s d hd
      have h2 := hN d
      exact ih d σ (by omega)
    have fs := fold_spec bases deps F hdb hF f (deps s) ihd (upd σ s (F σ s))
    simp only [prop]
    -- nothing downstream of a dependent of `s` has rank ≤ rank s
    have hlow : ∀ y, rank y ≤ rank s → ∀ d ∈ deps s, ¬ Down deps d y := by
      intro y hy d hd hdown
      have := Down.rank_le hrd hdown
      have := hrd s d hd
      omega
    refine ⟨?_, ?_⟩
    · intro x hx
      have hxs : x ≠ s := fun e => hx (by rw [e]; exact Down.refl s)
      rw [fs.1 x (fun d hd h => hx (Down.step hd h))]
      simp [upd, hxs]
    · intro x hx
      rcases hx.cases with rfl | hex
      · -- x = s
        rw [fs.1 x (hlow x (Nat.le_refl _))]
        simp only [upd, if_true]
        apply hF
        intro b hb
        have hbr := hrb x b hb
        rw [fs.1 b (hlow b (Nat.le_of_lt hbr))]
        have : b ≠ x := fun e => by rw [e] at hbr; exact Nat.lt_irrefl _ hbr
        simp [upd, this]
      · exact fs.2 x hex
end

#print axioms prop_spec
end ZI.Prop
