import ZI.Graph
/-! Scratch (design phase): declarations.py on top of the specification graph — C01 model, as the code is
    at the pinned commit (`fixedProvides = false`) or with the planned repair (`true`). -/
namespace ZI.Classes
open ZI.RO ZI.Graph

structure Cls where
  pyBases : List Id            -- Python `__bases__` (class ids); `[]` only for `object`
  spec : Option Id := none     -- `cls.__implemented__`
  declared : List Id := []     -- `spec.declared`
  inherit : Bool := true       -- `spec.inherit is not None`
deriving Repr

structure Inst where
  cls : Id
  prov : Option Id := none     -- own `__provides__` (a Provides spec)
deriving Repr

structure W where
  g : G
  classes : List (Id × Cls)
  insts : List (Id × Inst)
  pcache : List ((Id × List Id) × Id)     -- InstanceDeclarations: (cls, *interfaces) ↦ Provides spec (weak values)
  next : Id                                -- fresh specification ids (interfaces use ids < 1000)
  pinned : List Id := []                   -- specs kept alive by others (registration keys, lookup caches, …)
  fixedProvides : Bool

def W.cls (w : W) (c : Id) : Cls := ((w.classes.find? (·.1 == c)).map (·.2)).getD { pyBases := [] }
def W.setCls (w : W) (c : Id) (k : Cls) : W :=
  if w.classes.any (·.1 == c) then { w with classes := w.classes.map fun p => if p.1 == c then (c, k) else p }
  else { w with classes := w.classes ++ [(c, k)] }
def W.inst (w : W) (o : Id) : Inst := ((w.insts.find? (·.1 == o)).map (·.2)).getD { cls := 0 }
def W.setInst (w : W) (o : Id) (k : Inst) : W :=
  if w.insts.any (·.1 == o) then { w with insts := w.insts.map fun p => if p.1 == o then (o, k) else p }
  else { w with insts := w.insts ++ [(o, k)] }

def isIface (x : Id) : Bool := x < 1000
def W.sro (w : W) (s : Id) : List Id := (w.g.get s).sro
def W.isOrExtends (w : W) (s x : Id) : Bool := (w.sro s).contains x          -- `x in s._implied`
def W.extendsStrict (w : W) (i b : Id) : Bool := w.isOrExtends i b && i != b   -- `i.extends(b)`

/-- ordered dedupe, first occurrence wins (structural, so that `decide` can evaluate histories) -/
def dedupe (l : List Id) : List Id := l.foldl (fun acc x => if acc.contains x then acc else acc ++ [x]) []

/-- `implementedBy(cls)`: lazily create the class specification (bases' specifications first). -/
def implementedBy : Nat → W → Id → W × Id
  | 0, w, _ => (w, 0)
  | f+1, w, c =>
    match (w.cls c).spec with
    | some s => (w, s)
    | none =>
      let (w, bspecs) := (w.cls c).pyBases.foldl (fun (acc : W × List Id) b =>
        let (w', s) := implementedBy f acc.1 b; (w', acc.2 ++ [s])) (w, [])
      let s := w.next
      let w := { w with next := w.next + 1, g := newNode w.g s bspecs }
      (w.setCls c { w.cls c with spec := some s }, s)

/-- `_classImplements_ordered(spec, before, after)` -/
def classImplementsOrdered (fuel : Nat) (w : W) (c : Id) (before after : List Id) : W :=
  let (w, s) := implementedBy fuel w c
  let k := w.cls c
  let keep := fun (x : Id) => !(w.isOrExtends s x) || (x == 0 && k.declared.isEmpty)
  let before := before.filter keep
  let after := after.filter keep
  let newDeclared := dedupe (before ++ k.declared ++ after)
  let (w, bases) :=
    if k.inherit then
      k.pyBases.foldl (fun (acc : W × List Id) b =>
        let (w', bs) := implementedBy fuel acc.1 b
        if acc.2.contains bs then (w', acc.2) else (w', acc.2 ++ [bs])) (w, newDeclared)
    else (w, newDeclared)
  let w := w.setCls c { w.cls c with declared := newDeclared }
  { w with g := setBases w.g s bases }

/-- `classImplements(cls, *interfaces)` -/
def classImplements (fuel : Nat) (w : W) (c : Id) (ifaces : List Id) : W :=
  let (w, _) := implementedBy fuel w c
  let declared := (w.cls c).declared
  let before := ifaces.filter fun i => declared.any fun b => w.extendsStrict i b
  let after := ifaces.filter fun i => !(declared.any fun b => w.extendsStrict i b)
  classImplementsOrdered fuel w c before after

/-- `classImplementsOnly(cls, *interfaces)` -/
def classImplementsOnly (fuel : Nat) (w : W) (c : Id) (ifaces : List Id) : W :=
  let (w, s) := implementedBy fuel w c
  let w := w.setCls c { w.cls c with declared := [], inherit := false }
  let w := { w with g := setBases w.g s [] }
  classImplementsOrdered fuel w c ifaces []

def classImplementsFirst (fuel : Nat) (w : W) (c : Id) (iface : Id) : W :=
  classImplementsOrdered fuel w c [iface] []

/-- `Declaration._add_interfaces_to_cls(interfaces, cls)` -/
def addInterfacesToCls (fuel : Nat) (w : W) (ifaces : List Id) (c : Id) : W × List Id :=
  let (w, s) := implementedBy fuel w c
  (w, ifaces.filter (fun i => !(w.isOrExtends s i)) ++ [s])

/-- the `Provides(cls, *interfaces)` factory with its shared cache -/
def provides (fuel : Nat) (w : W) (c : Id) (ifaces : List Id) : W × Id :=
  let hit := (w.pcache.find? (·.1 == (c, ifaces))).map (·.2)
  let (w, freshBases) := addInterfacesToCls fuel w ifaces c
  let usable := match hit with
    | some p => if w.fixedProvides then (w.g.get p).bases == freshBases else true
    | none => false
  match hit, usable with
  | some p, true => (w, p)
  | _, _ =>
    let p := w.next
    let w := { w with next := w.next + 1, g := newNode w.g p freshBases }
    ({ w with pcache := (w.pcache.filter (·.1 != (c, ifaces))) ++ [((c, ifaces), p)] }, p)

/-- weak values: an entry lives as long as some instance holds the declaration -/
def collect (w : W) : W :=
  { w with pcache := w.pcache.filter fun e => (w.insts.any fun i => i.2.prov == some e.2) || w.pinned.contains e.2 }

def directlyProvides (fuel : Nat) (w : W) (o : Id) (ifaces : List Id) : W :=
  let c := (w.inst o).cls
  let (w, p) := provides fuel w c ifaces
  collect (w.setInst o { w.inst o with prov := some p })

/-- `directlyProvidedBy(ob)` as a flat list of interfaces -/
def directlyProvidedBy (w : W) (o : Id) : List Id :=
  match (w.inst o).prov with
  | none => []
  | some p => dedupe ((w.g.get p).bases.dropLast)

def alsoProvides (fuel : Nat) (w : W) (o : Id) (ifaces : List Id) : W :=
  directlyProvides fuel w o (directlyProvidedBy w o ++ ifaces)

/-- `providedBy(ob)` -/
def providedBy (fuel : Nat) (w : W) (o : Id) : W × Id :=
  match (w.inst o).prov with
  | some p => (w, p)
  | none => implementedBy fuel w (w.inst o).cls

def noLongerProvides (fuel : Nat) (w : W) (o : Id) (iface : Id) : W × Bool :=
  let remaining := (directlyProvidedBy w o).filter fun i => !(w.isOrExtends i iface)     -- `i.extends(j, 0)`
  let w := directlyProvides fuel w o remaining
  let (w, s) := providedBy fuel w o
  (w, w.isOrExtends s iface)                                                               -- → ValueError

def init (fixed : Bool) : W :=
  -- `implementedBy(object)` exists from import time
  let g := newNode (ZI.Graph.init 0) 1000 []
  { g := g, classes := [(0, { pyBases := [], spec := some 1000 })], insts := [], pcache := [], next := 1001, fixedProvides := fixed }
end ZI.Classes
