/-! C18 model (core Lean only): interface.py `fromFunction` / `fromMethod` / `getSignatureInfo` / `getSignatureString`
over the CPython code-object layout.  Default values are opaque ids; `reprOf` renders them. -/
namespace ZI.Method
structure Code where
  argcount : Nat            -- co_argcount: positional-only + positional-or-keyword
  kwonly : Nat              -- co_kwonlyargcount
  varnames : List String    -- co_varnames
  hasVarargs : Bool         -- co_flags & CO_VARARGS
  hasKwargs : Bool          -- co_flags & CO_VARKEYWORDS
  defaults : List Nat       -- func.__defaults__ (ids of the default values)
deriving Repr

structure Info where
  positional : List String
  required : List String
  optional : List (String × Nat)   -- the `optional` dict: name ↦ default, insertion order
  varargs : Option String
  kwargs : Option String
deriving Repr, DecidableEq

/-- which historical version of `fromFunction` -/
inductive Version
  | pinned        -- as at the pinned commit: the `*args` index ignores keyword-only names, imlevel is not clamped
  | kwonlyFixed   -- after f2168a3 (keyword-only offset)
  | current       -- after 612b202 (a `self` absorbed by `*args` is not dropped from the names)
deriving DecidableEq, Repr

/-- `fromFunction(func, imlevel=…)` -/
def fromFunctionV (ver : Version) (c : Code) (imlevel0 : Nat) : Info :=
  let imlevel := if ver = .current then min imlevel0 c.argcount else imlevel0
  let na := c.argcount - imlevel
  let names := c.varnames.drop imlevel
  let nd := min c.defaults.length na            -- `if nr < 0: defaults = defaults[-nr:]; nr = 0`
  let defs := c.defaults.drop (c.defaults.length - nd)
  let nr := na - nd
  let argno := if ver = .pinned then na else na + c.kwonly
  { positional := names.take na
    required := names.take nr
    optional := List.zip (names.drop nr) defs
    varargs := if c.hasVarargs then names[argno]? else none
    kwargs := if c.hasKwargs then names[argno + (if c.hasVarargs then 1 else 0)]? else none }

def fromFunction (c : Code) (imlevel : Nat) : Info := fromFunctionV .current c imlevel
/-- `fromMethod(meth)`: the function behind the bound method, one leading name dropped -/
def fromMethod (c : Code) : Info := fromFunction c 1

/-- one positional name as `getSignatureString` renders it: `name=repr(default)` if it is a key of `optional` -/
def renderName (reprOf : Nat → String) (opt : List (String × Nat)) (v : String) : String :=
  match opt.find? (·.1 == v) with
  | some p => v ++ "=" ++ reprOf p.2
  | none => v

/-- `Method.getSignatureString` -/
def sigString (reprOf : Nat → String) (i : Info) : String :=
  let parts := i.positional.map (renderName reprOf i.optional)
  let parts := parts ++ (match i.varargs with | some a => if a == "" then [] else ["*" ++ a] | none => [])
  let parts := parts ++ (match i.kwargs with | some k => if k == "" then [] else ["**" ++ k] | none => [])
  "(" ++ ", ".intercalate parts ++ ")"

/-- CPython's layout of `co_varnames` for a function whose first `lead` parameters are dropped (0, or 1 for `self`) -/
structure Layout (c : Code) (lead pos kw : List String) (star dstar : Option String) (locals : List String) : Prop where
  names : c.varnames = lead ++ pos ++ kw ++ star.toList ++ dstar.toList ++ locals
  npos : lead.length + pos.length = c.argcount
  nkw : kw.length = c.kwonly
  fstar : c.hasVarargs = star.isSome
  fdstar : c.hasKwargs = dstar.isSome
end ZI.Method
