/-! Scratch (design phase): C18 — interface.py `fromFunction` over the CPython code-object layout. -/
namespace ZI.Method
structure Code where
  argcount : Nat            -- co_argcount: positional-only + positional-or-keyword
  kwonly : Nat              -- co_kwonlyargcount
  varnames : List String    -- co_varnames
  hasVarargs : Bool         -- co_flags & CO_VARARGS
  hasKwargs : Bool          -- co_flags & CO_VARKEYWORDS
  ndefaults : Nat           -- len(__defaults__)
deriving Repr

structure Info where
  positional : List String
  required : List String
  optional : List String    -- names that received a default (the dict's keys, in order)
  varargs : Option String
  kwargs : Option String
deriving Repr, DecidableEq

/-- `fromFunction(func, imlevel=…)`. `fixed = false` is the pinned commit (the `*args` index ignores keyword-only names). -/
def fromFunction (fixed : Bool) (c : Code) (imlevel : Nat) : Info :=
  let na := c.argcount - imlevel
  let names := c.varnames.drop imlevel
  let nd := min c.ndefaults na            -- `if nr < 0: defaults = defaults[-nr:]; nr = 0`
  let nr := na - nd
  let argno := if fixed then na + c.kwonly else na
  { positional := names.take na
    required := names.take nr
    optional := (names.drop nr).take nd    -- zip(names[nr:], defaults)
    varargs := if c.hasVarargs then names[argno]? else none
    kwargs := if c.hasKwargs then names[argno + (if c.hasVarargs then 1 else 0)]? else none }

/-- CPython's layout of `co_varnames` -/
structure Layout (c : Code) (pos kw : List String) (star dstar : Option String) (locals : List String) : Prop where
  names : c.varnames = pos ++ kw ++ star.toList ++ dstar.toList ++ locals
  npos : pos.length = c.argcount
  nkw : kw.length = c.kwonly
  fstar : c.hasVarargs = star.isSome
  fdstar : c.hasKwargs = dstar.isSome
  ndef : c.ndefaults ≤ c.argcount

/-- **C18_info** for plain functions (`imlevel = 0`) after the repair -/
theorem fromFunction_spec (c : Code) (pos kw : List String) (star dstar : Option String) (locals : List String)
    (h : Layout c pos kw star dstar locals) :
    fromFunction true c 0 =
      { positional := pos
        required := pos.take (c.argcount - c.ndefaults)
        optional := pos.drop (c.argcount - c.ndefaults)
        varargs := star
        kwargs := dstar } := by
  obtain ⟨hn, hp, hk, hs, hd, hnd⟩ := h
  have hmin : min c.ndefaults c.argcount = c.ndefaults := Nat.min_eq_left hnd
  simp only [fromFunction, Nat.sub_zero, List.drop_zero, hmin, if_true]
  rw [hn]
  have e1 : (pos ++ kw ++ star.toList ++ dstar.toList ++ locals) = pos ++ (kw ++ star.toList ++ dstar.toList ++ locals) := by
    simp [List.append_assoc]
  congr 1
  · rw [e1, List.take_append_of_le_length (by omega), ← hp, List.take_length]
  · rw [e1, List.take_append_of_le_length (by omega)]
  · rw [e1, List.drop_append_of_le_length (by omega)]
    rw [List.take_append_of_le_length (by simp; omega)]
    rw [List.take_of_length_le (by simp; omega)]
  · -- varargs
    cases star with
    | none => simp [hs]
    | some a =>
      simp only [hs, Option.isSome_some, if_true]
      have : (pos ++ kw ++ [a] ++ dstar.toList ++ locals) = (pos ++ kw) ++ (a :: (dstar.toList ++ locals)) := by
        simp [List.append_assoc]
      simp only [Option.toList_some] 
      rw [this, List.getElem?_append_right (by simp; omega)]
      simp [hp, hk]
  · -- kwargs
    cases dstar with
    | none => simp [hd]
    | some b =>
      simp only [hd, Option.isSome_some, if_true]
      cases star with
      | none =>
        simp only [hs, Option.isSome_none, Bool.false_eq_true, if_false, Option.toList_none, List.append_nil, Nat.add_zero,
          Option.toList_some]
        have : (pos ++ kw ++ [b] ++ locals) = (pos ++ kw) ++ (b :: locals) := by simp [List.append_assoc]
        rw [this, List.getElem?_append_right (by simp; omega)]
        simp [hp, hk]
      | some a =>
        simp only [hs, Option.isSome_some, if_true, Option.toList_some]
        have : (pos ++ kw ++ [a] ++ [b] ++ locals) = (pos ++ kw ++ [a]) ++ (b :: locals) := by simp [List.append_assoc]
        rw [this, List.getElem?_append_right (by simp; omega)]
        have : c.argcount + c.kwonly + 1 - (c.argcount + (c.kwonly + 1)) = 0 := by omega
        simp [hp, hk, this]

/-- the pinned commit: `def f(a, b=1, *args, k=1, **kw)` is described as `(a, b=1, *k, **args)` -/
def fCode : Code := ⟨2, 1, ["a", "b", "k", "args", "kw"], true, true, 1⟩
example : (fromFunction false fCode 0).varargs = some "k" ∧ (fromFunction false fCode 0).kwargs = some "args" := by decide
example : (fromFunction true fCode 0).varargs = some "args" ∧ (fromFunction true fCode 0).kwargs = some "kw" := by decide

#print axioms fromFunction_spec
end ZI.Method
