/-! Scratch (design phase): C04 core — adapter.py `_lookup` over nested dicts = first hit in lexicographic order. -/
namespace ZI.Lookup
abbrev Id := Nat
abbrev Val := Nat
abbrev AList (κ α : Type) := List (κ × α)
def AList.get? [BEq κ] (m : AList κ α) (k : κ) : Option α := (m.find? (·.1 == k)).map (·.2)

/-- `Level 0` = {name → value}; `Level (n+1)` = {spec → Level n} -/
def Level : Nat → Type
  | 0 => AList String Val
  | n+1 => AList Id (Level n)
def namesOf (l : Level 0) : AList String Val := l
def childrenOf {n : Nat} (l : Level (n+1)) : AList Id (Level n) := l

/-- follow a path of keys down to the name table -/
def Level.find : (n : Nat) → Level n → List Id → Option (AList String Val)
  | 0, leaf, [] => some (namesOf leaf)
  | 0, _, _ :: _ => none
  | _+1, _, [] => none
  | n+1, m, k :: ks => (AList.get? (childrenOf m) k).bind fun c => Level.find n c ks

def Level.isEmpty : (n : Nat) → Level n → Bool
  | 0, m => List.isEmpty (namesOf m)
  | _+1, m => List.isEmpty (childrenOf m)

/-- adapter.py `_lookup(components, specs, provided, name, i, l)`; `n` = levels still to descend *before* the
`provided` level, `sros` = the `__sro__` of the remaining required specs, `ext` = the extendors of `provided`. -/
def lookupRec : (n : Nat) → Level (n+1) → (sros : List (List Id)) → (ext : List Id) → String → Option Val
  | 0, m, _, ext, name =>
      ext.findSome? fun iface =>
        match AList.get? (childrenOf m) iface with
        | some names => if Level.isEmpty 0 names then none else AList.get? (namesOf names) name   -- `if comps:`
        | none => none
  | n+1, m, sros, ext, name =>
      match sros with
      | [] => none
      | sro :: rest =>
        sro.findSome? fun sp =>
          match AList.get? (childrenOf m) sp with
          | some comps => if Level.isEmpty (n+1) comps then none else lookupRec n comps rest ext name   -- `if comps:`
          | none => none

/-- all key paths, in the lexicographic order of (position in sro₁, position in sro₂, …, position in ext) -/
def paths : List (List Id) → List Id → List (List Id)
  | [], ext => ext.map fun e => [e]
  | sro :: rest, ext => sro.flatMap fun sp => (paths rest ext).map fun p => sp :: p

/-- what a path yields -/
def hit (n : Nat) (m : Level (n+1)) (name : String) (p : List Id) : Option Val :=
  (Level.find (n+1) m p).bind fun names => AList.get? names name

theorem findSome?_flatMap {α β γ} (l : List α) (g : α → List β) (f : β → Option γ) :
    (l.flatMap g).findSome? f = l.findSome? fun a => (g a).findSome? f := by
  induction l with
  | nil => rfl
  | cons a t ih =>
    simp only [List.flatMap_cons, List.findSome?_append, ih, List.findSome?_cons]
    cases (g a).findSome? f <;> simp

theorem findSome?_map' {α β γ} (l : List α) (g : α → β) (f : β → Option γ) :
    (l.map g).findSome? f = l.findSome? (f ∘ g) := by
  induction l with
  | nil => rfl
  | cons a t ih => simp [List.findSome?_cons, ih]

theorem findSome?_congr' {α β} {l : List α} {f g : α → Option β} (h : ∀ a ∈ l, f a = g a) :
    l.findSome? f = l.findSome? g := by
  induction l with
  | nil => rfl
  | cons a t ih =>
    simp only [List.findSome?_cons, h a (by simp)]
    rw [ih fun b hb => h b (by simp [hb])]

theorem hit_cons (n : Nat) (m : Level (n+2)) (name : String) (k : Id) (p : List Id) :
    hit (n+1) m name (k :: p) = (AList.get? (childrenOf m) k).bind fun c => hit n c name p := by
  simp only [hit, Level.find]
  cases AList.get? (childrenOf m) k <;> rfl

theorem hit_zero (m : Level 1) (name : String) (k : Id) :
    hit 0 m name [k] = (AList.get? (childrenOf m) k).bind fun c => AList.get? (namesOf c) name := by
  simp only [hit, Level.find]
  cases AList.get? (childrenOf m) k <;> rfl

/-- an empty container yields nothing anyway, so the `if comps:` short-cuts do not change the result -/
theorem hit_empty (n : Nat) (m : Level (n+1)) (name : String) (p : List Id) (h : Level.isEmpty (n+1) m = true) :
    hit n m name p = none := by
  have he : childrenOf m = [] := List.isEmpty_iff.mp h
  cases p with
  | nil => simp [hit, Level.find]
  | cons k ks => simp [hit, Level.find, he, AList.get?]

/-- **C04 core**: the nested walk returns the first hit along the lexicographically ordered paths. -/
theorem lookupRec_eq_first : ∀ (n : Nat) (m : Level (n+1)) (sros : List (List Id)) (ext : List Id) (name : String),
    sros.length = n → lookupRec n m sros ext name = (paths sros ext).findSome? (hit n m name) := by
  intro n
  induction n with
  | zero =>
    intro m sros ext name hl
    have : sros = [] := by cases sros <;> simp_all
    subst this
    simp only [lookupRec, paths, findSome?_map']
    apply findSome?_congr'
    intro iface _
    simp only [Function.comp, hit_zero]
    cases hg : AList.get? (childrenOf m) iface with
    | none => rfl
    | some names =>
      simp only [Option.bind_some]
      split
      · rename_i he
        have : namesOf names = [] := List.isEmpty_iff.mp he
        rw [this]; rfl
      · rfl
  | succ n ih =>
    intro m sros ext name hl
    cases sros with
    | nil => simp at hl
    | cons sro rest =>
      simp only [lookupRec, paths, findSome?_flatMap, findSome?_map']
      apply findSome?_congr'
      intro sp _
      have hrest : rest.length = n := by simpa using hl
      have hcomp : ((hit (n+1) m name) ∘ fun p => sp :: p) =
          fun p => (AList.get? (childrenOf m) sp).bind fun c => hit n c name p := by
        funext p; simp only [Function.comp, hit_cons]
      rw [hcomp]
      cases hg : AList.get? (childrenOf m) sp with
      | none =>
        simp only [Option.bind_none]
        symm
        exact List.findSome?_eq_none_iff.mpr fun p _ => rfl
      | some comps =>
        simp only [Option.bind_some]
        split
        · rename_i he
          symm
          exact List.findSome?_eq_none_iff.mpr fun p _ => hit_empty n comps name p he
        · exact ih comps rest ext name hrest

#print axioms lookupRec_eq_first
end ZI.Lookup
