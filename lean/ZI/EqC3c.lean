import ZI.EqC3b
namespace ZI.RO

/-- the node-level merge of `ro.py` is the textbook merge with `c` in front (as Options: both may fail) -/
theorem mergeLoop_eq_spec {c : Id} {rest : List (List Id)} (hndl : ∀ x ∈ rest, x.Nodup) (hcn : ∀ x ∈ rest, c ∉ x) :
    mergeLoop (size ([c] :: rest) + 1) ([c] :: rest) none [] =
      (specMerge (size rest + 1) rest []).map (c :: ·) := by
  rw [mergeLoop_eq_go, dropIgn_none_eq]
  have hfil : ([c] :: rest).filter nonempty = [c] :: rest.filter nonempty := by simp [nonempty]
  rw [hfil, size_cons]
  have hcn' : ∀ x ∈ rest.filter nonempty, c ∉ x := fun x hx => hcn x (List.mem_filter.mp hx).1
  have hne' : NoEmpty (rest.filter nonempty) := by
    intro x hx he
    have := (List.mem_filter.mp hx).2
    simp [nonempty, he] at this
  have e1 : [c].length + size rest + 1 = (size rest + 1) + 1 := by simp; omega
  rw [e1, go_self _ _ hcn' hne', go_acc, spec_eq_go _ _ _ hndl]
  simp

/-- the textbook merge of `[l, [b]]` with `l = b :: …` duplicate-free is `l` -/
theorem specMerge_single {b : Id} {tl : List Id} (hnd : (b :: tl).Nodup) :
    specMerge (size ([b :: tl] ++ [[b]]) + 1) ([b :: tl] ++ [[b]]) [] = some (b :: tl) := by
  rw [spec_eq_go _ _ _ (by intro x hx; simp at hx; rcases hx with rfl | rfl; exact hnd; simp)]
  have hne : ([b :: tl] ++ [[b]]).filter nonempty = [b :: tl, [b]] := by simp [nonempty]
  rw [hne]
  have hfn : findNext [b :: tl, [b]] = some b := by simp [findNext, canChoose]
  simp only [go, List.isEmpty_cons, Bool.false_eq_true, if_false, hfn]
  have hd : dropIgn [b :: tl, [b]] (some b) = if tl = [] then [] else [tl] := by
    have hf : (fun x : Id => some x != some b) = (fun x => x != b) := by
      funext x; rw [Bool.eq_iff_iff]; simp
    simp only [dropIgn, List.map_cons, List.map_nil, hf, filter_ne_cons_nodup hnd]
    cases tl <;> simp
  rw [hd]
  by_cases htle : tl = []
  · subst htle; simp only [if_true]; rw [go_nil]; simp
  · simp only [htle, if_false]
    rw [go_single tl _ [b] (List.nodup_cons.mp hnd).2 (by simp [size]; omega) htle]
    simp

theorem lin_head {bases : Bases} {f : Nat} {c : Id} {l : List Id} (h : lin bases f c = some l) : l.head? = some c := by
  cases f with
  | zero => simp [lin] at h; subst h; rfl
  | succ f =>
    simp only [lin] at h
    split at h
    · simp at h
    · split at h
      · simp at h
      · simp at h; subst h; rfl

/-- **strict mode computes exactly the textbook C3, failing exactly when it does not exist** -/
theorem roStrict_eq_lin {bases : Bases} {rank : Id → Nat} (ha : Acyclic bases rank) (hnd : NodupBases bases) :
    ∀ (f : Nat) (c : Id), rank c < f → roStrict bases f c = lin bases f c := by
  intro f
  induction f with
  | zero => intro c h; omega
  | succ f ih =>
    intro c hr
    have hrb : ∀ b ∈ bases c, rank b < f := fun b hb => by have := ha c b hb; omega
    have hmapeq : (bases c).map (roStrict bases f) = (bases c).map (lin bases f) :=
      List.map_congr_left fun b hb => ih b (hrb b hb)
    have hvalid : ∀ b ∈ bases c, ValidLin bases b (roFull bases f b).mro :=
      fun b hb => roFull_valid ha f b (hrb b hb)
    -- what `lin` does, given the results of the bases
    have hlin : lin bases (f+1) c = match allSome ((bases c).map (lin bases f)) with
        | none => none
        | some ls => (specMerge (size (ls ++ [bases c]) + 1) (ls ++ [bases c]) []).map (c :: ·) := by
      simp only [lin]
      cases allSome ((bases c).map (lin bases f)) with
      | none => rfl
      | some ls => simp only []; cases specMerge (size (ls ++ [bases c]) + 1) (ls ++ [bases c]) [] <;> rfl
    rw [hlin]
    simp only [roStrict]
    split
    · -- single base
      rename_i b0 hb'
      have hbm : b0 ∈ bases c := by rw [hb']; simp
      rw [ih b0 (hrb b0 hbm), hb']
      simp only [List.map_cons, List.map_nil]
      cases hl : lin bases f b0 with
      | none => simp [allSome]
      | some m =>
        simp only [allSome, Option.map_some]
        have hm : (roFull bases f b0).mro = m := ro_eq_c3 ha hnd f b0 m (hrb b0 hbm) hl
        have hv := hvalid b0 hbm
        rw [hm] at hv
        obtain ⟨tl, rfl⟩ : ∃ tl, m = b0 :: tl := by
          have := hv.head
          cases m with
          | nil => simp at this
          | cons a t => simp at this; subst this; exact ⟨t, rfl⟩
        rw [specMerge_single hv.nodup]; rfl
    · rename_i hnot
      rw [hmapeq]
      cases hall : allSome ((bases c).map (lin bases f)) with
      | none => rfl
      | some ls =>
        simp only []
        have hmap := allSome_eq_some _ _ hall
        have hls : (bases c).map (fun b => (roFull bases f b).mro) = ls :=
          map_eq_of_some (bases c) ls hmap fun b hb x hx => ro_eq_c3 ha hnd f b x (hrb b hb) hx
        have hndl : ∀ x ∈ ls ++ [bases c], x.Nodup := by
          intro x hx
          rcases List.mem_append.mp hx with h | h
          · rw [← hls] at h
            obtain ⟨b, hb, rfl⟩ := List.mem_map.mp h
            exact (hvalid b hb).nodup
          · simp at h; subst h; exact hnd c
        have hcn : ∀ x ∈ ls ++ [bases c], c ∉ x := by
          intro x hx hcx
          rcases List.mem_append.mp hx with h | h
          · rw [← hls] at h
            obtain ⟨b, hb, rfl⟩ := List.mem_map.mp h
            exact not_reach_self_of_base ha hb (((hvalid b hb).mem c).mp hcx)
          · simp at h; subst h; have := ha c c hcx; omega
        have e : [[c]] ++ ls ++ [bases c] = [c] :: (ls ++ [bases c]) := by simp
        rw [e, mergeLoop_eq_spec hndl hcn]

/-- **C03_strict_iff** -/
theorem C03_strict_iff {bases : Bases} {rank : Id → Nat} (ha : Acyclic bases rank) (hnd : NodupBases bases) (c : Id) :
    (roStrict bases (rank c + 1) c).isNone ↔ (lin bases (rank c + 1) c).isNone := by
  rw [roStrict_eq_lin ha hnd _ c (Nat.lt_succ_self _)]

#print axioms C03_strict_iff
end ZI.RO
