import ZI.MergeLemmas2
/-! Scratch: towards `C03_valid`. -/
namespace ZI.RO

/-- `x` occurs strictly before some occurrence of `y` -/
def Before (l : List Id) (x y : Id) : Prop := ∃ l1 l2, l = l1 ++ x :: l2 ∧ y ∈ l2

theorem Before.cons {l : List Id} {x y : Id} (a : Id) (h : Before l x y) : Before (a :: l) x y := by
  obtain ⟨l1, l2, rfl, hy⟩ := h
  exact ⟨a :: l1, l2, rfl, hy⟩

theorem Before.head {l : List Id} {x y : Id} (hy : y ∈ l) : Before (x :: l) x y := ⟨[], l, rfl, hy⟩

theorem Before.of_sublist {s l : List Id} {x y : Id} (hs : s.Sublist l) (h : Before s x y) : Before l x y := by
  obtain ⟨s1, s2, rfl, hy⟩ := h
  obtain ⟨r1, r2, rfl, _, h2⟩ := List.append_sublist_iff.mp hs
  obtain ⟨r1', r2', rfl, hx, h3⟩ := List.cons_sublist_iff.mp h2
  obtain ⟨a, b, rfl⟩ := List.append_of_mem hx
  refine ⟨r1 ++ a, b ++ r2', by simp, ?_⟩
  exact List.mem_append_right _ (h3.subset hy)

theorem Before.append_right {l : List Id} {x y : Id} (l' : List Id) (h : Before l x y) : Before (l ++ l') x y := by
  obtain ⟨l1, l2, rfl, hy⟩ := h
  exact ⟨l1, l2 ++ l', by simp, List.mem_append_left _ hy⟩

structure ValidLin (bases : Bases) (c : Id) (l : List Id) : Prop where
  head : l.head? = some c
  nodup : l.Nodup
  mem : ∀ t, t ∈ l ↔ Reach bases c t
  topo : ∀ x ∈ l, ∀ b ∈ bases x, Before l x b

theorem reach_iff {bases : Bases} {c t : Id} : Reach bases c t ↔ t = c ∨ ∃ b ∈ bases c, Reach bases b t := by
  constructor
  · intro h
    cases h with
    | refl => exact Or.inl rfl
    | step hb h' => exact Or.inr ⟨_, hb, h'⟩
  · rintro (rfl | ⟨b, hb, h⟩)
    · exact Reach.refl _
    · exact Reach.step hb h

theorem reach_rank {bases : Bases} {rank : Id → Nat} (ha : Acyclic bases rank) {c t : Id} (h : Reach bases c t) :
    rank t ≤ rank c := by
  induction h with
  | refl => exact Nat.le_refl _
  | step hb _ ih => exact Nat.le_trans ih (Nat.le_of_lt (ha _ _ hb))

theorem not_reach_self_of_base {bases : Bases} {rank : Id → Nat} (ha : Acyclic bases rank) {c b : Id}
    (hb : b ∈ bases c) : ¬ Reach bases b c := by
  intro h
  have := reach_rank ha h
  have := ha _ _ hb
  omega

/-! #### the first pick of a merge whose first list is `[c]` -/
theorem findNext_self (c : Id) (rest : List (List Id)) (hc : ∀ bs ∈ rest, c ∉ bs) :
    findNext ([c] :: rest) = some c := by
  unfold findNext
  simp only [List.filterMap_cons, List.head?_cons]
  rw [List.find?_cons]
  have : canChoose c ([c] :: rest) = true := by
    unfold canChoose
    rw [List.all_eq_true]
    intro bs hbs
    rcases List.mem_cons.mp hbs with rfl | h
    · simp
    · cases bs with
      | nil => rfl
      | cons h' t' =>
        have := hc _ h
        simp only [List.mem_cons, not_or] at this
        simp [this.2]
  simp [this]

/-- unfolding the first iteration: `mro()` of a node is `c :: rest` -/
theorem mergeLoop_self {c : Id} {rest : List (List Id)} {l : List Id} (hc : ∀ bs ∈ rest, c ∉ bs)
    (h : mergeLoop (size ([c] :: rest) + 1) ([c] :: rest) none [] = some l) : ∃ m, l = c :: m := by
  rw [mergeLoop_eq_go] at h
  have hd : dropIgn ([c] :: rest) none = [c] :: dropIgn rest none := by
    simp [dropIgn]
  rw [hd] at h
  have hc' : ∀ bs ∈ dropIgn rest none, c ∉ bs := fun bs hbs => hc bs (mem_dropIgn_none.mp hbs).1
  simp only [go, List.isEmpty_cons, Bool.false_eq_true, if_false, findNext_self c _ hc'] at h
  have hsz : size (dropIgn ([c] :: dropIgn rest none) (some c)) < size ([c] :: rest) := by
    have h1 := size_dropIgn_le ([c] :: dropIgn rest none) (some c)
    have h2 := size_dropIgn_le rest none
    have h3 : size ([c] :: dropIgn rest none) = 1 + size (dropIgn rest none) := by simp [size_cons]
    have h4 : size ([c] :: rest) = 1 + size rest := by simp [size_cons]
    have h5 := size_dropIgn_lt (t := [c] :: dropIgn rest none) (b := c) (tl := []) (by simp)
    omega
  obtain ⟨m, hl, _⟩ := go_mem _ _ _ _ hsz h
  exact ⟨m, by simpa using hl⟩

/-! #### one `C3` node, structurally -/
/-- what a successful node computation guarantees, in terms of the base lists it was given -/
structure Struct (bases : Bases) (baseRes : Id → Res) (c : Id) (l : List Id) : Prop where
  head : l.head? = some c
  nodup : l.Nodup
  mem : ∀ t, t ∈ l ↔ t = c ∨ ∃ b ∈ bases c, t ∈ (baseRes b).mro
  topo : ∀ x ∈ l, ∀ b' ∈ bases x, Before l x b'

theorem c3Node_struct {bases : Bases} (legacy : Id → List Id) (baseRes : Id → Res) (c : Id)
    (hhead : ∀ b ∈ bases c, (baseRes b).mro.head? = some b)
    (hnd : ∀ b ∈ bases c, (baseRes b).mro.Nodup)
    (hcn : ∀ b ∈ bases c, c ∉ (baseRes b).mro)
    (hcb : c ∉ bases c)
    (htopo : ∀ b ∈ bases c, ∀ x ∈ (baseRes b).mro, ∀ b' ∈ bases x, Before (baseRes b).mro x b') :
    (c3Node bases legacy baseRes c).mro = legacy c ∨ Struct bases baseRes c (c3Node bases legacy baseRes c).mro := by
  have hself : ∀ b ∈ bases c, b ∈ (baseRes b).mro := by
    intro b hb
    have := hhead b hb
    cases h : (baseRes b).mro with
    | nil => rw [h] at this; simp at this
    | cons a t => rw [h] at this; simp at this; subst this; simp
  have hcnot : ∀ bs ∈ (bases c).map (fun b => (baseRes b).mro) ++ [bases c], c ∉ bs := by
    intro bs hbs hcb'
    rcases List.mem_append.mp hbs with h | h
    · obtain ⟨b, hb, rfl⟩ := List.mem_map.mp h
      exact hcn b hb hcb'
    · simp at h; subst h; exact hcb hcb'
  unfold c3Node
  split
  · -- single base
    rename_i b hbs
    have hb : b ∈ bases c := by rw [hbs]; simp
    right
    refine ⟨by simp, List.nodup_cons.mpr ⟨hcn b hb, hnd b hb⟩, ?_, ?_⟩
    · intro t; rw [hbs]; simp
    · intro x hx b' hb'
      rcases List.mem_cons.mp hx with rfl | hx
      · apply Before.head
        rw [hbs] at hb'; simp at hb'; subst hb'
        exact hself _ hb
      · exact (htopo b hb x hx b' hb').cons c
  · split
    · rename_i l hm
      right
      have hm' : mergeLoop (size ([c] :: ((bases c).map (fun b => (baseRes b).mro) ++ [bases c])) + 1)
          ([c] :: ((bases c).map (fun b => (baseRes b).mro) ++ [bases c])) none [] = some l := by
        simpa [c3Tree] using hm
      obtain ⟨m, rfl⟩ := mergeLoop_self hcnot hm'
      obtain ⟨hndl, hmem⟩ := mergeLoop_mem hm'
      have hsub := mergeLoop_sublist hm'
      have hmemS : ∀ t, t ∈ c :: m ↔ t = c ∨ ∃ b ∈ bases c, t ∈ (baseRes b).mro := by
        intro t
        rw [hmem]
        constructor
        · rintro ⟨bs, hbs, ht⟩
          rcases List.mem_cons.mp hbs with rfl | hbs
          · left; simpa using ht
          · rcases List.mem_append.mp hbs with h | h
            · obtain ⟨b, hb, rfl⟩ := List.mem_map.mp h
              exact Or.inr ⟨b, hb, ht⟩
            · simp at h; subst h
              exact Or.inr ⟨t, ht, hself t ht⟩
        · rintro (rfl | ⟨b, hb, hr⟩)
          · exact ⟨[t], by simp, by simp⟩
          · exact ⟨(baseRes b).mro, by simp; exact Or.inr (Or.inl ⟨b, hb, rfl⟩), hr⟩
      refine ⟨by simp, hndl, hmemS, ?_⟩
      intro x hx b' hb'
      by_cases hxc : x = c
      · subst hxc
        apply Before.head
        have hb'l : b' ∈ x :: m := (hmemS b').mpr (Or.inr ⟨b', hb', hself b' hb'⟩)
        rcases List.mem_cons.mp hb'l with rfl | h
        · exact absurd hb' hcb
        · exact h
      · obtain ⟨b, hb, hxin⟩ : ∃ b ∈ bases c, x ∈ (baseRes b).mro := by
          rcases (hmemS x).mp hx with h | h
          · exact absurd h hxc
          · exact h
        have hs : ((baseRes b).mro).Sublist (c :: m) :=
          hsub _ (by simp; exact Or.inr (Or.inl ⟨b, hb, rfl⟩)) (hnd b hb)
        exact (htopo b hb x hxin b' hb').of_sublist hs
    · left; rfl

/-! #### legacy fallback -/
def Follows (l : List Id) (x y : Id) : Prop := ∀ l1 l2, l = l1 ++ x :: l2 → y ∈ l2

theorem Follows.nil (x y : Id) : Follows [] x y := by
  intro l1 l2 h; simp at h

theorem Follows.append {l l' : List Id} {x y : Id} (h : Follows l x y) (h' : Follows l' x y) :
    Follows (l ++ l') x y := by
  intro l1 l2 he
  rcases List.append_eq_append_iff.mp he with ⟨a', rfl, h2⟩ | ⟨c', h1, h2⟩
  · exact h' a' l2 h2
  · cases c' with
    | nil => simp at h2; exact h' [] l2 (by simpa using h2.symm)
    | cons z c'' =>
      simp at h2
      obtain ⟨rfl, rfl⟩ := h2
      exact List.mem_append_left _ (h l1 c'' h1)

theorem Follows.flatMap {bs : List Id} {g : Id → List Id} {x y : Id} (h : ∀ b ∈ bs, Follows (g b) x y) :
    Follows (bs.flatMap g) x y := by
  induction bs with
  | nil => simpa using Follows.nil x y
  | cons b bs ih =>
    simp only [List.flatMap_cons]
    exact (h b (by simp)).append (ih fun b' hb' => h b' (by simp [hb']))

theorem flatten_succ (bases : Bases) (f : Nat) (c : Id) :
    flatten bases (f+1) c = c :: (bases c).flatMap (flatten bases f) := rfl

theorem head_flatten (bases : Bases) (f : Nat) (c : Id) : c ∈ flatten bases f c := by
  cases f <;> simp [flatten]

theorem mem_flatten {bases : Bases} {rank : Id → Nat} (ha : Acyclic bases rank) :
    ∀ (f : Nat) (c t : Id), rank c ≤ f → (t ∈ flatten bases f c ↔ Reach bases c t) := by
  intro f
  induction f with
  | zero =>
    intro c t hr
    have hb : bases c = [] := by
      cases h : bases c with
      | nil => rfl
      | cons b _ => have := ha c b (by rw [h]; simp); omega
    rw [reach_iff, hb]; simp [flatten]
  | succ f ih =>
    intro c t hr
    rw [flatten_succ, reach_iff (c := c)]
    simp only [List.mem_cons, List.mem_flatMap]
    constructor
    · rintro (h | ⟨b, hb, h⟩)
      · exact Or.inl h
      · exact Or.inr ⟨b, hb, (ih b t (by have := ha c b hb; omega)).mp h⟩
    · rintro (h | ⟨b, hb, h⟩)
      · exact Or.inl h
      · exact Or.inr ⟨b, hb, (ih b t (by have := ha c b hb; omega)).mpr h⟩

theorem follows_flatten {bases : Bases} {rank : Id → Nat} (ha : Acyclic bases rank) :
    ∀ (f : Nat) (c x b' : Id), rank c ≤ f → b' ∈ bases x → Follows (flatten bases f c) x b' := by
  intro f
  induction f with
  | zero =>
    intro c x b' hr hb' l1 l2 he
    simp [flatten] at he
    cases l1 with
    | nil => simp at he; obtain ⟨rfl, _⟩ := he; have := ha _ _ hb'; omega
    | cons a l1' => simp at he
  | succ f ih =>
    intro c x b' hr hb' l1 l2 he
    rw [flatten_succ] at he
    cases l1 with
    | nil =>
      simp at he
      obtain ⟨rfl, rfl⟩ := he
      exact List.mem_flatMap.mpr ⟨b', hb', head_flatten _ _ _⟩
    | cons a l1' =>
      simp at he
      obtain ⟨rfl, he⟩ := he
      have : Follows ((bases c).flatMap (flatten bases f)) x b' :=
        Follows.flatMap fun b hb => ih b x b' (by have := ha c b hb; omega) hb'
      exact this l1' l2 he

theorem keepLast_cons_not_mem {a : Id} {l : List Id} (h : a ∉ l) : keepLast (a :: l) = a :: keepLast l := by
  simp [keepLast, h]

theorem keepLast_before {l : List Id} {x y : Id} (hxy : x ≠ y) (hx : x ∈ l) (hf : Follows l x y) :
    Before (keepLast l) x y := by
  induction l with
  | nil => simp at hx
  | cons a l ih =>
    have hfl : Follows l x y := fun l1 l2 he => hf (a :: l1) l2 (by simp [he])
    by_cases hax : a = x
    · subst hax
      by_cases hin : a ∈ l
      · have : keepLast (a :: l) = keepLast l := by simp [keepLast, hin]
        rw [this]; exact ih hin hfl
      · rw [keepLast_cons_not_mem hin]
        have hy : y ∈ l := hf [] l rfl
        exact Before.head (mem_keepLast.mpr hy)
    · have hxl : x ∈ l := by
        rcases List.mem_cons.mp hx with h | h
        · exact absurd h.symm hax
        · exact h
      have hb := ih hxl hfl
      simp only [keepLast]
      split
      · exact hb
      · exact hb.cons a

theorem legacy_valid {bases : Bases} {rank : Id → Nat} (ha : Acyclic bases rank) (f : Nat) (c : Id)
    (hr : rank c ≤ f) : ValidLin bases c (legacyRo bases f c) := by
  unfold legacyRo
  have hmem := mem_flatten ha f c
  refine ⟨?_, nodup_keepLast _, fun t => by rw [mem_keepLast]; exact hmem t hr, ?_⟩
  · -- head
    cases f with
    | zero => simp [flatten, keepLast]
    | succ f =>
      rw [flatten_succ]
      have : c ∉ (bases c).flatMap (flatten bases f) := by
        intro h
        obtain ⟨b, hb, h⟩ := List.mem_flatMap.mp h
        have hrb := ha c b hb
        exact not_reach_self_of_base ha hb ((mem_flatten ha f b c (by omega)).mp h)
      rw [keepLast_cons_not_mem this]; simp
  · intro x hx b' hb'
    have hxy : x ≠ b' := fun e => by subst e; have := ha _ _ hb'; omega
    exact keepLast_before hxy (mem_keepLast.mp hx) (follows_flatten ha f c x b' hr hb')

#print axioms c3Node_struct
#print axioms legacy_valid
end ZI.RO
