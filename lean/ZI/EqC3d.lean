import ZI.EqC3c
namespace ZI.RO

/-- the flag `had_inconsistency` is raised exactly when the textbook C3 does not exist -/
theorem incons_iff {bases : Bases} {rank : Id → Nat} (ha : Acyclic bases rank) (hnd : NodupBases bases) :
    ∀ (f : Nat) (c : Id), rank c < f → ((roFull bases f c).incons = true ↔ lin bases f c = none) := by
  intro f
  induction f with
  | zero => intro c h; omega
  | succ f ih =>
    intro c hr
    have hrb : ∀ b ∈ bases c, rank b < f := fun b hb => by have := ha c b hb; omega
    have hvalid : ∀ b ∈ bases c, ValidLin bases b (roFull bases f b).mro :=
      fun b hb => roFull_valid ha f b (hrb b hb)
    have hlin : lin bases (f+1) c = match allSome ((bases c).map (lin bases f)) with
        | none => none
        | some ls => (specMerge (size (ls ++ [bases c]) + 1) (ls ++ [bases c]) []).map (c :: ·) := by
      simp only [lin]
      cases allSome ((bases c).map (lin bases f)) with
      | none => rfl
      | some ls => simp only []; cases specMerge (size (ls ++ [bases c]) + 1) (ls ++ [bases c]) [] <;> rfl
    -- allSome is none iff some base has no linearization
    have hallnone : allSome ((bases c).map (lin bases f)) = none ↔ ∃ b ∈ bases c, lin bases f b = none := by
      generalize bases c = bs
      induction bs with
      | nil => simp [allSome]
      | cons b rest ihb =>
        simp only [List.map_cons, List.mem_cons, exists_eq_or_imp]
        cases hl : lin bases f b with
        | none => simp [allSome]
        | some v =>
          simp only [allSome]
          cases hr' : allSome (rest.map (lin bases f)) with
          | none => simp [ihb.mp hr']
          | some vs =>
            simp only []
            constructor
            · intro h; simp at h
            · rintro (h | h)
              · simp at h
              · have := ihb.mpr h; rw [hr'] at this; simp at this
    rw [hlin]
    show (c3Node bases (legacyRo bases (f+1)) (roFull bases f) c).incons = true ↔ _
    unfold c3Node
    split
    · rename_i b0 hb'
      have hbm : b0 ∈ bases c := by rw [hb']; simp
      simp only []
      rw [ih b0 (hrb b0 hbm), hb']
      simp only [List.map_cons, List.map_nil]
      cases hl : lin bases f b0 with
      | none => simp [allSome]
      | some m =>
        simp only [allSome]
        have hm : (roFull bases f b0).mro = m := ro_eq_c3 ha hnd f b0 m (hrb b0 hbm) hl
        have hv := hvalid b0 hbm
        rw [hm] at hv
        obtain ⟨tl, rfl⟩ : ∃ tl, m = b0 :: tl := by
          have := hv.head
          cases m with
          | nil => simp at this
          | cons a t => simp at this; subst this; exact ⟨t, rfl⟩
        rw [specMerge_single hv.nodup]; simp
    · rename_i hnot
      cases hall : allSome ((bases c).map (lin bases f)) with
      | none =>
        -- some base is inconsistent: the flag is inherited whatever the merge does
        obtain ⟨b, hb, hbn⟩ := hallnone.mp hall
        have hbi : (roFull bases f b).incons = true := (ih b (hrb b hb)).mpr hbn
        simp only []
        constructor
        · intro _; trivial
        · intro _
          split
          · simp only [List.any_eq_true]; exact ⟨b, hb, hbi⟩
          · rfl
      | some ls =>
        simp only []
        have hmap := allSome_eq_some _ _ hall
        have hls : (bases c).map (fun b => (roFull bases f b).mro) = ls :=
          map_eq_of_some (bases c) ls hmap fun b hb x hx => ro_eq_c3 ha hnd f b x (hrb b hb) hx
        have hnoinc : ((bases c).any fun b => (roFull bases f b).incons) = false := by
          rw [List.any_eq_false]
          intro b hb hbi
          have := (ih b (hrb b hb)).mp hbi
          have hne : ¬ ∃ b ∈ bases c, lin bases f b = none := by
            intro h; have := hallnone.mpr h; rw [hall] at this; simp at this
          exact hne ⟨b, hb, this⟩
        have hndl : ∀ x ∈ ls ++ [bases c], x.Nodup := by
          intro x hx
          rcases List.mem_append.mp hx with h | h
          · rw [← hls] at h
            obtain ⟨b, hb, rfl⟩ := List.mem_map.mp h
            exact (hvalid b hb).nodup
          · simp at h; subst h; exact hnd c
        have hcn : ∀ x ∈ ls ++ [bases c], c ∉ x := by
          intro x hx hcx
          rcases List.mem_append.mp hx with h | h
          · rw [← hls] at h
            obtain ⟨b, hb, rfl⟩ := List.mem_map.mp h
            exact not_reach_self_of_base ha hb (((hvalid b hb).mem c).mp hcx)
          · simp at h; subst h; have := ha c c hcx; omega
        have htree : c3Tree c (bases c) (roFull bases f) = [c] :: (ls ++ [bases c]) := by
          simp [c3Tree, hls]
        rw [htree, mergeLoop_eq_spec hndl hcn]
        cases specMerge (size (ls ++ [bases c]) + 1) (ls ++ [bases c]) [] with
        | none => simp
        | some m => simp [hnoinc]

/-- **C03_consistent_iff** (for the repaired `is_consistent`) -/
theorem C03_consistent_iff {bases : Bases} {rank : Id → Nat} (ha : Acyclic bases rank) (hnd : NodupBases bases) (c : Id) :
    isConsistent bases (rank c) c = (lin bases (rank c + 1) c).isSome := by
  unfold isConsistent
  have := incons_iff ha hnd (rank c + 1) c (Nat.lt_succ_self _)
  cases hi : (roFull bases (rank c + 1) c).incons with
  | true => rw [this.mp hi]; rfl
  | false =>
    cases hl : lin bases (rank c + 1) c with
    | none => have := this.mpr hl; rw [hi] at this; simp at this
    | some _ => rfl

#print axioms C03_consistent_iff
end ZI.RO
