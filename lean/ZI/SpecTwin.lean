/-! # The declaration-query twins: `providedBy`, `getObjectSpecification`, `implementedBy` — Python reference and C accelerator

`declarations.py` (`providedBy`, `getObjectSpecification`, `implementedBy`) and `_zope_interface_coptimizations.c`
(`providedBy`, `getObjectSpecification`, `implementedBy` with its fast path and `implementedByFallback`) decide *which
object* answers a declaration query by probing a handful of attributes.  Each side is modelled separately, statement by
statement, over an explicit **view** of the queried object: the outcome of every attribute access the code performs
(a value, `AttributeError`, or another exception).  The correspondence harness computes that view from a real object with
plain `getattr` probes, feeds it to both models, and compares each with the real implementation of its own mode; the twin
theorems (`ZI/Props/C10.lean`) say when the two models agree.

Core Lean only (the driver links this file). -/
namespace ZI.SpecTwin

/-- how an attribute access / `isinstance` probe ends when it does not produce a value -/
inductive Exc | attr | other
deriving DecidableEq, Repr

/-- what the code can observe of a value fetched from `__providedBy__` / `__provides__` -/
structure ValView where
  id : Nat                      -- object identity (`r is cp`)
  isSpecBase : Bool             -- `isinstance(v, SpecificationBase)` / `PyObject_TypeCheck(v, &SB_type_def)`
  extendsAttr : Option Exc      -- `v.extends`: `none` = the attribute exists
deriving DecidableEq, Repr

inductive Get (α : Type) | ok (v : α) | err (e : Exc)
deriving Repr

structure ClsView where
  id : Nat
  provides : Get ValView        -- `ob.__class__.__provides__`
deriving Repr

structure ObView where
  isSuper : Bool                -- `isinstance(ob, super)`
  providedBy : Get ValView      -- `ob.__providedBy__`
  provides : Get ValView        -- `ob.__provides__`
  cls : Get ClsView             -- `ob.__class__`
deriving Repr

/-- which object answers -/
inductive Res
  | val (id : Nat)              -- that very object (the `__providedBy__` / `__provides__` value)
  | implBy (cls : Nat)          -- `implementedBy(ob.__class__)`
  | implBySuper                 -- `implementedBy(ob)` for a `super` object (→ `_implementedBy_super`)
  | empty                       -- `_empty`
  | raise (e : Exc)
deriving DecidableEq, Repr

/-! ### `getObjectSpecification` -/
/-- declarations.py -/
def getObjectSpecificationPy (o : ObView) : Res :=
  -- try: provides = ob.__provides__  except AttributeError: provides = None
  match o.provides with
  | .err .other => .raise .other
  | .ok v => if v.isSpecBase then .val v.id else
      -- try: cls = ob.__class__ except AttributeError: return _empty
      (match o.cls with | .ok c => .implBy c.id | .err .attr => .empty | .err .other => .raise .other)
  | .err .attr =>
      (match o.cls with | .ok c => .implBy c.id | .err .attr => .empty | .err .other => .raise .other)

/-- `_zope_interface_coptimizations.c` `getObjectSpecification` -/
def getObjectSpecificationC (o : ObView) : Res :=
  -- result = PyObject_GetAttr(ob, str__provides__)
  match o.provides with
  | .err .other => .raise .other               -- "Propagate non AttributeError exceptions"
  | .err .attr =>
      (match o.cls with | .ok c => .implBy c.id | .err .attr => .empty | .err .other => .raise .other)
  | .ok v =>
      -- is_instance = PyObject_IsInstance(result, specification_base_class); if (is_instance) return result;
      if v.isSpecBase then .val v.id else
      (match o.cls with | .ok c => .implBy c.id | .err .attr => .empty | .err .other => .raise .other)

/-! ### `providedBy` -/
/-- declarations.py `providedBy` -/
def providedByPy (o : ObView) : Res :=
  -- try: if isinstance(ob, super): return implementedBy(ob); r = ob.__providedBy__  except AttributeError: return getObjectSpecification(ob)
  if o.isSuper then .implBySuper else
  match o.providedBy with
  | .err .attr => getObjectSpecificationPy o
  | .err .other => .raise .other
  | .ok r =>
    -- try: r.extends except AttributeError: …
    match r.extendsAttr with
    | none => .val r.id
    | some .other => .raise .other
    | some .attr =>
      -- try: r = ob.__provides__ except AttributeError: return implementedBy(ob.__class__)
      match o.provides with
      | .err .other => .raise .other
      | .err .attr => (match o.cls with | .ok c => .implBy c.id | .err e => .raise e)
      | .ok r2 =>
        -- try: cp = ob.__class__.__provides__ except AttributeError: return r
        match o.cls with
        | .err .attr => .val r2.id
        | .err .other => .raise .other
        | .ok c =>
          match c.provides with
          | .err .attr => .val r2.id
          | .err .other => .raise .other
          | .ok cp => if cp.id = r2.id then .implBy c.id else .val r2.id

/-- `_zope_interface_coptimizations.c` `providedBy` as at the pinned commit: `PyObject_HasAttrString(result, "extends")`
swallows every exception, `__class__` is fetched BEFORE `__provides__` and its failure is returned as it is, and the two
`PyErr_Clear()` calls after the `__provides__` fetches clear every exception. -/
def providedByCPinned (o : ObView) : Res :=
  -- is_instance = PyObject_IsInstance(ob, &PySuper_Type); if (is_instance) return implementedBy(module, ob);
  if o.isSuper then .implBySuper else
  -- result = PyObject_GetAttr(ob, str__providedBy__)
  match o.providedBy with
  | .err .attr => getObjectSpecificationC o
  | .err .other => .raise .other
  | .ok r =>
    -- if (PyObject_TypeCheck(result, specification_base_class) || PyObject_HasAttrString(result, "extends")) return result;
    if r.isSpecBase then .val r.id else
    match r.extendsAttr with
    | none => .val r.id
    | some _ =>
      -- cls = PyObject_GetAttr(ob, str__class__); if (cls == NULL) return NULL;
      match o.cls with
      | .err e => .raise e
      | .ok c =>
        -- result = PyObject_GetAttr(ob, str__provides__); if (result == NULL) { PyErr_Clear(); return implementedBy(module, cls) }
        match o.provides with
        | .err _ => .implBy c.id
        | .ok r2 =>
          -- cp = PyObject_GetAttr(cls, str__provides__); if (cp == NULL) { PyErr_Clear(); return result }
          match c.provides with
          | .err _ => .val r2.id
          | .ok cp => if cp.id = r2.id then .implBy c.id else .val r2.id

/-- `_zope_interface_coptimizations.c` `providedBy` (repaired): the type check first, then the `extends` probe with
`PyObject_GetAttrString` (only `AttributeError` means "absent"), `__provides__` before `__class__` as in the reference,
a missing `__class__` tolerated where the reference tolerates it, every other exception propagated. -/
def providedByC (o : ObView) : Res :=
  if o.isSuper then .implBySuper else
  match o.providedBy with
  | .err .attr => getObjectSpecificationC o
  | .err .other => .raise .other
  | .ok r =>
    -- if (PyObject_TypeCheck(result, specification_base_class)) return result;
    if r.isSpecBase then .val r.id else
    -- cp = PyObject_GetAttrString(result, "extends"); if (cp != NULL) return result; if (!AttributeError) return NULL;
    match r.extendsAttr with
    | none => .val r.id
    | some .other => .raise .other
    | some .attr =>
      -- result = PyObject_GetAttr(ob, str__provides__)
      match o.provides with
      | .err .other => .raise .other
      | .err .attr =>
        -- cls = PyObject_GetAttr(ob, str__class__); if (cls == NULL) return NULL; return implementedBy(module, cls);
        (match o.cls with | .ok c => .implBy c.id | .err e => .raise e)
      | .ok r2 =>
        -- cls = PyObject_GetAttr(ob, str__class__); if (cls == NULL) { if (!AttributeError) return NULL; PyErr_Clear(); return result; }
        match o.cls with
        | .err .attr => .val r2.id
        | .err .other => .raise .other
        | .ok c =>
          -- cp = PyObject_GetAttr(cls, str__provides__); if (cp == NULL) { if (!AttributeError) return NULL; PyErr_Clear(); return result; }
          match c.provides with
          | .err .attr => .val r2.id
          | .err .other => .raise .other
          | .ok cp => if cp.id = r2.id then .implBy c.id else .val r2.id

/-! ### `implementedBy`: the C fast path in front of the Python function -/
/-- what the fast path probes of its argument -/
structure ImplView where
  isSuper : Bool                 -- `PyObject_TypeCheck(cls, &PySuper_Type)` / `isinstance(cls, super)`
  dictOk : Bool                  -- `cls.__dict__` can be fetched (a type's `tp_dict`, else the attribute)
  implemented : Option (Nat × Bool)   -- `dict['__implemented__']`: (identity, isinstance(spec, Implements)); `none` = absent
  implementedIsNone : Bool       -- the entry exists and is `None`
  builtin : Option Nat           -- `BuiltinImplementationSpecifications.get(cls)`
deriving Repr

inductive IRes
  | spec (id : Nat)              -- an existing specification object is returned as it is
  | super_                       -- `_implementedBy_super(cls)`
  | slow                         -- the rest of the Python function (old-style declaration / create and store a new specification / proxied class)
deriving DecidableEq, Repr

/-- declarations.py `implementedBy` up to the point where it returns an existing object -/
def implementedByPy (v : ImplView) : IRes :=
  if v.isSuper then .super_ else
  if !v.dictOk then .slow else                        -- `except AttributeError:` branch (security-proxied class)
  match v.implemented with
  | some (id, true) => .spec id                       -- `if isinstance(spec, Implements): return spec`
  | some (_, false) =>
      if v.implementedIsNone then (match v.builtin with | some b => .spec b | none => .slow) else .slow
  | none => (match v.builtin with | some b => .spec b | none => .slow)

/-- C `implementedBy`: fast retrieval, else `implementedByFallback` = the Python function -/
def implementedByC (v : ImplView) : IRes :=
  if v.isSuper then implementedByPy v else           -- "Let merging be handled by Python."
  if !v.dictOk then implementedByPy v else           -- "Probably a security proxied class, use more expensive fallback code"
  match v.implemented with
  | some (id, true) => .spec id
  | some (_, false) => implementedByPy v              -- "Old-style declaration, use more expensive fallback code"
  | none => (match v.builtin with | some b => .spec b | none => implementedByPy v)

/-! ### `SpecificationBase.providedBy` / `implementedBy` / `isOrExtends` / `__call__` -/
/-- the declaration found for the object, as `SB_providedBy` sees it -/
structure DeclView where
  isSpecBase : Bool              -- `PyObject_TypeCheck(decl, specification_base_class)`
  implied : Bool                 -- `self in decl._implied` (meaningful when `isSpecBase`)
deriving Repr

/-- interface.py `SpecificationBase.providedBy`: `spec = providedBy(ob); return self in spec._implied` — a non-specification
has no `_implied` (AttributeError, modelled as `none`) -/
def sbProvidedByPy (d : DeclView) : Option Bool := if d.isSpecBase then some d.implied else none
/-- C `SB_providedBy`: a non-specification is *called* with the interface (security-proxy path; `none` = whatever that call does) -/
def sbProvidedByC (d : DeclView) : Option Bool := if d.isSpecBase then some d.implied else none

/-! ### the specification descriptors -/
/-- `ObjectSpecificationDescriptor.__get__(inst, cls)` as seen by its caller -/
inductive DRes
  | gos            -- `getObjectSpecification(cls)` (accessed through the class)
  | val (id : Nat) -- the instance's `__provides__`
  | implBy         -- `implementedBy(cls)`
  | self_          -- the descriptor itself (ClassProvides accessed through its own class)
  | implements     -- `self._implements`
  | raise (e : Exc)
deriving DecidableEq, Repr

/-- declarations.py `ObjectSpecificationDescriptor.__get__`: `inst is None` → `getObjectSpecification(cls)`; else
`try: return inst.__provides__ except AttributeError: return implementedBy(cls)` -/
def osdGetPy (instIsNone : Bool) (provides : Get ValView) : DRes :=
  if instIsNone then .gos else
  match provides with
  | .ok v => .val v.id
  | .err .attr => .implBy
  | .err .other => .raise .other
/-- C `OSD_descr_get`: "Return __provides__ if we got it, or return NULL and propagate non-AttributeError" -/
def osdGetC (instIsNone : Bool) (provides : Get ValView) : DRes :=
  if instIsNone then .gos else
  match provides with
  | .ok v => .val v.id
  | .err e => if e = .attr then .implBy else .raise .other

/-- declarations.py `ClassProvidesBase.__get__`: only works on the class it was defined for -/
def cpbGetPy (clsIsOwn instIsNone : Bool) : DRes :=
  if clsIsOwn then (if instIsNone then .self_ else .implements) else .raise .attr
/-- C `CPB_descr_get` -/
def cpbGetC (clsIsOwn instIsNone : Bool) : DRes :=
  if clsIsOwn then (if instIsNone then .self_ else .implements) else .raise .attr
end ZI.SpecTwin
