/-! C12 model definitions (core Lean only, so the driver can link): NameAndModuleComparisonMixin._compare (Python) vs IB_richcompare (C). -/
namespace ZI.Order
abbrev Key := String × String      -- (__name__, __module__)

inductive Cmp | lt | le | gt | ge | eq | ne
deriving DecidableEq, Repr

/-- Python: `n1 = (name, module)`; tuple comparison is lexicographic -/
def tupleLt (a b : Key) : Prop := a.1 < b.1 ∨ (a.1 = b.1 ∧ a.2 < b.2)
instance (a b : Key) : Decidable (tupleLt a b) := by unfold tupleLt; infer_instance

/-- `_compare`: -1 / 0 / 1 -/
def compare3 (a b : Key) : Int := if tupleLt b a then 1 else if tupleLt a b then -1 else 0

def pyOp (op : Cmp) (a b : Key) : Bool :=
  let c := compare3 a b
  match op with
  | .lt => c < 0 | .le => c ≤ 0 | .gt => c > 0 | .ge => c ≥ 0 | .eq => c == 0 | .ne => c != 0

def strOp (op : Cmp) (x y : String) : Bool :=
  match op with
  | .lt => x < y | .le => x ≤ y | .gt => x > y | .ge => x ≥ y | .eq => x == y | .ne => x != y

/-- C `IB_richcompare`: "tuple comparison is decided by the first non-equal element" -/
def cOp (op : Cmp) (a b : Key) : Bool :=
  if a.1 == b.1 then strOp op a.2 b.2 else strOp op a.1 b.1

end ZI.Order
